/-
  C13 — Results are deterministic and independent of call history.
  Property theorems only; the model is GHEVerif/Model/Api.lean, helper lemmas are in
  GHEVerif/Lemmas/Api.lean.  All numerics are parameters (`Kernels`): the theorems hold for every
  simulation kernel, every search routine (any interaction tree over calculate_excess /
  initialize_ghe / compute_g_functions+size), every root finder.

  `Gen.Api.*` is regenerated from the sources on every check (translate/gen_api.py); the
  `source_shape_*` theorems pin the facts the model transcribes (when the interpolation table is
  rebuilt, which slots `set_design`
  captures, which statements write a borehole height, that `simulate` never tests `self.times`,
  that nothing stores into a `keep_contour` default).
-/
import GHEVerif.Lemmas.Api
import GHEVerif.Gen.Api
import Mathlib.Tactic.Linarith

namespace GHEVerif.C13
open GHEVerif GHEVerif.Api

/-! ### 1. `find_design` is a function of the physical configuration -/

/-- **find_design_pure.**  After *any* history of API calls (any managers, any setters in any
    order with any repetitions, any earlier `set_design`/`find_design`, any nominal borehole
    heights), `set_design; find_design` on manager `m` yields exactly `design K cfg`, where `cfg` is
    read off the history *syntactically* (`lastSlots`: the last setter of each slot of `m`; the
    nominal height is not part of it) and `design` is a function of `cfg` alone.
    Hypotheses: the flow type is implemented, candidate generation does not raise, the load list
    is non-empty, and the search routine is `Safe` for the height the shared borehole currently
    holds (its constructor does not raise there and the object built there is neither returned nor
    sized — true of the four routines, measured on every real run). -/
theorem find_design_pure (K : Kernels) (hist : List Op) (m : Nat) (flow : Rat) (ft : FlowType) (cfg : Config)
    (hcfg : (lastSlots K m hist (0, {})).2.config? flow ft [true, false] = some cfg)
    (hft : ft ≠ .other) (hgeom : K.geomOk cfg.geom [true, false] = true) (hloads : 0 < cfg.st.loads.len)
    (hsafe : ∀ h0, boreHeight (runOps K hist {}) m = some h0 →
      Safe (CtorOk K cfg.st cfg.D cfg.rb h0) false (K.strategy cfg)) :
    (step K (.findDesign m) (step K (.setDesign m flow ft) (runOps K hist {})).2).1 = okUnit (design K cfg) ∧
    ∀ rs, design K cfg = .ok rs →
      resultOf (step K (.findDesign m) (step K (.setDesign m flow ft) (runOps K hist {})).2).2 m = some rs :=
  find_design_pure_aux K hist m flow ft cfg hcfg hft hgeom hloads hsafe

/-- Two histories (possibly on different managers of different processes' worth of earlier work)
    that end in the same configuration give the same outcome and the same result. -/
theorem find_design_history_independent (K : Kernels) (h1 h2 : List Op) (m1 m2 : Nat) (flow : Rat) (ft : FlowType) (cfg : Config)
    (c1 : (lastSlots K m1 h1 (0, {})).2.config? flow ft [true, false] = some cfg)
    (c2 : (lastSlots K m2 h2 (0, {})).2.config? flow ft [true, false] = some cfg)
    (hft : ft ≠ .other) (hgeom : K.geomOk cfg.geom [true, false] = true) (hloads : 0 < cfg.st.loads.len)
    (s1 : ∀ h0, boreHeight (runOps K h1 {}) m1 = some h0 → Safe (CtorOk K cfg.st cfg.D cfg.rb h0) false (K.strategy cfg))
    (s2 : ∀ h0, boreHeight (runOps K h2 {}) m2 = some h0 → Safe (CtorOk K cfg.st cfg.D cfg.rb h0) false (K.strategy cfg))
    (rs : Result) (hok : design K cfg = .ok rs) :
    (step K (.findDesign m1) (step K (.setDesign m1 flow ft) (runOps K h1 {})).2).1 =
      (step K (.findDesign m2) (step K (.setDesign m2 flow ft) (runOps K h2 {})).2).1 ∧
    resultOf (step K (.findDesign m1) (step K (.setDesign m1 flow ft) (runOps K h1 {})).2).2 m1 =
      resultOf (step K (.findDesign m2) (step K (.setDesign m2 flow ft) (runOps K h2 {})).2).2 m2 := by
  have a := find_design_pure K h1 m1 flow ft cfg c1 hft hgeom hloads s1
  have b := find_design_pure K h2 m2 flow ft cfg c2 hft hgeom hloads s2
  exact ⟨by rw [a.1, b.1], by rw [a.2 rs hok, b.2 rs hok]⟩

/-- Repeating `set_design; find_design` on the same manager (the borehole now holds the sized
    height of the first run) gives the same result again. -/
theorem find_design_repeatable (K : Kernels) (hist : List Op) (m : Nat) (flow : Rat) (ft : FlowType) (cfg : Config)
    (hcfg : (lastSlots K m hist (0, {})).2.config? flow ft [true, false] = some cfg)
    (hft : ft ≠ .other) (hgeom : K.geomOk cfg.geom [true, false] = true) (hloads : 0 < cfg.st.loads.len)
    (hsafe : ∀ h0, Safe (CtorOk K cfg.st cfg.D cfg.rb h0) false (K.strategy cfg))
    (rs : Result) (hok : design K cfg = .ok rs) :
    resultOf (runOps K (hist ++ [.setDesign m flow ft, .findDesign m]) {}) m = some rs ∧
    resultOf (runOps K ((hist ++ [.setDesign m flow ft, .findDesign m]) ++ [.setDesign m flow ft, .findDesign m]) {}) m = some rs := by
  have key : ∀ h : List Op, (lastSlots K m h (0, {})).2.config? flow ft [true, false] = some cfg →
      resultOf (runOps K (h ++ [.setDesign m flow ft, .findDesign m]) {}) m = some rs := by
    intro h hc
    have := (find_design_pure K h m flow ft cfg hc hft hgeom hloads (fun h0 _ => hsafe h0)).2 rs hok
    rw [runOps_append]
    exact this
  refine ⟨key hist hcfg, key _ ?_⟩
  rw [lastSlots_append]
  have : ∀ a : Nat × Slots, lastSlots K m [.setDesign m flow ft, .findDesign m] a = a := by
    intro a; obtain ⟨n, s⟩ := a
    simp only [lastSlots, countStep, slotsStep]
    split_ifs <;> rfl
  rw [this]; exact hcfg

/-- The nominal height given to `set_borehole` is not part of the configuration. -/
theorem nominal_height_forgotten (K : Kernels) (m m' : Nat) (h h' d dia : Rat) (n : Nat) (s : Slots) :
    slotsStep K m (.setBorehole m' h d dia) n s = slotsStep K m (.setBorehole m' h' d dia) n s := rfl

/-- `find_design` in an arbitrary world depends only on what the design object captured (and the
    depth/radius of the borehole object it refers to): not on the borehole's current height, not
    on the manager's later slot contents, not on other managers or earlier searches. -/
theorem find_design_any_world (K : Kernels) (w : World) (m : Nat) (mg : Manager) (d : Snapshot) (st : Static) (r : Nat) (cell : BH)
    (hm : w.mgrs[m]? = some mg) (hready : mg.ready = true) (hd : mg.design = some d) (hst : d.static? = some st)
    (hr : d.bh = some r) (hc : w.heap[r]? = some cell)
    (hs : Safe (CtorOk K st cell.D cell.rb cell.H) false
            (K.strategy { st := st, geom := d.geom, D := cell.D, rb := cell.rb, keepContour := d.keepContour })) :
    (findDesign K m w).1 = okUnit (design K { st := st, geom := d.geom, D := cell.D, rb := cell.rb, keepContour := d.keepContour }) ∧
    ∀ rs, design K { st := st, geom := d.geom, D := cell.D, rb := cell.rb, keepContour := d.keepContour } = .ok rs →
      resultOf (findDesign K m w).2 m = some rs ∧ ((findDesign K m w).2.heap[r]?).map (·.H) = some rs.H :=
  findDesign_config K w m mg d st r cell hm hready hd hst hr hc hs

/-- What every history leaves in a manager is what its last setters said (slot by slot), all
    borehole references stay valid, and depth/radius of a borehole object never change. -/
theorem slots_after_history (K : Kernels) (m : Nat) (hist : List Op) (mg : Manager)
    (hm : (runOps K hist {}).mgrs[m]? = some mg) :
    absSlots (runOps K hist {}) mg = (lastSlots K m hist (0, {})).2 ∧
    (runOps K hist {}).mgrs.length = (lastSlots K m hist (0, {})).1 :=
  ⟨(inv_runOps K m hist {} 0 {} (inv_empty m)).slots mg hm, (inv_runOps K m hist {} 0 {} (inv_empty m)).len⟩

/-- **refused_call_is_identity.**  A setter or `set_design` call that is refused (unknown pipe
    type / geometry type / fluid / flow type, geometry constraints missing, candidate generation
    raising, no such manager — whether it reports by `return 1` or by raising) leaves the whole
    world exactly as it was: every slot of every manager, `pipe_type`, `geom_type`, the design, the
    last search, the heap of boreholes. -/
theorem refused_call_is_identity (K : Kernels) (op : Op) (w : World) (e : PyErr)
    (hop : ∀ m, op ≠ .findDesign m) (h : (step K op w).1 = .error e) : (step K op w).2 = w :=
  refused_call_is_identity_aux K op w e hop h

/-- `find_design` refused by its own `all([...])` test leaves the world as it was (a `find_design`
    that fails *during* the search keeps every slot but may leave another borehole height:
    `frame_findDesign`). -/
theorem refused_find_design_is_identity (K : Kernels) (m : Nat) (w : World) (mg : Manager)
    (hm : w.mgrs[m]? = some mg) (hr : mg.ready = false) : step K (.findDesign m) w = (.error .valueError, w) :=
  findDesign_not_ready K m w mg hm hr

/-- Hence a refused call can be deleted from any history without changing anything that follows
    (in particular the design found later). -/
theorem refused_call_can_be_deleted (K : Kernels) (h1 h2 : List Op) (op : Op) (e : PyErr)
    (hop : ∀ m, op ≠ .findDesign m) (h : (step K op (runOps K h1 {})).1 = .error e) :
    runOps K (h1 ++ op :: h2) {} = runOps K (h1 ++ h2) {} := by
  rw [runOps_append, runOps_append]
  simp only [runOps]
  rw [refused_call_is_identity K op _ e hop h]

/-! ### 2. One GHE object: every call behaves as on a new object -/

/-- **simulate_pure.**  For every sequence of `simulate`/`size`/`compute_g_functions` calls and
    external height writes on one GHE — any heights, inside or outside the stored g-function
    heights — each call returns what the same call returns on the object *as new* (`specG`: no
    interpolation table, no time axis, no stored results; only the stored heights and the borehole
    height carry over).  No hypothesis: since fix 5ab5ff6 the interpolation table is rebuilt
    whenever it was built for another (kind, fill mode) (`source_shape_gfunction`); before it the
    statement needed every height to be covered by the stored ones (witness kept below as a
    regression). -/
theorem simulate_pure (K : Kernels) (ops : List GOp) (s : GSt) :
    (runG K ops s).1 = specG K ops s :=
  runG_refines K ops s s ⟨rfl, ⟨rfl, rfl, rfl, rfl, rfl⟩⟩

/-- In particular a simulation appended to any history returns what it returns on a new object
    with the same stored heights at the same borehole height. -/
theorem simulate_after_any_history (K : Kernels) (ops : List GOp) (m : Method) (s : GSt) :
    (gstep K (.simulate m) (runG K ops s).2).1 = (gstep K (.simulate m) (resetS (runG K ops s).2)).1 :=
  (gstep_eqv K (.simulate m) _ _ (relS_reset _ _ ⟨rfl, ⟨rfl, rfl, rfl, rfl, rfl⟩⟩)).1

/-- The interpolation table left behind is always the one a new object would build for the last
    multi-curve lookup: `lookupCore` returns the pair (kind for the number of curves, fill mode of
    this height) whatever table it found. -/
theorem table_is_rebuilt (h0 h1 : Rat) (t : List Rat) (tb : Option (Kind × Fill)) (h : Rat) :
    (lookupCore (h0 :: h1 :: t) tb h).2 = some (kindOf (h0 :: h1 :: t).length, fillOf (h0 :: h1 :: t) h) := by
  simp only [lookupCore]
  split_ifs with hc <;> first | rfl | (rw [hc]; rfl)

/-! ### 3. Mutable default arguments -/

/-- **mutable_defaults_untouched.**  No API call writes the `keep_contour` default object. -/
theorem mutable_defaults_untouched (K : Kernels) (hist : List Op) (w : World) :
    (runOps K hist w).keepContour = w.keepContour :=
  runOps_keepContour K hist w

/-! ### 4. Shape of the source (regenerated on every check) -/

theorem source_shape_keep_contour :
    Gen.Api.keepContourDesign = [true, false] ∧ Gen.Api.keepContourDomains = [true, false] ∧ Gen.Api.keepContourStores = 0 := by
  decide

/-- Exactly the modelled statements write a borehole height: `initialize_ghe` of the two search
    families (`initGHE`), the initial guess, `local_objective` and the final assignment of `GHE.size`. -/
theorem source_shape_height_writers :
    Gen.Api.heightWriters =
      ["ground_heat_exchangers.py:GHE.size:self.bhe.b.H", "ground_heat_exchangers.py:GHE.size:self.bhe.b.H",
       "ground_heat_exchangers.py:GHE.size.local_objective:self.bhe.b.H",
       "search_routines.py:Bisection1D.initialize_ghe:self.ghe.bhe.b.H",
       "search_routines.py:RowWiseModifiedBisectionSearch.initialize_ghe:self.borehole.H"] := by
  decide

/-- The component objects captured by `set_design` (SimulationParameters, Pipe, Grout, Soil, fluid,
    geometric constraints, and the borehole apart from `H`) are never written: the only attribute
    writes on such objects are the five in `equivalent_single_u_tube` /
    `match_effective_borehole_resistance`, which act on the deep copies and the new `Pipe` created
    there.  This is why `Static`, `SimParams`, `Geom` are plain values in the model and
    `slots_after_history` holds; a write such as `self.sim_params.max_boreholes = …` inside a search
    (seeded change C13-w2m2) breaks this theorem. -/
theorem source_shape_components_readonly :
    Gen.Api.componentWriters =
      ["borehole_heat_exchangers.py:GHEDesignerBoreholeWithMultiplePipes.equivalent_single_u_tube:_borehole.r_b",
       "borehole_heat_exchangers.py:GHEDesignerBoreholeWithMultiplePipes.equivalent_single_u_tube:_borehole.r_b",
       "borehole_heat_exchangers.py:GHEDesignerBoreholeWithMultiplePipes.equivalent_single_u_tube.objective_pipe_conductivity:eq_single_u_tube.pipe.k",
       "borehole_heat_exchangers.py:GHEDesignerBoreholeWithMultiplePipes.match_effective_borehole_resistance:preliminary_new_single_u_tube.grout.k",
       "borehole_heat_exchangers.py:GHEDesignerBoreholeWithMultiplePipes.match_effective_borehole_resistance.objective_resistance:preliminary_new_single_u_tube.grout.k"] := by
  decide

/-- The package keeps no state outside its objects: no module-level dict/list/set, no `global`
    statement, no memoising decorator.  The model's `World` (managers + heap of boreholes + the
    `keep_contour` default) is therefore all the state a history can leave behind in a process; a
    module-level memo (seeded change C07-w2m1) breaks this theorem. -/
theorem source_shape_no_module_state : Gen.Api.moduleState = [] := by
  decide

/-- The setters that can refuse their input store only enum constants or freshly constructed
    objects, each in the accepting branch (`set_fluid`: inside the `try`, after the constructor
    returned): nothing is stored before the input has been accepted (`step`: the refusing branches
    return the world unchanged).  A lookup stored before the test (seeded change C13-w3m3) breaks this. -/
theorem source_shape_refusing_setters :
    Gen.Api.refusingSetterStores =
      [("set_design_geometry_type", ["self.geom_type=DesignGeomType.BIRECTANGLE", "self.geom_type=DesignGeomType.BIRECTANGLECONSTRAINED",
          "self.geom_type=DesignGeomType.BIZONEDRECTANGLE", "self.geom_type=DesignGeomType.NEARSQUARE",
          "self.geom_type=DesignGeomType.RECTANGLE", "self.geom_type=DesignGeomType.ROWWISE"]),
       ("set_pipe_type", ["self.pipe_type=BHPipeType.SINGLEUTUBE", "self.pipe_type=BHPipeType.DOUBLEUTUBEPARALLEL",
          "self.pipe_type=BHPipeType.DOUBLEUTUBESERIES", "self.pipe_type=BHPipeType.COAXIAL"]),
       ("set_fluid", ["self._fluid=GHEFluid(...) [try]"]),
       ("set_design", ["self._design=DesignNearSquare(...)", "self._design=DesignRectangle(...)", "self._design=DesignBiRectangle(...)",
          "self._design=DesignBiZoned(...)", "self._design=DesignBiRectangleConstrained(...)", "self._design=DesignRowWise(...)"])] := by
  decide

def snapshotArgs : List String :=
  ["flow_rate", "self._borehole", "self.pipe_type", "self._fluid", "self._pipe", "self._grout", "self._soil",
   "self._simulation_parameters", "self._geometric_constraints", "self._ground_loads", "flow_type=flow_type",
   "method=TimestepType.HYBRID"]

/-- `set_design` hands every Design* class the manager's *current* slot objects (`Snapshot`),
    `find_design` tests the nine slots of `Manager.ready` and then runs search,
    `compute_g_functions`, `size(HYBRID)` in this order (`designFrom`). -/
theorem source_shape_manager :
    Gen.Api.designCtorArgs =
      [("DesignNearSquare", snapshotArgs), ("DesignRectangle", snapshotArgs), ("DesignBiRectangle", snapshotArgs),
       ("DesignBiZoned", snapshotArgs), ("DesignBiRectangleConstrained", snapshotArgs), ("DesignRowWise", snapshotArgs)] ∧
    Gen.Api.findDesignRequired =
      ["self._fluid", "self._grout", "self._soil", "self._pipe", "self._borehole", "self._simulation_parameters",
       "self._ground_loads", "self._geometric_constraints", "self._design"] ∧
    Gen.Api.findDesignCalls =
      ["self._design.find_design()", "self._search.ghe.compute_g_functions()", "self._search.ghe.size(method=TimestepType.HYBRID)"] := by
  decide

/-- Each setter writes only its own slot (`Op`, `slotsStep`). -/
theorem source_shape_setters :
    Gen.Api.setterWrites =
      [("set_design_geometry_type", ["self.geom_type"]), ("set_pipe_type", ["self.pipe_type"]), ("set_fluid", ["self._fluid"]),
       ("set_grout", ["self._grout"]), ("set_soil", ["self._soil"]),
       ("set_single_u_tube_pipe", ["self.pipe_type", "self._pipe"]), ("set_double_u_tube_pipe_parallel", ["self.pipe_type", "self._pipe"]),
       ("set_double_u_tube_pipe_series", ["self.pipe_type", "self._pipe"]), ("set_coaxial_pipe", ["self.pipe_type", "self._pipe"]),
       ("set_borehole", ["self._borehole"]), ("set_simulation_parameters", ["self._simulation_parameters"]),
       ("set_ground_loads_from_hourly_list", ["self._ground_loads"]),
       ("set_geometry_constraints_near_square", ["self._geometric_constraints"]),
       ("set_geometry_constraints_rectangle", ["self.geom_type", "self._geometric_constraints"]),
       ("set_geometry_constraints_bi_rectangle", ["self.geom_type", "self._geometric_constraints"]),
       ("set_geometry_constraints_bi_zoned_rectangle", ["self.geom_type", "self._geometric_constraints"]),
       ("set_geometry_constraints_bi_rectangle_constrained", ["self.geom_type", "self._geometric_constraints"]),
       ("set_geometry_constraints_rowwise", ["self.geom_type", "self._geometric_constraints"]),
       ("set_design", ["self._design"])] := by
  decide

/-- `GHE.simulate` never tests `self.times` (the repaired finding F7: the guard
    `if len(self.times) == 0` is gone) and assigns it in both branches; `size` brackets the window;
    `compute_g_functions` uses `[min, avg, max]`. -/
theorem source_shape_ghe :
    Gen.Api.simulateTimesCompares = 0 ∧
    Gen.Api.simulateTimesStores = ["time_values", "np.arange(1, n_hours + 1, 1)"] ∧
    Gen.Api.simulateMethods = ["TimestepType.HYBRID", "TimestepType.HOURLY"] ∧
    Gen.Api.sizeSolveRootArgs = ["self.bhe.b.H", "local_objective", "lower=self.sim_params.min_height",
      "upper=self.sim_params.max_height", "abs_tol=1e-06", "rel_tol=1e-06", "max_iter=50"] ∧
    Gen.Api.cgfHeights = ["min_height", "avg_height", "max_height", "avg_height=(min_height + max_height) / 2.0"] := by
  decide

/-- `g_function_interpolation` (re)builds its table when it is empty *or was built for another
    (kind, fill mode)* (`lookupCore`); the hourly branch cuts the repeated loads at the horizon
    (`hourlyAxis`). -/
theorem source_shape_gfunction :
    Gen.Api.tableBuildTests =
      ["len(self.interpolation_table) == 0 or self.interpolation_table.get('built_for') != (kind, fill_value)"] ∧
    Gen.Api.simulateHourlyLoads =
      ["self.hybrid_load.load[2:] * 1000.0", "self.hourly_extraction_ground_loads", "(q_dot * n_years)[:n_hours]",
       "-1.0 * np.array(q_dot)"] := by
  decide

/-! ### 5. Witnesses: non-vacuity, the repaired finding, the boundary of `simulate_pure` -/

def st0 : Static :=
  { fluid := "water", pipe := "p", grout := "g", soil := "s", pipeType := "SINGLEUTUBE", loads := { tok := "atlanta", len := 8760 },
    sim := { months := 12, maxEft := 35, minEft := 5, maxH := 135, minH := 60, maxBh := none, cont := false },
    flow := 1 / 2, flowType := .borehole }

/-- A kernel whose temperatures depend on every argument the property cares about. -/
def K0 : Kernels :=
  { sim := fun a => (45 - a.h / 10 + (if a.method = .hourly then 1 / 100 else 0) + (a.hLoad - a.h) / 1000
                       + (match a.look.interp with | some (_, .extrapolate) => 1 | _ => 0), 10 + a.h / 100)
    buildOk := fun _ _ _ _ h => h ≠ 0
    gcalcOk := fun _ _ _ _ _ => true
    brent := fun lo hi => .ask ((lo + hi) / 2) (fun v => if v < 0 then .ret ((3 * lo + 5 * hi) / 8) else .ret ((lo + 3 * hi) / 4))
    strategy := fun _ => .ctor 0 (.eval 0 60 (fun a => .eval 0 135 (fun _ => .eval 5 135 (fun c =>
                  if a < 0 then .init 0 135 (.ret 0) else if 0 < c then .raise .valueError else .init 5 135 (.ret 5)))))
    fluidOk := fun _ => true
    geomOk := fun _ _ => true }

def g3 : GHE := { (mkGHE st0 7 135) with gf := { tok := "ubwt", heights := [60, 195 / 2, 135], table := none } }

/-- Finding F7 (repaired by d422d00), kept as a regression: an hourly simulation after a hybrid
    one on the same object returns what it returns on a new object. -/
example : (runG K0 [.simulate .hybrid, .simulate .hourly] { b := { H := 100, D := 2, rb := 7 / 100 }, g := g3 }).1 =
          specG K0 [.simulate .hybrid, .simulate .hourly] { b := { H := 100, D := 2, rb := 7 / 100 }, g := g3 } := by
  decide +kernel

/-- Non-vacuity of `simulate_pure`: a six-call history inside the window, results as on new objects
    and not errors. -/
example : (runG K0 [.simulate .hybrid, .setH 80, .simulate .hourly, .size .hybrid, .setH 120, .simulate .hybrid]
            { b := { H := 100, D := 2, rb := 7 / 100 }, g := g3 }).1 =
          [.temps (7007 / 200, 11), .unit, .temps (7413 / 200, 54 / 5),
           .temps (5343 / 160, 893 / 80), .unit, .temps (6603 / 200, 56 / 5)] := by
  decide +kernel

/-- Finding repaired by 5ab5ff6, kept as a regression: after a simulation inside the stored
    range, a simulation *above* it extrapolates exactly as a new object does (before the repair the
    used object raised `interp1d`'s bounds error); and the other direction (first call outside,
    later calls inside). -/
example :
    (runG K0 [.simulate .hybrid, .setH 150, .simulate .hybrid] { b := { H := 100, D := 2, rb := 7 / 100 }, g := g3 }).1 =
      [.temps (7007 / 200, 11), .unit, .temps (6197 / 200, 23 / 2)] ∧
    specG K0 [.simulate .hybrid, .setH 150, .simulate .hybrid] { b := { H := 100, D := 2, rb := 7 / 100 }, g := g3 } =
      [.temps (7007 / 200, 11), .unit, .temps (6197 / 200, 23 / 2)] ∧
    (runG K0 [.simulate .hybrid, .setH 100, .simulate .hybrid, .simulate .hourly] { b := { H := 150, D := 2, rb := 7 / 100 }, g := g3 }).1 =
      specG K0 [.simulate .hybrid, .setH 100, .simulate .hybrid, .simulate .hourly] { b := { H := 150, D := 2, rb := 7 / 100 }, g := g3 } := by
  decide +kernel

/-- A kernel that also sees which g-function table the object holds. -/
def K1 : Kernels := { K0 with sim := fun a => ((K0.sim a).1 + (if a.gtok = "calc" then 1 / 4 else 0), (K0.sim a).2) }

/-- Regression for a seeded change that cached the combined g-function by height only: simulate,
    replace the table (`compute_g_functions`, or assigning another table), simulate again at the
    *same* height — the second call sees the new table, exactly as a new object holding it does. -/
example :
    (runG K1 [.simulate .hybrid, .cgf, .simulate .hybrid, .setGF "ubwt" [60, 135], .simulate .hybrid]
        { b := { H := 100, D := 2, rb := 7 / 100 }, g := g3 }).1 =
      [.temps (7007 / 200, 11), .unit, .temps (7057 / 200, 11), .unit, .temps (7007 / 200, 11)] ∧
    specG K1 [.simulate .hybrid, .cgf, .simulate .hybrid, .setGF "ubwt" [60, 135], .simulate .hybrid]
        { b := { H := 100, D := 2, rb := 7 / 100 }, g := g3 } =
      [.temps (7007 / 200, 11), .unit, .temps (7057 / 200, 11), .unit, .temps (7007 / 200, 11)] := by
  decide +kernel

def hist0 : List Op :=
  [.newManager, .setFluid 0 "water", .setGrout 0 "g", .setSoil 0 "s", .setPipe 0 "SINGLEUTUBE" "p", .setBorehole 0 96 2 (14 / 100),
   .setSim 0 st0.sim, .setLoads 0 st0.loads, .setGeom 0 { kind := .nearSquare, tok := "ns" }]

/-- Another way to the same configuration: a second manager, setters permuted and repeated, an
    unrelated design found first on manager 0, nominal height 1 instead of 96. -/
def hist1 : List Op :=
  hist0 ++ [.setDesign 0 (1 / 2) .borehole, .findDesign 0, .newManager, .setGeom 1 { kind := .nearSquare, tok := "ns" },
    .setLoads 1 st0.loads, .setSoil 1 "x", .setBorehole 1 500 3 (2 / 10), .setSim 1 st0.sim, .setBorehole 1 1 2 (14 / 100), .setSoil 1 "s",
    .setPipe 1 "SINGLEUTUBE" "p", .setGrout 1 "g", .setFluid 1 "water"]

def cfg0 : Config := { st := st0, geom := { kind := .nearSquare, tok := "ns" }, D := 2, rb := 7 / 100, keepContour := [true, false] }

/-- Non-vacuity of `find_design_pure` / `find_design_history_independent`: both histories end in
    `cfg0`, the design succeeds, and both managers hold the same result. -/
example :
    (lastSlots K0 0 hist0 (0, {})).2.config? (1 / 2) .borehole [true, false] = some cfg0 ∧
    (lastSlots K0 1 hist1 (0, {})).2.config? (1 / 2) .borehole [true, false] = some cfg0 ∧
    (design K0 cfg0).toOption.map (fun r => (r.field, r.H)) = some (5, 465 / 4) ∧
    resultOf (runOps K0 (hist0 ++ [.setDesign 0 (1 / 2) .borehole, .findDesign 0]) {}) 0 = (design K0 cfg0).toOption ∧
    resultOf (runOps K0 (hist1 ++ [.setDesign 1 (1 / 2) .borehole, .findDesign 1]) {}) 1 = (design K0 cfg0).toOption := by
  decide +kernel

/-- A re-used manager: after a complete design only the loads and the geometry are set again
    (simulation parameters, borehole, pipe, fluid, grout, soil untouched); `set_design; find_design`
    gives the design of the final slots, as on a new manager (non-vacuity of `find_design_pure` for
    this history shape; a search that wrote into the shared SimulationParameters object would break it). -/
example :
    (lastSlots K0 0 (hist0 ++ [.setDesign 0 (1 / 2) .borehole, .findDesign 0, .setLoads 0 { tok := "big", len := 8760 },
        .setGeom 0 { kind := .nearSquare, tok := "large lot" }]) (0, {})).2.config? (1 / 2) .borehole [true, false] =
      some { cfg0 with st := { st0 with loads := { tok := "big", len := 8760 } }, geom := { kind := .nearSquare, tok := "large lot" } } ∧
    resultOf (runOps K0 (hist0 ++ [.setDesign 0 (1 / 2) .borehole, .findDesign 0, .setLoads 0 { tok := "big", len := 8760 },
        .setGeom 0 { kind := .nearSquare, tok := "large lot" }, .setDesign 0 (1 / 2) .borehole, .findDesign 0]) {}) 0 =
      (design K0 { cfg0 with st := { st0 with loads := { tok := "big", len := 8760 } }, geom := { kind := .nearSquare, tok := "large lot" } }).toOption := by
  decide +kernel

/-- Refused calls interleaved in a history (a misspelt pipe type after the pipe setter, an unknown
    geometry type, a flow type that is not implemented, `find_design` on a manager that is not
    ready) are all refused and the design found afterwards is the one found without them. -/
example :
    (step K0 (.setPipeType 0 none) (runOps K0 hist0 {})).1 = .error .valueError ∧
    (step K0 (.setDesign 0 (1 / 2) .other) (runOps K0 hist0 {})).1 = .error .valueError ∧
    (step K0 (.findDesign 0) (runOps K0 hist0 {})).1 = .error .valueError ∧
    resultOf (runOps K0 (hist0 ++ [.setPipeType 0 none, .setGeomType 0 none, .setDesign 0 (1 / 2) .other, .findDesign 0,
        .setDesign 0 (1 / 2) .borehole, .setPipeType 0 none, .findDesign 0]) {}) 0 =
      resultOf (runOps K0 (hist0 ++ [.setDesign 0 (1 / 2) .borehole, .findDesign 0]) {}) 0 ∧
    ((runOps K0 (hist0 ++ [.setPipeType 0 none, .setGeomType 0 none]) {}).mgrs[0]?).map (fun mg => (mg.pipeType, mg.geomType)) =
      some (some "SINGLEUTUBE", none) := by
  decide +kernel

/-- The search routine of `K0` is `Safe` from every non-zero height (and the hypothesis is needed:
    at nominal height 0 the constructor raises — real code: `ZeroDivisionError`, run). -/
example (h0 : Rat) (hne : h0 ≠ 0) : Safe (CtorOk K0 cfg0.st cfg0.D cfg0.rb h0) false (K0.strategy cfg0) := by
  refine Safe.ctorU _ _ (by simp [CtorOk, K0, hne]) (Safe.eval _ _ _ _ fun a => Safe.eval _ _ _ _ fun _ => Safe.eval _ _ _ _ fun c => ?_)
  split_ifs
  · exact Safe.init _ _ _ _ (Safe.ret _)
  · exact Safe.raise _ _
  · exact Safe.init _ _ _ _ (Safe.ret _)

example : (step K0 (.findDesign 0) (step K0 (.setDesign 0 (1 / 2) .borehole)
            (runOps K0 (hist0 ++ [.setBorehole 0 0 2 (14 / 100)]) {})).2).1 = .error .other := by
  decide +kernel

/-- A component setter *after* `set_design` is ignored by `find_design` (the design keeps the
    objects it captured): outside the documented call order, excluded by the shape of
    `find_design_pure` (`set_design` immediately before `find_design`). -/
example :
    resultOf (runOps K0 (hist0 ++ [.setDesign 0 (1 / 2) .borehole, .setSoil 0 "other", .findDesign 0]) {}) 0 =
    resultOf (runOps K0 (hist0 ++ [.setDesign 0 (1 / 2) .borehole, .findDesign 0]) {}) 0 := by
  decide +kernel

end GHEVerif.C13
