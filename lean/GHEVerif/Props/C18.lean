/-
  C18 — Command-line exit status and validation verdict reflect the outcome.

  Property theorems only.  `Gen.cliPaths` (every path through `run_manager_from_cli`),
  `Gen.cliParams`, `Gen.validators` (which validator runs on which section, what it upper-cases,
  which schema it applies), `Gen.worker` and the schemas are regenerated from /repo on every
  check; `Cli.run` / `Config.validateInputFile` / `Config.worker` interpret them.

  Quantifiers: every invocation the click parser can hand to the callback (`--validate-only`
  on/off, any `--convert` value or none, output directory given or not), every input file
  content (any JSON value, or not JSON at all), every outcome of the design run (each of its
  three steps may raise).
-/
import GHEVerif.Lemmas.Config
import GHEVerif.Props.C17

namespace GHEVerif.C18
open GHEVerif GHEVerif.Config GHEVerif.Gen GHEVerif.Cli

/-- The callback ends every path with `exit(0)`, `exit(1)` or `exit(<worker status>)`: no path
    `return`s a status or falls off the end (click would discard it and exit 0 — finding F2). -/
theorem every_path_exits_with_its_status :
    Gen.cliPaths.all (fun p => p.exit = "0" || p.exit = "1" || isWorkerCall p.exit) = true := by
  decide

/-- `validate_input_file` runs one validator on the whole file and one on each of the nine
    sections the file-structure schema requires — `loads` included (finding F2, third part). -/
theorem validators_cover_all_sections :
    Gen.validators.map (·.sect) =
      ["", "fluid", "grout", "soil", "pipe", "borehole", "simulation", "geometric_constraints", "design", "loads"] ∧
    Gen.fileStructureSchema.required.filter (· ≠ "version") = (Gen.validators.map (·.sect)).filter (· ≠ "") := by
  decide

/-- `exit_zero_iff_success`: the process exits 0 exactly when
    (a) `--validate-only` and the file is valid, or
    (b) `--convert IDF` and the conversion did not raise, or
    (c) neither flag, an output directory, and the worker returned 0 — which it does only after
        `write_output_files` ran with no step of the design run raising. -/
theorem exit_zero_iff_success (vo : Bool) (cv : Option String) (od : Bool) (w : World) :
    processExit (.call vo cv od) w = 0 ↔
      (vo = true ∧ validateFile w = .ok 0) ∨
      (vo = false ∧ cv = some "IDF" ∧ w.idfRaises = false) ∨
      (vo = false ∧ convertTruthy cv = false ∧ od = true ∧
        ∃ s, workerFile w = .ok (0, s) ∧ s.ran.contains "write_output_files" = true) := by
  rw [callback_exit_zero_iff]
  constructor
  · rintro (h | h | ⟨h1, h2, h3, s, hs⟩)
    · exact Or.inl h
    · exact Or.inr (Or.inl h)
    · exact Or.inr (Or.inr ⟨h1, h2, h3, s, hs, workerFile_zero_outputs w s hs⟩)
  · rintro (h | h | ⟨h1, h2, h3, s, hs, _⟩)
    · exact Or.inl h
    · exact Or.inr (Or.inl h)
    · exact Or.inr (Or.inr ⟨h1, h2, h3, s, hs⟩)

/-- A design run that exits 0 has validated its input, run all three steps without an exception
    and written the output files. -/
theorem run_exit_zero_means_outputs (cv : Option String) (od : Bool) (w : World) (hc : convertTruthy cv = false)
    (h : processExit (.call false cv od) w = 0) :
    validateFile w = .ok 0 ∧ od = true ∧ w.raisesAt "find_design" = false ∧ w.raisesAt "prepare_results" = false ∧
      w.raisesAt "write_output_files" = false := by
  rw [callback_exit_zero_iff] at h
  rcases h with h | h | ⟨_, _, h3, s, hs⟩
  · cases h.1
  · have := h.2.1; subst this; simp [convertTruthy] at hc
  · refine ⟨workerFile_zero_valid w s hs, h3, ?_⟩
    unfold workerFile onFile at hs
    cases hf : w.file with
    | none => simp [hf] at hs
    | some j => simp [hf] at hs; exact (worker_zero_outputs _ _ _ _ hs).2

/-- `invalid_nonzero`: an input that does not validate (error count ≠ 0, an exception, or not
    JSON) gives a non-zero exit status, with or without `--validate-only`, with or without an
    output directory (only `--convert`, which does not read an input file, is exempt). -/
theorem invalid_nonzero (vo : Bool) (cv : Option String) (od : Bool) (w : World) (hbad : validateFile w ≠ .ok 0)
    (hc : vo = true ∨ convertTruthy cv = false) : processExit (.call vo cv od) w ≠ 0 := by
  intro h
  rw [callback_exit_zero_iff] at h
  rcases h with h | h | ⟨_, _, _, s, hs⟩
  · exact hbad h.2
  · rcases hc with hc | hc
    · rw [h.1] at hc; cases hc
    · have := h.2.1; subst this; simp [convertTruthy] at hc
  · exact hbad (workerFile_zero_valid w s hs)

/-- `unsupported_option_nonzero`: an unsupported conversion format, a missing output directory and
    a usage error (unknown option, missing or non-existent input path) all exit non-zero. -/
theorem unsupported_option_nonzero (c : String) (od : Bool) (w : World) (h0 : c ≠ "") (hi : c ≠ "IDF") :
    processExit (.call false (some c) od) w = 1 ∧ processExit (.call false none false) w = 1 ∧
    processExit .usageError w = 2 := by
  refine ⟨?_, ?_, rfl⟩
  · cli_simp [h0, hi]
  · cli_simp

/-- `verdict_iff_all_sections`: `validate_input_file` returns 0 exactly when every section is
    present and its validator returns 0 (no exception, no error). -/
theorem verdict_iff_all_sections (j : Json) :
    validateInputFile j = .ok 0 ↔ ∀ v ∈ Gen.validators, ∃ a, sectionArg j v = .ok a ∧ runValidator v a = .ok 0 :=
  validateFrom_zero_iff j Gen.validators

/-- `verdict_case_insensitive`: the verdict of a section does not depend on the letter case of its
    name field — and the five such fields are the ones the property lists. -/
theorem verdict_case_insensitive :
    (Gen.validators.filter (fun v => v.upperKey ≠ "")).map (fun v => (v.sect, v.upperKey)) =
      [("fluid", "fluid_name"), ("pipe", "arrangement"), ("simulation", "timestep"),
       ("geometric_constraints", "method"), ("design", "flow_type")] ∧
    ∀ v ∈ Gen.validators, v.upperKey ≠ "" → ∀ (kv : Dict) (s s' : String), upper s = upper s' →
      runValidator v (.obj (dictSet kv v.upperKey (.str s))) = runValidator v (.obj (dictSet kv v.upperKey (.str s'))) := by
  refine ⟨by decide, ?_⟩
  intro v _ hk kv s s' h
  exact runValidator_case v kv s s' hk h

/-! ### Non-vacuity and the four witnesses of finding F2 -/

/-- A file with no sections: `validate_input_file` raises `KeyError` (after reporting the structure error). -/
def emptyFile : World := ⟨some (.obj []), fun _ => false, false⟩

example : validateFile emptyFile = .error .keyError := by
  simp [validateFile, onFile, emptyFile, validateInputFile, Gen.validators, validateFrom, pyGetItem, List.lookup]
  v_simp

/-- F2 witnesses, now all non-zero: invalid file with an output directory; `--validate-only` on an
    invalid file; no output directory; `--convert XYZ`. -/
example : processExit (.call false none true) emptyFile ≠ 0 :=
  invalid_nonzero false none true emptyFile (by simp [validateFile, onFile, emptyFile, validateInputFile, Gen.validators, validateFrom, pyGetItem, List.lookup]; v_simp) (Or.inr rfl)
example : processExit (.call true none false) emptyFile ≠ 0 :=
  invalid_nonzero true none false emptyFile (by simp [validateFile, onFile, emptyFile, validateInputFile, Gen.validators, validateFrom, pyGetItem, List.lookup]; v_simp) (Or.inl rfl)
example (w : World) : processExit (.call false none false) w = 1 := (unsupported_option_nonzero "XYZ" false w (by decide) (by decide)).2.1
example (w : World) : processExit (.call false (some "XYZ") true) w = 1 := (unsupported_option_nonzero "XYZ" true w (by decide) (by decide)).1

/-- F2, third part: 100 hourly loads are rejected by the loads validator. -/
example : runValidator (specOf "validate_loads") (.obj [("ground_loads", .arr (List.replicate 100 (.num 0)))]) = .ok 1 := by
  v_simp [specOf, Gen.validators]

/-- Exit 0 is reachable on each of the three routes (so `exit_zero_iff_success` is not vacuous):
    the file written for the C17 witness is valid; the design run succeeds when no step raises. -/
example : ∃ w, processExit (.call true none false) w = 0 ∧ processExit (.call false none true) w = 0 ∧
    processExit (.call false (some "IDF") false) w = 0 := by
  have hv : ApiValid C17.rowWiseWitness := C17.rowWiseWitness_valid
  have hs := stateValid_of_api exactArith exactArith_exact _ hv .water .borehole
  have hval := validate_inputOf exactArith _ hs
  obtain ⟨env', hw⟩ := worker_inputOf exactArith (partsOf exactArith C17.rowWiseWitness .water .borehole) hs.pipeOk
    (geomShape_of_api exactArith _ hv) hval
  generalize inputOf exactArith (partsOf exactArith C17.rowWiseWitness .water .borehole) = J at hval hw
  refine ⟨⟨some J, fun _ => false, false⟩, ?_, ?_, ?_⟩
  · exact (exit_zero_iff_success _ _ _ _).2 (Or.inl ⟨rfl, hval⟩)
  · exact (exit_zero_iff_success _ _ _ _).2 (Or.inr (Or.inr ⟨rfl, rfl, rfl, _, hw, by show ranAll.contains "write_output_files" = true; decide⟩))
  · exact (exit_zero_iff_success _ _ _ _).2 (Or.inr (Or.inl ⟨rfl, rfl, rfl⟩))

end GHEVerif.C18
