/-
  C17 — Input files written by the tool are schema-valid and round-trip.

  Property theorems only.  Everything named `Gen.…` (schemas, `to_input()` rows, the
  `write_input_file` program, the worker's operations, setter signatures, enum members) is
  regenerated from /repo on every check; the model functions `build`, `toInput`,
  `validateInputFile`, `load` (Model/Config.lean) interpret those tables, so the theorems are
  re-proved against what the sources say now.

  The quantifier: every API configuration `c` in the documented domain (`ApiValid`): any of the
  six geometry methods (RowWise with or without a perimeter ratio), four pipe arrangements, five
  fluids in any letter case, cap and continue flag present or absent, all numbers arbitrary
  rationals in range, any 8760 loads, any polygons.  `A : Arith` are the float operations
  `x/2`, `x*2`, degrees→radians; `A.Exact` (halving then doubling is the identity, and back) is
  the only arithmetic fact used, and nothing at all is assumed about degrees→radians — which is
  finding F3(b) repaired: the written rotations are the degrees the user gave.
-/
import GHEVerif.Lemmas.Config

namespace GHEVerif.C17
open GHEVerif GHEVerif.Config GHEVerif.Gen

/-- The model's enum names are the members of enums.py. -/
theorem enum_names_tied :
    FluidType.all.map FluidType.name = Gen.enum_FluidType ∧ PipeType.all.map PipeType.name = Gen.enum_BHPipeType ∧
    GeomType.all.map GeomType.name = Gen.enum_DesignGeomType ∧ FlowCfg.all.map FlowCfg.name = Gen.enum_FlowConfigType := by
  decide

/-- The setters accept every configuration of the documented domain. -/
theorem api_accepts (A : Arith) (c : Config) (h : ApiValid c) : ∃ m, build A c = .ok m := by
  obtain ⟨ft, hf⟩ := h.fluid
  obtain ⟨fl, hfl⟩ := h.flowType
  exact ⟨_, build_eq A c ft fl hf hfl h.shape⟩

/-- `written_valid`: the file written for an accepted configuration passes `validate_input_file`
    (all ten validators, error count 0, no exception), and it is written with sorted keys. -/
theorem written_valid (A : Arith) (hA : A.Exact) (c : Config) (h : ApiValid c) :
    ∃ m j, build A c = .ok m ∧ writeInputFile A m = .ok ⟨some j, true, 2, 0⟩ ∧ toInput A m = .ok j ∧
      validateInputFile j = .ok 0 := by
  obtain ⟨ft, hf⟩ := h.fluid
  obtain ⟨fl, hfl⟩ := h.flowType
  have hv := stateValid_of_api A hA c h ft fl
  exact ⟨_, _, build_eq A c ft fl hf hfl h.shape, writeInputFile_eq A _ true hv.pipeOk, toInput_eq A _ hv.pipeOk,
    validate_inputOf A _ hv⟩

/-- `load_toInput`: the command-line loading path, run on the written file, reaches `find_design`
    with return path 0 and with exactly the configuration that was written, up to `normalise`
    (nominal borehole height := maximum height; `geom_type` recorded). -/
theorem load_toInput (A : Arith) (hA : A.Exact) (c : Config) (h : ApiValid c) :
    ∃ m j, build A c = .ok m ∧ toInput A m = .ok j ∧ load A j = .ok (some (normalise m)) := by
  obtain ⟨ft, hf⟩ := h.fluid
  obtain ⟨fl, hfl⟩ := h.flowType
  have hv := stateValid_of_api A hA c h ft fl
  have hb := build_eq A c ft fl hf hfl h.shape
  obtain ⟨env', hw⟩ := worker_inputOf A (partsOf A c ft fl) hv.pipeOk (geomShape_of_api A c h) (validate_inputOf A _ hv)
  refine ⟨_, _, hb, toInput_eq A _ hv.pipeOk, ?_⟩
  unfold load
  rw [hw]
  simp only
  congr 2
  cases hp : c.pipe <;> cases hg : c.geom <;>
    simp [reloaded, normalise, partsOf, Parts.mgr, rePipe, reGeom, pipeGeomOf, geomOf, geomTypeOf, PipeArgs.rough, PipeArgs.rhoCp,
      PipeArgs.ptype, Geom.type, hA.half_dbl, hp, hg]

/-- `toInput_fixpoint`: what `normalise` forgets is not in the file.  No assumption on the float
    operations: in particular none on degrees→radians→degrees (finding F3(b), repaired). -/
theorem toInput_fixpoint (A : Arith) (c : Config) (h : ApiValid c) :
    ∃ m, build A c = .ok m ∧ toInput A (normalise m) = toInput A m := by
  obtain ⟨ft, hf⟩ := h.fluid
  obtain ⟨fl, hfl⟩ := h.flowType
  refine ⟨_, build_eq A c ft fl hf hfl h.shape, ?_⟩
  have hp : PipeOk (partsOf A c ft fl).pg (partsOf A c ft fl).pt := by
    cases hc : c.pipe <;> simp [partsOf, pipeGeomOf, PipeArgs.ptype, PipeOk, hc]
  let x' : Parts := { partsOf A c ft fl with b := ⟨c.maxHeight, c.buriedDepth, A.half c.diameter⟩, gt := some (geomOf A c.geom).type }
  have e : normalise (partsOf A c ft fl).mgr = x'.mgr := by
    simp [x', normalise, partsOf, Parts.mgr]
  rw [e, toInput_eq A (partsOf A c ft fl) hp]
  exact toInput_eq A x' hp

/-- write ∘ load ∘ write = write: the reloaded manager writes the same JSON value again. -/
theorem write_load_write (A : Arith) (hA : A.Exact) (c : Config) (h : ApiValid c) :
    ∃ m j m', build A c = .ok m ∧ toInput A m = .ok j ∧ load A j = .ok (some m') ∧ toInput A m' = .ok j := by
  obtain ⟨m, j, hb, hj, hl⟩ := load_toInput A hA c h
  obtain ⟨m2, hb2, hfix⟩ := toInput_fixpoint A c h
  rw [hb] at hb2
  cases hb2
  exact ⟨m, j, _, hb, hj, hl, hfix.trans hj⟩

/-- `keys_read ⊆ keys_written`, per variant, on the generated tables: every key the loader
    subscripts (a missing one is a `KeyError`) is written unconditionally by the writer for the
    same geometry method / pipe arrangement / section; the `**section` calls receive only
    parameters of their setter and all required ones. -/
theorem keys_read_subset_written :
    geomKeysOk = true ∧ pipeKeysOk = true ∧ fixedKeysOk = true ∧
    splatOk "set_fluid" "GHEFluid" = true ∧ splatOk "set_grout" "Grout" = true ∧ splatOk "set_soil" "Soil" = true := by
  decide

/-! ### Non-vacuity and regression witnesses -/

def witnessLoads : List Rat := List.replicate 8760 1000

/-- A RowWise configuration without a perimeter ratio and with the rotation limits −60°/60° —
    the witness of findings F3(a) and F3(b) — on a triangular lot with one no-go zone. -/
def rowWiseWitness : Config :=
  { fluidName := "Water", percent := 0, temperature := 20, groutK := 1, groutRhoCp := 3901000, soilK := 2, soilRhoCp := 2343493,
    soilT := 183 / 10, pipe := .single (3404 / 100000) (4216 / 100000) (1856 / 100000) (1 / 1000000) (4 / 10) 1542000,
    nominalHeight := 96, buriedDepth := 2, diameter := 14 / 100, numMonths := 240, maxEft := 35, minEft := 5,
    maxHeight := 135, minHeight := 60, maxBoreholes := none, cont := false, loads := witnessLoads,
    geom := .rowWise none 10 5 (1 / 10) 60 (-60) (1 / 2) [[0, 0], [50, 0], [0, 40]] [[[10, 10], [12, 10], [10, 12]]],
    flowRate := 1 / 2, flowType := "borehole" }

theorem rowWiseWitness_valid : ApiValid rowWiseWitness where
  fluid := ⟨.water, by decide⟩
  flowType := ⟨.borehole, by decide⟩
  percent0 := by show (0 : Rat) ≤ 0; norm_num
  percent60 := by show (0 : Rat) ≤ 60; norm_num
  groutK := by show (0 : Rat) ≤ 1; norm_num
  groutRc := by show (0 : Rat) ≤ 3901000; norm_num
  soilK := by show (0 : Rat) ≤ 2; norm_num
  soilRc := by show (0 : Rat) ≤ 2343493; norm_num
  pipe := by
    show (0 : Rat) ≤ 3404 / 100000 ∧ (0 : Rat) ≤ 4216 / 100000 ∧ (0 : Rat) ≤ 1856 / 100000 ∧ (0 : Rat) ≤ 1 / 1000000 ∧
      (0 : Rat) ≤ 4 / 10 ∧ (0 : Rat) ≤ 1542000
    norm_num
  depth := by show (0 : Rat) ≤ 2; norm_num
  months := by show (1 : Rat) ≤ 240; norm_num
  maxH := by show (0 : Rat) ≤ 135; norm_num
  minH := by show (0 : Rat) ≤ 60; norm_num
  geom := by
    show (∀ r, (none : Option Rat) = some r → 0 ≤ r) ∧ (0 : Rat) ≤ 10 ∧ (0 : Rat) ≤ 5 ∧ (0 : Rat) ≤ 1 / 10 ∧ (-90 : Rat) ≤ 60 ∧
      (60 : Rat) ≤ 90 ∧ (-90 : Rat) ≤ -60 ∧ (-60 : Rat) ≤ 90 ∧ PolyOk [[0, 0], [50, 0], [0, 40]] ∧ PolysOk [[[10, 10], [12, 10], [10, 12]]]
    simp [PolyOk, PolysOk, PointOk]
    norm_num
  flow := by show (0 : Rat) ≤ 1 / 2; norm_num
  loads := by show (List.replicate 8760 (1000 : Rat)).length = 8760; exact List.length_replicate ..

/-- Non-vacuity of `written_valid`, `load_toInput`, `toInput_fixpoint`, `write_load_write`:
    the hypotheses are satisfiable (exact arithmetic, the witness configuration). -/
example : ∃ m j m', build exactArith rowWiseWitness = .ok m ∧ toInput exactArith m = .ok j ∧ validateInputFile j = .ok 0 ∧
    load exactArith j = .ok (some m') ∧ toInput exactArith m' = .ok j := by
  obtain ⟨m, j, m', h1, h2, h3, h4⟩ := write_load_write exactArith exactArith_exact rowWiseWitness rowWiseWitness_valid
  obtain ⟨m2, j2, g1, _, g2, g3⟩ := written_valid exactArith exactArith_exact rowWiseWitness rowWiseWitness_valid
  rw [h1] at g1; cases g1
  rw [h2] at g2; cases g2
  exact ⟨m, j, m', h1, h2, g3, h3, h4⟩

/-- Regression, F3(b): whatever degrees→radians does, the written rotation limits of the witness
    are the degrees given (−60, not −59.99999999999999). -/
example (A : Arith) : ∃ m j g, build A rowWiseWitness = .ok m ∧ toInput A m = .ok j ∧
    pyGetItem j "geometric_constraints" = .ok g ∧ pyGetItem g "min_rotation" = .ok (.num (-60)) ∧
    pyGetItem g "max_rotation" = .ok (.num 60) := by
  have hp : PipeOk (partsOf A rowWiseWitness .water .borehole).pg (partsOf A rowWiseWitness .water .borehole).pt := by
    simp [partsOf, rowWiseWitness, pipeGeomOf, PipeArgs.ptype, PipeOk, -one_div]
  refine ⟨_, _, .obj (geoJ (partsOf A rowWiseWitness .water .borehole).g (partsOf A rowWiseWitness .water .borehole).p), build_eq A rowWiseWitness .water .borehole (by decide) (by decide) trivial,
    toInput_eq A _ hp, ?_, ?_, ?_⟩ <;>
    simp [inputOf, fileOf, pyGetItem, List.lookup, geoJ, geomRows, partsOf, rowWiseWitness, geomOf, -one_div]

/-- Regression, F3(a): the witness is written without the `perimeter_spacing_ratio` key … -/
example (A : Arith) : ∃ m j g, build A rowWiseWitness = .ok m ∧ toInput A m = .ok j ∧
    pyGetItem j "geometric_constraints" = .ok g ∧ pyContains g "perimeter_spacing_ratio" = .ok false := by
  have hp : PipeOk (partsOf A rowWiseWitness .water .borehole).pg (partsOf A rowWiseWitness .water .borehole).pt := by
    simp [partsOf, rowWiseWitness, pipeGeomOf, PipeArgs.ptype, PipeOk, -one_div]
  refine ⟨_, _, .obj (geoJ (partsOf A rowWiseWitness .water .borehole).g (partsOf A rowWiseWitness .water .borehole).p), build_eq A rowWiseWitness .water .borehole (by decide) (by decide) trivial,
    toInput_eq A _ hp, ?_, ?_⟩ <;>
    simp [inputOf, fileOf, pyGetItem, pyContains, List.lookup, geoJ, geomRows, partsOf, rowWiseWitness, geomOf, -one_div]

/-- … while the form written before the repair (`"perimeter_spacing_ratio": null`) is rejected by
    the RowWise schema as it is now: one error. -/
example : runValidator (specOf "validate_geometric")
    (.obj [("method", .str "ROWWISE"), ("perimeter_spacing_ratio", .null), ("min_spacing", .num 5), ("max_spacing", .num 10),
           ("spacing_step", .num (1 / 10)), ("min_rotation", .num (-60)), ("max_rotation", .num 60), ("rotate_step", .num (1 / 2)),
           ("property_boundary", .arr []), ("no_go_boundaries", .arr []), ("max_height", .num 135), ("min_height", .num 60)]) = .ok 1 := by
  v_simp [specOf, Gen.validators]


end GHEVerif.C17
