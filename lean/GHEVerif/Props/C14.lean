/-
  C14 — RowWise on convex lots terminates, stays inside, keeps spacing, fills the lot; the sweep
  returns the densest tried rotation; translating the lot translates the field.

  Property theorems only, about the executable model GHEVerif/Model/RowWise.lean (outline without
  no-go zones and without perimeter spacing; the rotation is an exact pair `(c, s)` with
  `c² + s² = 1`).  Helper lemmas: GHEVerif/Lemmas/RowWise.lean.  Tolerances and factors are the
  `Gen.RowWise` constants regenerated from rowwise.py / shape.py on every check
  (`constants_as_modelled` breaks when one of them changes).

  Quantifiers: every theorem below holds for ALL outlines (any vertex list, convex or not, any
  orientation, any coordinates unless a hypothesis says otherwise), all spacings and all exact
  rotations.  Hypotheses that are not in the property text are decidable and measured by the harness:
  `RowsSimple` (inside theorem) holds on every compared convex outline.
-/
import GHEVerif.Lemmas.RowWise

namespace GHEVerif.C14
open GHEVerif GHEVerif.RowWise

/-- The constants and structural facts of the source the model and the theorems rely on. -/
theorem constants_as_modelled :
    Gen.RowWise.distributeTol = 1 / 100000000 ∧ Gen.RowWise.dupFactor = 1 / 10 ∧
    Gen.RowWise.sweepDupFactor = 6 / 5 ∧ Gen.RowWise.pointShift = 1000 ∧ Gen.RowWise.farShift = 10 ∧
    Gen.RowWise.farStep = 1 ∧ Gen.RowWise.lineIntersectTol = 1 / 1000000 ∧ Gen.RowWise.genDefaultTol = 1 / 1000000 ∧
    Gen.RowWise.foptDefaultTol = 1 / 100000 ∧ Gen.RowWise.sweepStartDeg = -90 ∧
    Gen.RowWise.sweepKeepsStrictlyLarger = true ∧ Gen.RowWise.sortKeyIsProjection = true ∧
    (Gen.RowWise.verticalRowRatio = 0 ∨ Gen.RowWise.verticalRowRatio = 1 / 1000000000000) := by
  decide +kernel

/-- The model's `rowDist` (used where the code takes `sqrt` of a squared distance between two points of
    one row) is the Euclidean distance: its square is `sum_sq_dist`. -/
theorem rowDist_is_euclidean (c s : Rat) (h : c * c + s * s = 1) (p : Pt) (t : Rat) :
    rowDist c s p (along c s p t) * rowDist c s p (along c s p t) = sqDist p (along c s p t) ∧
    0 ≤ rowDist c s p (along c s p t) :=
  ⟨rowDist_sq c s h p t, rowDist_nonneg c s _ _⟩

/-! ### termination (F14 repaired: full theorem) -/

/-- **Generation terminates.**  For every outline, spacing `> 0`, tolerance `≥ 0` and exact rotation,
    `gen_borehole_config` never enters the unbounded `distribute` loop without leaving it
    (`.error .other` is the model's "does not return").  Rests on: every intersection lies on the row,
    `sort_intersections` orders them by the projection on the row direction, hence `distribute` is
    always called with its end point ahead of its start point (or less than one spacing behind it:
    offset rule), and then `n + 1` passes suffice. -/
theorem gen_terminates (poly : List Pt) (ySpace xSpace c s tol : Rat) (h : c * c + s * s = 1)
    (hband : NoBand c s) (hs : 0 < xSpace) (htol : 0 ≤ tol) :
    genBoreholeConfig poly ySpace xSpace c s tol ≠ .error .other :=
  genBoreholeConfig_nodiv poly ySpace xSpace c s tol h hband hs htol

/-- `NoBand c s` (`c = 0 ∨ K·|s| < |c|`, `K = Gen.RowWise.verticalRowRatio`) excludes only exact rotations whose
    rows the code declares vertical although they are not: with the source test `row_space[1] == 0` (`K = 0`) it
    holds for every rotation; with `K = 1e-12` it holds for 0°, ±90° and every rotation at least 1e-12 rad from ±90°. -/
theorem noBand_of_ratio_zero (c s : Rat) (hK : Gen.RowWise.verticalRowRatio = 0) : NoBand c s := by
  unfold NoBand
  rw [hK, zero_mul]
  by_cases hc : c = 0
  · exact Or.inl hc
  · exact Or.inr (abs_pos.mpr hc)

theorem noBand_of_far (c s : Rat) (h : c * c + s * s = 1) (hc : 1 / 1000000 ≤ |c|) : NoBand c s := by
  right
  have hK : Gen.RowWise.verticalRowRatio ≤ 1 / 1000000000000 := by
    rcases (constants_as_modelled).2.2.2.2.2.2.2.2.2.2.2.2 with h0 | h0 <;> rw [h0] <;> norm_num
  have hs1 : |s| ≤ 1 := by
    rw [abs_le]; constructor <;> nlinarith [sq_nonneg c, sq_nonneg (s - 1), sq_nonneg (s + 1)]
  have hK0 := verticalRowRatio_nonneg
  nlinarith [abs_nonneg s]

/-- … and so does the rotation sweep over any list of exact rotations. -/
theorem sweep_terminates (poly : List Pt) (space tol : Rat) (hs : 0 < space) (htol : 0 ≤ tol)
    (rots : List (Rat × Rat)) (hrots : ∀ r ∈ rots, r.1 * r.1 + r.2 * r.2 = 1 ∧ NoBand r.1 r.2) :
    fieldOptimizationFr poly space tol rots ≠ .error .other := by
  unfold fieldOptimizationFr
  have key : ∀ (rs : List (Rat × Rat)) (i : Nat) (best : Nat × Option (Nat × List Pt)), (∀ r ∈ rs, r.1 * r.1 + r.2 * r.2 = 1 ∧ NoBand r.1 r.2) →
      sweepLoop (fun r => genBoreholeConfig poly space space r.1 r.2 tol) rs i best ≠ .error .other := by
    intro rs
    induction rs with
    | nil => intro i best _; simp [sweepLoop]
    | cons r rs ih =>
      intro i best hr
      unfold sweepLoop
      have h1 := gen_terminates poly space space r.1 r.2 tol (hr r (by simp)).1 (hr r (by simp)).2 hs htol
      cases hg : genBoreholeConfig poly space space r.1 r.2 tol with
      | error e => rw [hg] at h1; simpa using h1
      | ok hole => exact ih _ _ (fun x hx => hr x (List.mem_cons_of_mem _ hx))
  have := key rots 0 (0, none) hrots
  cases hsw : sweepLoop (fun r => genBoreholeConfig poly space space r.1 r.2 tol) rots 0 (0, none) with
  | error e => rw [hsw] at this; simpa using this
  | ok res =>
    obtain ⟨n, b⟩ := res
    cases b with
    | none => simp
    | some ih => simp

/-- Regression witnesses of finding F14 (lots with an edge on the y-axis / a corner at the origin, rows at
    -90°): the model returns fields, as the repaired code does. -/
example : (genBoreholeConfig [(0, 0), (60, 0), (60, 30), (0, 30)] 7 7 0 (-1) (1 / 100000)).toOption.map List.length = some 45 := by
  decide +kernel
example : (genBoreholeConfig [(0, 0), (50, 0), (0, 40)] 7 7 0 (-1) (1 / 100000)).toOption.map List.length = some 27 := by
  decide +kernel
/-- Witness of finding `spacing-rot-minus90-on-vertical-edge` in the model: at the exact rotation -90° the
    31 × 108 rectangle with 16.541 m target spacing gets the 2 × 7 lattice, rows on its vertical edges (what the
    code returns once a negligible cosine makes a vertical row; with `row_space[1] == 0` the float code has
    cos = 6e-17 there and returns boreholes 2 m apart). -/
example : (genBoreholeConfig [(77 / 2, 0), (77 / 2, 108), (15 / 2, 108), (15 / 2, 0)] (16541 / 1000) (16541 / 1000) 0 (-1)
    (1 / 100000)).toOption.map List.length = some 14 ∧ NoBand 0 (-1) :=
  ⟨by decide +kernel, Or.inl rfl⟩

/-- The F14 mechanism in the model: with the end points of a row in the reversed order (what the former
    polar sort key produced for an intersection at x = -1e-15) `distribute` never returns. -/
example : distribute 0 (-1) 7 (0, 0) (0, 30) [] = .error .other := by decide +kernel
example : distribute 0 (-1) 7 (0, 30) (0, 0) [] = .ok [(0, 0), (0, 15 / 2), (0, 15), (0, 45 / 2), (0, 30)] := by decide +kernel

/-! ### distribute: count, equal steps ≥ spacing, end points -/

/-- **`distribute`** between a start point and an end point `dx ≥ spacing` ahead on the row adds exactly
    the `n + 1` points `x1 + i·(dx/n)·(cos, sin)`, `i = 0 … n`, `n = ⌊dx/spacing⌋`: the first is the start
    point, the last is the end point, the common step `dx/n` is at least the spacing, and any two of the
    points are at least the spacing apart. -/
theorem distribute_count_spacing (c s spacing : Rat) (h : c * c + s * s = 1) (hs : 0 < spacing)
    (htol : Gen.RowWise.distributeTol ≤ spacing) (x1 : Pt) (dx : Rat) (hdx : spacing ≤ dx)
    (acc : List Pt) (hacc : acc.head? ≠ some x1) :
    let n := (dx / spacing).floor.toNat
    let step := dx / ((dx / spacing).floor : Rat)
    let pts := (List.range (n + 1)).map (fun i : Nat => along c s x1 ((i : Rat) * step))
    distribute c s spacing x1 (along c s x1 dx) acc = .ok (pts.reverse ++ acc) ∧
      pts.length = n + 1 ∧ 1 ≤ n ∧ spacing ≤ step ∧
      pts.head? = some x1 ∧ pts.getLast? = some (along c s x1 dx) ∧
      ∀ i j : Nat, i < j → j ≤ n →
        spacing * spacing ≤ sqDist (along c s x1 ((i : Rat) * step)) (along c s x1 ((j : Rat) * step)) := by
  intro n step pts
  have hn : 1 ≤ (dx / spacing).floor := floor_pos_of_le dx spacing hs hdx
  have hcast : ((n : Nat) : Rat) = ((dx / spacing).floor : Rat) := by
    have : ((n : Nat) : Int) = (dx / spacing).floor := Int.toNat_of_nonneg (by omega)
    exact_mod_cast this
  have hnq : (0 : Rat) < ((dx / spacing).floor : Rat) := by exact_mod_cast (by omega : 0 < (dx / spacing).floor)
  have hstep : spacing ≤ step := by
    show spacing ≤ dx / _
    rw [le_div_iff₀ hnq]
    have : ((dx / spacing).floor : Rat) ≤ dx / spacing := Int.floor_le _
    rw [le_div_iff₀ hs] at this
    linarith
  refine ⟨distribute_closed c s spacing h hs htol x1 dx hdx acc hacc, by simp [pts], by omega, hstep, ?_, ?_, ?_⟩
  · simp [pts, List.range_succ_eq_map]
  · simp only [pts, List.range_succ, List.map_append, List.map_cons, List.map_nil]
    rw [List.getLast?_append]
    simp only [List.getLast?_singleton, Option.some_or, Option.some.injEq]
    congr 1
    show (n : Rat) * (dx / _) = dx
    rw [hcast]; field_simp
  · intro i j hij hjn
    rw [along_sqDist c s h]
    have hji : (1 : Rat) ≤ (j : Rat) - (i : Rat) := by
      have : (i : Rat) + 1 ≤ (j : Rat) := by exact_mod_cast hij
      linarith
    have hst0 : 0 < step := lt_of_lt_of_le hs hstep
    have e : ((i : Rat) * step - (j : Rat) * step) * ((i : Rat) * step - (j : Rat) * step)
        = (((j : Rat) - (i : Rat)) * step) * (((j : Rat) - (i : Rat)) * step) := by ring
    rw [e]
    have h1 : spacing ≤ ((j : Rat) - (i : Rat)) * step := by nlinarith
    nlinarith

/-- Non-vacuity: from (0, 0) along the row of direction (3/5, 4/5) to the point 20 m ahead with spacing 7:
    `⌊20/7⌋ = 2` steps of 10 m, three points. -/
example : distribute (3 / 5) (4 / 5) 7 (0, 0) (12, 16) [] = .ok [(12, 16), (6, 8), (0, 0)] := by decide +kernel

/-! ### rows -/

/-- **Rows.**  With `ySpace > 0`, when the row plan exists the rows start at a vertex of least `yp`
    (`yp v = v.y·c − v.x·s` for `x > 0`), span exactly the `yp`-extent `hi − lo` of the outline in
    `numRows = ⌊(hi − lo)/ySpace⌋ ≥ 1` equal steps `(hi − lo)/numRows ≥ ySpace`, taken along the unit
    normal `(−s, c)` of the rows. -/
theorem rows_spacing (poly : List Pt) (c s ySpace : Rat) (hy : 0 < ySpace) (numRows : Int) (lowest : Pt) (rs0 rs1 : Rat)
    (hp : rowPlan poly c s ySpace = .ok (numRows, lowest, rs0, rs1)) :
    ∃ lo hi, (∀ v ∈ poly, lo ≤ ypOf c s v ∧ ypOf c s v ≤ hi) ∧ lowest ∈ poly ∧ ypOf c s lowest = lo ∧
      (∃ hv ∈ poly, ypOf c s hv = hi) ∧
      numRows = ((hi - lo) / ySpace).floor ∧ 1 ≤ numRows ∧
      ySpace ≤ (hi - lo) / (numRows : Rat) ∧ (numRows : Rat) * ((hi - lo) / (numRows : Rat)) = hi - lo ∧
      rs0 = -((hi - lo) / (numRows : Rat)) * s ∧ rs1 = (hi - lo) / (numRows : Rat) * c :=
  rowPlan_spec poly c s ySpace hy numRows lowest rs0 rs1 hp

/-- A lot narrower than one row spacing has no row plan: `ZeroDivisionError`, as in the code. -/
example : rowPlan [(0, 0), (20, 0), (20, 4), (0, 4)] 1 0 7 = .error .zeroDiv := by decide +kernel
example : rowPlan [(0, 0), (60, 0), (60, 30), (0, 30)] 1 0 7 = .ok (4, (0, 0), 0, 15 / 2) := by decide +kernel

/-! ### rectangle lattice -/

/-- **Rectangle.**  An axis-aligned `W × H` lot (non-negative corner, `W, H ≥ sp`) at rotation 0 receives
    exactly the `(⌊W/sp⌋ + 1) × (⌊H/sp⌋ + 1)` lattice: rows bottom to top at spacing `H/⌊H/sp⌋`, boreholes
    left to right at spacing `W/⌊W/sp⌋`, first and last on the outline. -/
theorem rect_lattice (x0 y0 W H sp tol : Rat) (hx : 0 ≤ x0) (hy : 0 ≤ y0) (hs : 0 < sp)
    (hW : sp ≤ W) (hH : sp ≤ H) (ht0 : 0 ≤ tol) (htW : tol < W)
    (hdt : Gen.RowWise.distributeTol ≤ sp) :
    genBoreholeConfig (rectPoly x0 y0 W H) sp sp 1 0 tol
      = .ok (lattice x0 y0 W H (W / sp).floor.toNat (H / sp).floor.toNat) :=
  RowWise.rect_lattice x0 y0 W H sp tol hx hy hs hW hH ht0 htW hdt

theorem rect_lattice_count (x0 y0 W H sp tol : Rat) (hx : 0 ≤ x0) (hy : 0 ≤ y0) (hs : 0 < sp)
    (hW : sp ≤ W) (hH : sp ≤ H) (ht0 : 0 ≤ tol) (htW : tol < W)
    (hdt : Gen.RowWise.distributeTol ≤ sp) :
    ∃ l, genBoreholeConfig (rectPoly x0 y0 W H) sp sp 1 0 tol = .ok l ∧
      l.length = ((W / sp).floor.toNat + 1) * ((H / sp).floor.toNat + 1) :=
  RowWise.rect_lattice_count x0 y0 W H sp tol hx hy hs hW hH ht0 htW hdt

/-- The boundary of the column count: a lot EXACTLY `k ≥ 1` spacings wide gets `k + 1` columns (in particular a
    lot exactly one spacing wide gets two columns, not one: the single-borehole rule of `gen_borehole_config`
    applies to chords strictly shorter than the spacing). -/
theorem rect_lattice_exact_width (x0 y0 H sp tol : Rat) (k : Nat) (hk : 1 ≤ k) (hx : 0 ≤ x0) (hy : 0 ≤ y0) (hs : 0 < sp)
    (hH : sp ≤ H) (ht0 : 0 ≤ tol) (htW : tol < (k : Rat) * sp)
    (hdt : Gen.RowWise.distributeTol ≤ sp) :
    genBoreholeConfig (rectPoly x0 y0 ((k : Rat) * sp) H) sp sp 1 0 tol
      = .ok (lattice x0 y0 ((k : Rat) * sp) H k (H / sp).floor.toNat) := by
  have hk1 : (1 : Rat) ≤ (k : Rat) := by exact_mod_cast hk
  have hW : sp ≤ (k : Rat) * sp := by nlinarith
  have hfl : ((k : Rat) * sp / sp).floor.toNat = k := by
    rw [mul_div_assoc, div_self (ne_of_gt hs), mul_one]
    have : ((k : Rat)).floor = (k : Int) := (Int.floor_natCast (R := ℚ) k)
    rw [this]; simp
  have := rect_lattice x0 y0 ((k : Rat) * sp) H sp tol hx hy hs hW hH ht0 htW hdt
  rwa [hfl] at this

/-- Boundary witnesses: lots exactly one spacing wide (10 × 55 at 10 m, 12.5 × 70 at 12.5 m, 7.5 × 40 at 7.5 m)
    get 2 × 6 boreholes. -/
example : genBoreholeConfig (rectPoly 10 10 10 55) 10 10 1 0 (1 / 100000) = .ok (lattice 10 10 10 55 1 5) := by decide +kernel
example : (genBoreholeConfig (rectPoly 3 4 (25 / 2) 70) (25 / 2) (25 / 2) 1 0 (1 / 100000)).toOption.map List.length = some 12 := by
  decide +kernel
example : (genBoreholeConfig (rectPoly 5 5 (15 / 2) 40) (15 / 2) (15 / 2) 1 0 (1 / 100000)).toOption.map List.length = some 12 := by
  decide +kernel
/-- … while a lot one part in 10⁹ narrower than the spacing gets a single column. -/
example : (genBoreholeConfig (rectPoly 0 0 (10 - 1 / 1000000000) 55) 10 10 1 0 (1 / 100000)).toOption.map List.length = some 6 := by
  decide +kernel

/-- Non-vacuity: the 60 × 30 lot with 7 m target spacing gets the 9 × 5 lattice. -/
example : genBoreholeConfig (rectPoly 0 0 60 30) 7 7 1 0 (1 / 100000) = .ok (lattice 0 0 60 30 8 4) := by decide +kernel

/-! ### inside -/

/-- **Inside.**  Every borehole satisfies every linear inequality `a x + b y ≤ β` that all vertices of the
    outline satisfy, up to `tol (|a| + |b|)`: it lies in the convex hull of the outline widened by the
    intersection tolerance — for a convex outline, inside or on the outline.  `RowsSimple`: an even number
    of intersections of a row means at most two (true for a convex outline, decidable: `rowsSimple`). -/
theorem inside_convex (poly : List Pt) (ySpace xSpace c s tol : Rat) (h : c * c + s * s = 1)
    (hband : NoBand c s) (hs : 0 < xSpace) (htol : 0 ≤ tol) (hsimple : rowsSimple poly ySpace c s tol = true) (a b β : Rat)
    (hpoly : ∀ v ∈ poly, a * v.1 + b * v.2 ≤ β) (field : List Pt)
    (hr : genBoreholeConfig poly ySpace xSpace c s tol = .ok field) :
    ∀ p ∈ field, a * p.1 + b * p.2 ≤ β + tol * (|a| + |b|) :=
  genBoreholeConfig_inside poly ySpace xSpace c s tol h hband hs htol (rowsSimple_sound poly ySpace c s tol hsimple) a b β hpoly field hr

/-- Non-vacuity: a convex pentagon at the Pythagorean rotation (4/5, -3/5) has simple rows and a
    non-empty field. -/
example : rowsSimple [(40, 0), (70, 40), (100, 120), (10, 120), (10, 40)] 20 (4 / 5) (-3 / 5) (1 / 100000) = true ∧
    (genBoreholeConfig [(40, 0), (70, 40), (100, 120), (10, 120), (10, 40)] 20 20 (4 / 5) (-3 / 5) (1 / 100000)).toOption.map List.length
      = some 20 := by
  constructor <;> decide +kernel

/-! ### densest rotation -/

/-- **Densest rotation.**  The field returned by the sweep is the duplicate-filtered field of a tried rotation
    with the largest number of boreholes among all tried rotations, and the first such rotation on ties. -/
theorem sweep_argmax (poly : List Pt) (space tol : Rat) (rots : List (Rat × Rat)) (idx : Nat) (field : List Pt)
    (hr : fieldOptimizationFr poly space tol rots = .ok (idx, field)) :
    ∃ r hole, rots[idx]? = some r ∧ genBoreholeConfig poly space space r.1 r.2 tol = .ok hole ∧ 0 < hole.length ∧
      field = removeDuplicates (space * Gen.RowWise.sweepDupFactor) hole ∧
      (∀ (j : Nat) (r' : Rat × Rat) (h : List Pt), rots[j]? = some r' →
        genBoreholeConfig poly space space r'.1 r'.2 tol = .ok h → h.length ≤ hole.length) ∧
      (∀ (j : Nat) (r' : Rat × Rat) (h : List Pt), j < idx → rots[j]? = some r' →
        genBoreholeConfig poly space space r'.1 r'.2 tol = .ok h → h.length < hole.length) :=
  fieldOptimizationFr_argmax poly space tol rots idx field hr

/-- Non-vacuity: on the triangle (0,0),(50,0),(0,40) the rotations -90°, 0°, 90° give 27, 25 and 27
    boreholes; the sweep returns index 0 (the first of the two densest). -/
example : (fieldOptimizationFr [(0, 0), (50, 0), (0, 40)] 7 (1 / 100000) [(0, -1), (1, 0), (0, 1)]).toOption.map
    (fun r => (r.1, r.2.length)) = some (0, 27) := by decide +kernel

/-! ### translation -/

/-- **Translation.**  Translating an outline with non-negative coordinates to another position with
    non-negative coordinates translates the generated field rigidly (same boreholes, same order). -/
theorem translate_equivariant (t : Pt) (poly : List Pt) (ySpace xSpace c s tol : Rat)
    (htol : 0 ≤ tol)
    (hpos : ∀ v ∈ poly, 0 ≤ v.1 ∧ 0 ≤ v.2)
    (hpos' : ∀ v ∈ poly, 0 ≤ v.1 + t.1 ∧ 0 ≤ v.2 + t.2) :
    genBoreholeConfig (poly.map (shift t)) ySpace xSpace c s tol
      = (genBoreholeConfig poly ySpace xSpace c s tol).map (List.map (shift t)) :=
  genBoreholeConfig_translate t poly ySpace xSpace c s tol htol hpos hpos'

/-- … and so does the rotation sweep (same chosen rotation). -/
theorem sweep_translate_equivariant (t : Pt) (poly : List Pt) (space tol : Rat)
    (htol : 0 ≤ tol)
    (hpos : ∀ v ∈ poly, 0 ≤ v.1 ∧ 0 ≤ v.2)
    (hpos' : ∀ v ∈ poly, 0 ≤ v.1 + t.1 ∧ 0 ≤ v.2 + t.2)
    (rots : List (Rat × Rat)) :
    fieldOptimizationFr (poly.map (shift t)) space tol rots
      = (fieldOptimizationFr poly space tol rots).map (fun r => (r.1, r.2.map (shift t))) :=
  fieldOptimizationFr_translate t poly space tol htol hpos hpos' rots

/-- Non-vacuity (and the reason for the sign hypothesis): the model's `yp` is `−(y c − x s)` for `x < 0`, as
    `atan(y/x)` makes it in the code, so a lot moved across the y-axis is not covered. -/
example : genBoreholeConfig ([(0, 0), (50, 0), (0, 40)].map (shift (13, 4))) 7 7 (3 / 5) (4 / 5) (1 / 100000)
    = (genBoreholeConfig [(0, 0), (50, 0), (0, 40)] 7 7 (3 / 5) (4 / 5) (1 / 100000)).map (List.map (shift (13, 4))) :=
  translate_equivariant (13, 4) _ 7 7 (3 / 5) (4 / 5) (1 / 100000) (by norm_num) (by decide +kernel) (by decide +kernel)

/-! ### spacing (partial)

  Full statement of the property: for every outline, any two boreholes of
  `genBoreholeConfig poly sp sp c s tol` are at least `sp` apart:
      ∀ field, genBoreholeConfig poly sp sp c s tol = .ok field →
        field.Pairwise (fun p q => sp * sp ≤ sqDist p q).
  This is FALSE of the model and of the code (`spacing_full_fails_on_kite`, finding "row through a vertex
  with a chord shorter than the spacing", reproduced on the implementation by the harness).  Proved:
  within one `distribute` run all points are ≥ spacing apart (`distribute_count_spacing`), consecutive
  rows are `(hi − lo)/numRows ≥ ySpace` apart along the row normal (`rows_spacing`), the rectangle lattice
  (`rect_lattice`), and the remaining duplicate filter guarantee below. -/

/-- What the final duplicate filter guarantees for every outline: a kept borehole is at least
    `dupFactor · spacing` (one tenth of the spacing) away from every borehole generated before it. -/
theorem spacing_partial (tolSq : Rat) (l : List Pt) :
    (removeDupAux tolSq [] l).Pairwise (fun p q => tolSq ≤ sqDist p q) := by
  have key : ∀ (l seen : List Pt), (removeDupAux tolSq seen l).Pairwise (fun p q => tolSq ≤ sqDist p q) ∧
      ∀ q ∈ removeDupAux tolSq seen l, ∀ p ∈ seen, tolSq ≤ sqDist p q := by
    intro l
    induction l with
    | nil => intro seen; simp [removeDupAux]
    | cons x xs ih =>
      intro seen
      unfold removeDupAux
      split_ifs with hany
      · refine ⟨(ih (x :: seen)).1, fun q hq p hp => (ih (x :: seen)).2 q hq p (List.mem_cons_of_mem _ hp)⟩
      · simp only [List.any_eq_true, decide_eq_true_eq, not_exists, not_and, not_lt] at hany
        refine ⟨List.pairwise_cons.mpr ⟨fun q hq => (ih (x :: seen)).2 q hq x (by simp), (ih (x :: seen)).1⟩, ?_⟩
        intro q hq p hp
        rcases List.mem_cons.mp hq with rfl | hq
        · exact hany p hp
        · exact (ih (x :: seen)).2 q hq p (List.mem_cons_of_mem _ hp)
  exact (key l []).1

/-- The full spacing statement fails: on the convex kite (3,0),(6,10),(3,20),(1,12) with 10 m spacing at
    rotation 0 the row y = 10 passes through the vertex (6,10); the chord (4.67 m) is shorter than the
    spacing, and both its midpoint (11/3, 10) and the vertex are kept, 2.33 m apart. -/
theorem spacing_full_fails_on_kite :
    ∃ field p q, genBoreholeConfig [(3, 0), (6, 10), (3, 20), (1, 12)] 10 10 1 0 (1 / 100000) = .ok field ∧
      p ∈ field ∧ q ∈ field ∧ p ≠ q ∧ sqDist p q < 10 * 10 :=
  ⟨[(3, 0), (11 / 3, 10), (6, 10), (3, 20)], (11 / 3, 10), (6, 10), by decide +kernel, by decide +kernel, by decide +kernel,
    by decide +kernel, by decide +kernel⟩

end GHEVerif.C14
