/-
  C16 — Point-in-polygon classification used for land constraints is exact.

  Property theorems only; helper lemmas live in GHEVerif/Lemmas/Polygon.lean.
  `classify tol poly p` (Model/Polygon.lean) transcribes `shape.point_polygon_check`; its
  per-edge decisions, return values and default tolerances are `GHEVerif.Gen.*`, regenerated from
  ghedesigner/shape.py and feature_recognition.py on every check, so a changed comparison in the
  source changes the statement these proofs are about.

  Not proved (out of scope, DESIGN.md): odd crossing number ⇔ topological interior of a simple
  polygon (Jordan curve theorem).  The property asks for agreement with the crossing-number
  definition; that is what is proved, for every vertex list (no simplicity, convexity or
  orientation hypothesis) and every rational point.
-/
import GHEVerif.Lemmas.Polygon
import Mathlib.Algebra.Group.Nat.Even

namespace GHEVerif.C16
open GHEVerif GHEVerif.Polygon

/-! ### 1. The executable on-edge test is the documented tolerance band, exactly -/

/-- `ltMulSqrt x c d` decides `x < c·√d` over the reals. -/
theorem ltMulSqrt_iff (x c d : ℚ) (hd : 0 ≤ d) :
    ltMulSqrt x c d = true ↔ (x : ℝ) < (c : ℝ) * Real.sqrt (d : ℝ) :=
  Polygon.ltMulSqrt_iff x c d hd

/-- The squaring cascade decides `√a + √b − √d < t` (for a positive tolerance) over the reals,
    with no approximation. -/
theorem ltSumSqrt_iff (a b d t : ℚ) (ha : 0 ≤ a) (hb : 0 ≤ b) (hd : 0 ≤ d) :
    ltSumSqrt a b d t = true ↔
      0 < t ∧ Real.sqrt (a : ℝ) + Real.sqrt (b : ℝ) - Real.sqrt (d : ℝ) < (t : ℝ) :=
  Polygon.ltSumSqrt_iff a b d t ha hb hd

/-- The model's band test of one edge is the source's comparison
    `abs(distance(v1,p) + distance(v2,p) - distance(v1,v2)) < on_edge_tolerance`
    evaluated in real arithmetic (`rdist a b = √((a₀−b₀)² + (a₁−b₁)²)`): the ellipse
    `|pA| + |pB| < |AB| + tol` with foci at the edge ends. -/
theorem bandTest_iff (tol : ℚ) (e : Edge) (p : Pt) :
    onBand tol e p = true ↔ |rdist e.1 p + rdist e.2 p - rdist e.1 e.2| < (tol : ℝ) :=
  onBand_iff tol e p

/-- The `abs` in the source is redundant in exact arithmetic (triangle inequality). -/
theorem band_value_nonneg (e : Edge) (p : Pt) : 0 ≤ rdist e.1 p + rdist e.2 p - rdist e.1 e.2 := by
  have := rdist_triangle e.1 e.2 p; linarith

/-- Both call sites use a positive tolerance (the defaults of `point_polygon_check` and of
    `remove_cutout`, read from the source). -/
theorem default_tolerances_positive : 0 < Gen.ppcTolDefault ∧ 0 < Gen.cutoutTolDefault := by
  unfold Gen.ppcTolDefault Gen.cutoutTolDefault; constructor <;> norm_num

/-! ### 2. Inside / outside is the crossing number with the half-open vertex rule -/

/-- Complete closed form of `point_polygon_check`: `0` in the band of some edge, else `0` when a
    counted edge passes through the point, else `1`/`-1` by the parity of
    `crossings poly p = #{edges : min y < p.y ≤ max y ∧ p.x < xAt(edge, p.y)}`. -/
theorem classify_closed_form (tol : ℚ) (poly : List Pt) (p : Pt) :
    classify tol poly p = spec tol poly p :=
  classify_eq_spec tol poly p

/-- Core step: on an edge whose half-open vertical range contains `p.y`, the source's cross
    product is `(xAt − p.x)·(v2y − v1y)`, so `c == 0` ⇔ the edge passes through `p`, and the
    toggle condition `(v1y < v2y) == (c > 0)` ⇔ the edge is strictly to the right of `p`. -/
theorem edge_step_is_crossing (e : Edge) (p : Pt) :
    (counted e p = false → edgeStep e p = .skip) ∧
    (counted e p = true →
      cross e p = (xAt e p.2 - p.1) * (e.2.2 - e.1.2) ∧
      edgeStep e p = if xAt e p.2 = p.1 then .zero else if p.1 < xAt e p.2 then .toggle else .keep) :=
  ⟨edgeStep_of_not_counted e p, fun h => ⟨cross_eq e p (counted_ne e p h), edgeStep_of_counted e p h⟩⟩

/-- For every vertex list and every point not caught by the band test and with no `c == 0` hit:
    inside ⇔ odd crossing number, outside ⇔ even crossing number. -/
theorem ray_eq_crossing_number (tol : ℚ) (poly : List Pt) (p : Pt)
    (hb : ∀ e ∈ edges poly, onBand tol e p = false)
    (hz : ∀ e ∈ edges poly, counted e p = true → cross e p ≠ 0) :
    (classify tol poly p = 1 ↔ Odd (crossings poly p)) ∧
    (classify tol poly p = -1 ↔ Even (crossings poly p)) := by
  rw [classify_eq_spec]
  unfold spec
  have h1 : (edges poly).any (fun e => onBand tol e p) = false := by
    rw [List.any_eq_false]; intro e he; simp [hb e he]
  have h2 : (edges poly).any (fun e => hitsLine e p) = false := by
    rw [List.any_eq_false]; intro e he hh
    have hh' := hh
    unfold hitsLine at hh
    simp only [Bool.and_eq_true, decide_eq_true_eq] at hh
    have := cross_eq e p (counted_ne e p hh.1)
    rw [hh.2, sub_self, zero_mul] at this
    exact hz e he hh.1 this
  rw [h1, h2]
  simp only [Bool.false_eq_true, if_false, Nat.odd_iff, Nat.even_iff]
  rcases Nat.mod_two_eq_zero_or_one (crossings poly p) with h | h <;> simp [h]

/-- With a positive tolerance the `c == 0` hypothesis is automatic (3. below): outside the band,
    the answer is exactly the crossing-number parity. -/
theorem ray_eq_crossing_number_pos_tol (tol : ℚ) (htol : 0 < tol) (poly : List Pt) (p : Pt)
    (hb : ∀ e ∈ edges poly, onBand tol e p = false) :
    (classify tol poly p = 1 ↔ Odd (crossings poly p)) ∧
    (classify tol poly p = -1 ↔ Even (crossings poly p)) := by
  refine ray_eq_crossing_number tol poly p hb ?_
  intro e he hc h0
  have hx : xAt e p.2 = p.1 := by
    have := cross_eq e p (counted_ne e p hc)
    rw [h0] at this
    have hd : e.2.2 - e.1.2 ≠ 0 := sub_ne_zero.mpr (Ne.symm (counted_ne e p hc))
    rcases mul_eq_zero.mp this.symm with h | h
    · exact sub_eq_zero.mp h
    · exact absurd h hd
  have hseg : OnSegment e p := hitsLine_onSegment e p (by simp [hitsLine, hc, hx])
  have := onSegment_onBand tol htol e p hseg
  rw [hb e he] at this
  exact Bool.false_ne_true this

/-! ### 3. `0` is returned exactly in the tolerance band -/

/-- `c == 0` inside the half-open vertical range ⇒ the point lies on the closed segment. -/
theorem c_zero_on_segment (e : Edge) (p : Pt) (hc : counted e p = true) (h0 : cross e p = 0) :
    OnSegment e p := by
  have hd : e.2.2 - e.1.2 ≠ 0 := sub_ne_zero.mpr (Ne.symm (counted_ne e p hc))
  have := cross_eq e p (counted_ne e p hc)
  rw [h0] at this
  have hx : xAt e p.2 = p.1 := by
    rcases mul_eq_zero.mp this.symm with h | h
    · exact sub_eq_zero.mp h
    · exact absurd h hd
  exact hitsLine_onSegment e p (by simp [hitsLine, hc, hx])

/-- Every point of the closed boundary is reported on-edge (any positive tolerance; includes
    vertices, horizontal edges and the lower end points that the ray loop skips). -/
theorem boundary_reported_on_edge (tol : ℚ) (htol : 0 < tol) (poly : List Pt) (p : Pt)
    (e : Edge) (he : e ∈ edges poly) (hp : OnSegment e p) : classify tol poly p = 0 := by
  unfold classify
  have : (edges poly).any (fun e => onBand tol e p) = true :=
    List.any_eq_true.mpr ⟨e, he, onSegment_onBand tol htol e p hp⟩
  rw [if_pos this]; rfl

/-- Points within the edge tolerance of a boundary segment are reported on-edge and all others
    are never reported on-edge (positive tolerance): `0` ⇔ in the band of some edge, where the
    band is the real-arithmetic comparison of the source. -/
theorem on_edge_iff_in_band (tol : ℚ) (htol : 0 < tol) (poly : List Pt) (p : Pt) :
    classify tol poly p = 0 ↔
      ∃ e ∈ edges poly, |rdist e.1 p + rdist e.2 p - rdist e.1 e.2| < (tol : ℝ) := by
  constructor
  · intro h0
    by_contra hne
    have hb : ∀ e ∈ edges poly, onBand tol e p = false := by
      intro e he
      by_contra hb
      have hb' : onBand tol e p = true := by simpa using hb
      exact hne ⟨e, he, (onBand_iff tol e p).mp hb'⟩
    obtain ⟨h1, h2⟩ := ray_eq_crossing_number_pos_tol tol htol poly p hb
    rcases Nat.even_or_odd (crossings poly p) with hev | hodd
    · have := h2.mpr hev; omega
    · have := h1.mpr hodd; omega
  · rintro ⟨e, he, hb⟩
    unfold classify
    have : (edges poly).any (fun e => onBand tol e p) = true :=
      List.any_eq_true.mpr ⟨e, he, (onBand_iff tol e p).mpr hb⟩
    rw [if_pos this]; rfl

/-- The result is always one of −1, 0, 1. -/
theorem classify_range (tol : ℚ) (poly : List Pt) (p : Pt) :
    classify tol poly p = -1 ∨ classify tol poly p = 0 ∨ classify tol poly p = 1 := by
  rw [classify_eq_spec]; unfold spec
  split_ifs <;> simp

/-! ### 4. Irrespective of vertex order and orientation -/

/-- Starting the vertex list at another vertex does not change the result. -/
theorem classify_rotate (tol : ℚ) (poly : List Pt) (p : Pt) (k : ℕ) :
    classify tol (poly.rotate k) p = classify tol poly p :=
  classify_rotate_perm tol poly p k

/-- Listing the vertices in the opposite orientation does not change the result. -/
theorem classify_reverse (tol : ℚ) (poly : List Pt) (p : Pt) :
    classify tol poly.reverse p = classify tol poly p :=
  classify_reverse_perm tol poly p

/-! ### 5. The degenerate alignments -/

/-- A horizontal edge never takes part in the ray loop, wherever the point is (in particular
    when the point is level with it or collinear with it). -/
theorem horizontal_edge_ignored (e : Edge) (p : Pt) (h : e.1.2 = e.2.2) :
    edgeStep e p = .skip ∧ crosses e p = false ∧ hitsLine e p = false := by
  have hc : counted e p = false := by
    by_contra hc
    have hc' : counted e p = true := by simpa using hc
    exact counted_ne e p hc' h
  exact ⟨edgeStep_of_not_counted e p hc, by simp [crosses, hc], by simp [hitsLine, hc]⟩

/-- A point level with a vertex `v` (neighbours `u`, `w`): the two edges at `v` contribute
    one crossing when the boundary passes through the level (`u`, `w` on opposite sides), two or
    none when `v` is a local maximum (parity unchanged), none when `v` is a local minimum or a
    neighbour is level — and only when `v` is strictly to the right of the point. -/
theorem vertex_level_counted_once (u v w : Pt) (p : Pt) (hp : p.2 = v.2) :
    (counted (u, v) p = true ↔ u.2 < v.2) ∧ (counted (v, w) p = true ↔ w.2 < v.2) ∧
    ((u.2 < v.2 ∧ v.2 < w.2) ∨ (w.2 < v.2 ∧ v.2 < u.2) →
      [(u, v), (v, w)].countP (fun e => crosses e p) = if p.1 < v.1 then 1 else 0) ∧
    (u.2 < v.2 ∧ w.2 < v.2 →
      [(u, v), (v, w)].countP (fun e => crosses e p) = if p.1 < v.1 then 2 else 0) ∧
    (v.2 ≤ u.2 ∧ v.2 ≤ w.2 → [(u, v), (v, w)].countP (fun e => crosses e p) = 0) := by
  have c1 : counted (u, v) p = true ↔ u.2 < v.2 := by
    rw [counted_iff]; simp only [hp]
    constructor
    · rintro (h | h); exact h.1; exact absurd h.1 (lt_irrefl _)
    · intro h; left; exact ⟨h, le_refl _⟩
  have c2 : counted (v, w) p = true ↔ w.2 < v.2 := by
    rw [counted_iff]; simp only [hp]
    constructor
    · rintro (h | h); exact absurd h.1 (lt_irrefl _); exact h.1
    · intro h; right; exact ⟨h, le_refl _⟩
  have x1 : u.2 < v.2 → xAt (u, v) p.2 = v.1 := by
    intro h; unfold xAt; simp only [hp]
    have : v.2 - u.2 ≠ 0 := by linarith
    field_simp; ring
  have x2 : xAt (v, w) p.2 = v.1 := by unfold xAt; simp [hp]
  have k1 : crosses (u, v) p = (decide (u.2 < v.2) && decide (p.1 < v.1)) := by
    unfold crosses
    by_cases h : u.2 < v.2
    · rw [c1.mpr h, x1 h]; simp [h]
    · have : counted (u, v) p = false := by
        by_contra hc; exact h (c1.mp (by simpa using hc))
      simp [this, h]
  have k2 : crosses (v, w) p = (decide (w.2 < v.2) && decide (p.1 < v.1)) := by
    unfold crosses
    rw [x2]
    by_cases h : w.2 < v.2
    · rw [c2.mpr h]; simp [h]
    · have : counted (v, w) p = false := by
        by_contra hc; exact h (c2.mp (by simpa using hc))
      simp [this, h]
  refine ⟨c1, c2, ?_, ?_, ?_⟩
  · rintro (⟨h1, h2⟩ | ⟨h1, h2⟩)
    · have h3 : ¬ w.2 < v.2 := not_lt.mpr h2.le
      by_cases hx : p.1 < v.1 <;> simp [k1, k2, h1, h3, hx]
    · have h3 : ¬ u.2 < v.2 := not_lt.mpr h2.le
      by_cases hx : p.1 < v.1 <;> simp [k1, k2, h1, h3, hx]
  · rintro ⟨h1, h2⟩
    by_cases hx : p.1 < v.1 <;> simp [k1, k2, h1, h2, hx]
  · rintro ⟨h1, h2⟩
    simp [k1, k2, not_lt.mpr h1, not_lt.mpr h2]

/-! ### Non-vacuity -/

/-- The cascade on concrete radicands: `√1 + √1 − √4 = 0 < 10⁻³`, `√1 + √1 − √1 = 1 ≮ ½`,
    `√2 + √2 − √8 = 0`, and `√(1/4) + √(9/4) − √1 = 1 ≮ 1`, `< 1 + 10⁻⁹`. -/
example : ltSumSqrt 1 1 4 (1 / 1000) = true ∧ ltSumSqrt 1 1 1 (1 / 2) = false ∧
    ltSumSqrt 2 2 8 (1 / 1000000) = true ∧ ltSumSqrt (1 / 4) (9 / 4) 1 1 = false ∧
    ltSumSqrt (1 / 4) (9 / 4) 1 (1 + 1 / 1000000000) = true ∧
    ltMulSqrt 1 1 2 = true ∧ ltMulSqrt 3 2 2 = false ∧ ltMulSqrt (-3) (-2) 2 = true := by decide +kernel

/-- The band is the source's ellipse, not a distance band: on a 100 m side the point 0.2 m away
    from the boundary is reported on-edge at the default tolerance 10⁻³ (half-width ≈ √(tol·L/2)),
    0.25 m away is not. -/
example : classify (1 / 1000) [(0, 0), (100, 0), (100, 100), (0, 100)] (50, 1 / 5) = 0 ∧
    classify (1 / 1000) [(0, 0), (100, 0), (100, 100), (0, 100)] (50, 1 / 4) = 1 := by decide +kernel

/-- A concave hexagon (a V-shaped notch cut from the top, reflex vertex `(2, 1)`). -/
def hexagon : List Pt := [(0, 0), (4, 0), (4, 3), (2, 1), (1, 3), (0, 3)]

/-- The point `(1, 1)` is level with the reflex vertex `(2, 1)`; the ray to the right passes
    through that vertex (a local minimum of the boundary: counted zero times) and leaves through
    the right side: one crossing, inside. -/
example : classify (1 / 1000) hexagon (1, 1) = 1 ∧ crossings hexagon (1, 1) = 1 := by decide +kernel

/-- …and the hypotheses of `ray_eq_crossing_number` hold there. -/
example : (∀ e ∈ edges hexagon, onBand (1 / 1000) e (1, 1) = false) ∧
    (∀ e ∈ edges hexagon, counted e (1, 1) = true → cross e (1, 1) ≠ 0) := by decide +kernel

/-- Outside, level with two vertices and with the horizontal top edges; clockwise order and a
    different starting vertex give the same answers. -/
example : classify (1 / 1000) hexagon (5, 3) = -1 ∧ classify (1 / 1000) hexagon (-1, 3) = -1 ∧
    classify (1 / 1000) hexagon.reverse (1, 1) = 1 ∧ classify (1 / 1000) (hexagon.rotate 4) (1, 1) = 1 ∧
    classify (1 / 1000) hexagon (2, 2) = -1 := by decide +kernel

/-- On-edge: a vertex, a point of a horizontal edge, a point of a slanted edge, and a point off
    the boundary but inside the band (`√(1+10⁻⁸)·2 − 2 < 10⁻³`); just outside the band is not. -/
example : classify (1 / 1000) hexagon (2, 1) = 0 ∧ classify (1 / 1000) hexagon (1 / 2, 3) = 0 ∧
    classify (1 / 1000) hexagon (3, 2) = 0 ∧ classify (1 / 1000) hexagon (2, 1 / 10000) = 0 ∧
    classify (1 / 1000) hexagon (2, 1 / 10) = 1 := by decide +kernel

/-- The `c == 0` branch is reachable only with a non-positive tolerance: the band test is then
    empty and a point of a slanted edge is found by the cross product. -/
example : classify 0 hexagon (3, 2) = 0 ∧ counted ((4, 3), (2, 1)) (3, 2) = true ∧
    cross ((4, 3), (2, 1)) (3, 2) = 0 := by decide +kernel

/-- `vertex_level_counted_once` on concrete edges, point `(1, 3)` level with the vertex `(4, 3)`:
    the hexagon's own neighbours `(4, 0)`, `(2, 1)` are both below (local maximum: two crossings,
    parity unchanged); one neighbour below and one above (pass-through): exactly one; both
    above (local minimum): none. -/
example : [(((4, 0) : Pt), ((4, 3) : Pt)), ((4, 3), (2, 1))].countP (fun e => crosses e (1, 3)) = 2 ∧
    [(((4, 0) : Pt), ((4, 3) : Pt)), ((4, 3), (5, 5))].countP (fun e => crosses e (1, 3)) = 1 ∧
    [(((4, 5) : Pt), ((4, 3) : Pt)), ((4, 3), (5, 5))].countP (fun e => crosses e (1, 3)) = 0 := by
  decide +kernel

/-- `c_zero_on_segment` / `boundary_reported_on_edge`: hypotheses are satisfiable. -/
example : OnSegment ((4, 3), (2, 1)) (3, 2) :=
  c_zero_on_segment _ _ (by decide +kernel) (by decide +kernel)

end GHEVerif.C16
