/-
  C08 — Hybrid time axis covers the horizon exactly and is ordered.

  Calendar: the three helpers are the *translated* source (`Gen.monthdays`, `Gen.firstMonthHour`,
  `Gen.lastMonthHour`, regenerated from ghedesigner/ground_loads.py on every check); their closed
  forms are proved here for every month, against a common-year table written independently below.
  Sequence: `processMonthLoads` of Model/Hybrid.lean (arbitrary monthly arrays, any horizon).

  `strictly_increasing` needs, besides disjoint windows inside the month, that on a shared peak day
  the extraction pulse start is not clamped (`windowsClear`, last conjunct): with a duration longer
  than twice the noon hour (possible only on 1 January) `first_hour_heating_peak` is replaced by
  1e-6 and the emitted breakpoints are no longer the ones the record describes — see the witness
  `clamped_axis_not_increasing` (reproduced on the real code in harness/c08.py).
-/
import GHEVerif.Lemmas.HybridAxis
import Mathlib.Tactic.NormNum

namespace GHEVerif.C08
open GHEVerif GHEVerif.Hybrid

/-- The non-leap calendar, January first — written here independently of the source. -/
def commonYear : List Int := [31, 28, 31, 30, 31, 30, 31, 31, 30, 31, 30, 31]

/-- Days before month index `k` (0-based) of the common year. -/
def daysBefore (k : Nat) : Int := (commonYear.take k).sum

/-! ### calendar helpers -/

/-- `monthdays(m, y)` for every month number `m ≥ 0` of a non-leap year: the length of calendar
    month `((m-1) mod 12) + 1` (so month 13 is January again, 24 December, and the code's index-0
    convention for `m % 12 == 0` is December). -/
theorem monthdays_closed_form (y : Int) (hy : Int.fmod y 4 ≠ 0) (m : Int) (hm : 1 ≤ m) :
    Gen.monthdays m y = .ok (commonYear.getD ((m - 1) % 12).toNat 0) := by
  rw [monthdays_eq y m (by omega)]
  congr 1
  unfold mdays
  rw [numDays_common y hy]
  have h : (m % 12).toNat < 12 := by omega
  have e : ((m - 1) % 12).toNat = ((m % 12).toNat + 11) % 12 := by omega
  rw [e]
  generalize (m % 12).toNat = k at h
  interval_cases k <;> decide

/-- `last_month_hour(i)` for every `i ≥ 0`: 24 × the days of the first `i` simulated months; for a
    non-leap year and `i = 12 q + k` (`k ≤ 12`) that is `8760 q + 24 · daysBefore k`. -/
theorem last_month_hour_closed_form (y : Int) (i : Int) (hi : 0 ≤ i) :
    Gen.lastMonthHour i [y] = .ok (lmh y i) ∧
    (Int.fmod y 4 ≠ 0 → ∀ q k : Nat, k ≤ 12 → lmh y (12 * (q : Int) + (k : Int)) = 8760 * (q : Int) + 24 * daysBefore k) := by
  refine ⟨lastMonthHour_int y i hi, ?_⟩
  intro hy q k hk
  unfold lmh
  have : (12 * (q : Int) + (k : Int)).toNat = 12 * q + k := by omega
  rw [this, cumDays_mul12 y hy, cumDays_table y hy k hk]
  have : cumCommon.getD k 0 = daysBefore k := by
    interval_cases k <;> decide
  rw [this]; ring

/-- `first_month_hour(i) = last_month_hour(i-1) + 1` for every `i ≥ 1` (1-based hour labels). -/
theorem first_eq_prev_last_plus_one (y : Int) (i : Int) (hi : 1 ≤ i) :
    Gen.firstMonthHour i [y] = .ok (lmh y (i - 1) + 1) ∧ Gen.lastMonthHour (i - 1) [y] = .ok (lmh y (i - 1)) := by
  refine ⟨?_, lastMonthHour_int y (i - 1) (by omega)⟩
  rw [firstMonthHour_int y i hi]; congr 1; ring

/-- Consecutive month ends are `24 · monthdays` apart, and every month has at least 28 days. -/
theorem month_end_spacing (y : Int) (i : Int) (hi : 1 ≤ i) :
    lmh y i = lmh y (i - 1) + 24 * mdays y i ∧ Gen.monthdays i y = .ok (mdays y i) ∧ 28 ≤ mdays y i :=
  ⟨lmh_succ y i hi, monthdays_eq y i (by omega), mdays_ge y i⟩

/-! ### replication of the year-1 values -/

/-- The replication loop never raises on 13-entry arrays, appends one entry per month beyond 12, and
    afterwards entry `i` is year-1 month `monthIndex i` (`i mod 12`, with 0 ↦ 12): in particular
    entries `m` and `m + 12` agree. -/
theorem replicate_month (base : List MonthRec) (hlen : base.length = 13) (start end_ : Int)
    (hs : 1 ≤ start) (hs' : start ≤ 13) (he : start - 1 ≤ end_) :
    ∃ ext, replicate base start end_ = .ok ext ∧ ext.length = 13 + (end_ - 12).toNat ∧
      (∀ i : Int, 1 ≤ i → i < 13 + ((end_ - 12).toNat : Int) → pyIndex ext i = .ok (recAt base i)) ∧
      (∀ i, recAt base (i + 12) = recAt base i) := by
  refine ⟨_, replicate_eq base hlen start hs hs' end_ he, ?_, ?_, recAt_add12 base⟩
  · rw [extList_length, hlen]
  · intro i h1 h2
    exact extList_index base hlen _ i h1 (by omega)

/-! ### the axis -/

/-- The sequence starts with the two zero entries `(0, 0)` and `(0, last_month_hour(start-1))`;
    with `start = 1` both hours are 0.  Needs only that no month raises. -/
theorem axis_starts_at_zero (y : Int) (base : List MonthRec) (hlen : base.length = 13) (start end_ : Int)
    (hs : 1 ≤ start) (hs' : start ≤ 13) (he : start - 1 ≤ end_)
    (hrun : ∀ i, start ≤ i → i ≤ end_ → MonthRuns y (recAt base i) (ipfFlag start end_ i) i) :
    ∃ rest, processMonthLoads y base start end_ =
        .ok (((0 : Rat), (0 : Rat)) :: ((0 : Rat), ((lmh y (start - 1) : Int) : Rat)) :: rest) ∧
      (start = 1 → ((lmh y (start - 1) : Int) : Rat) = 0) := by
  obtain ⟨h1, _, _⟩ := axis_core y base hlen start end_ hs hs' he hrun
  refine ⟨_, h1, ?_⟩
  intro h; subst h; simp [lmh_zero]

/-- Every month end is a breakpoint, and it is the last entry the month emits: the sequence is the two
    initial entries followed by one block per month, and the block of month `i` ends with
    `(month_rate i, last_month_hour i)`. -/
theorem month_end_breakpoints (y : Int) (base : List MonthRec) (hlen : base.length = 13) (start end_ : Int)
    (hs : 1 ≤ start) (hs' : start ≤ 13) (he : start - 1 ≤ end_)
    (hrun : ∀ i, start ≤ i → i ≤ end_ → MonthRuns y (recAt base i) (ipfFlag start end_ i) i) :
    ∃ blocks : Int → List (Rat × Rat),
      processMonthLoads y base start end_ =
        .ok ([((0 : Rat), (0 : Rat)), ((0 : Rat), ((lmh y (start - 1) : Int) : Rat))] ++
          ((pyRange start (end_ + 1)).map blocks).flatten) ∧
      ∀ i, start ≤ i → i ≤ end_ → ∃ pre, blocks i =
        pre ++ [(rateOf y (recAt base i) (ipfFlag start end_ i) i, ((lmh y i : Int) : Rat))] := by
  obtain ⟨h1, h2, _⟩ := axis_core y base hlen start end_ hs hs' he hrun
  exact ⟨segsOf y base start end_, h1, h2⟩

/-- The axis ends exactly at the last hour of the horizon, for any number of months `end_ ≥ start - 1`
    (not only multiples of 12): `Σ_{i ≤ end_} 24 · monthdays i`; for a non-leap year and
    `end_ = 12 q + k` that is `8760 q + 24 · daysBefore k`. -/
theorem axis_ends_at_horizon (y : Int) (base : List MonthRec) (hlen : base.length = 13) (start end_ : Int)
    (hs : 1 ≤ start) (hs' : start ≤ 13) (he : start - 1 ≤ end_)
    (hrun : ∀ i, start ≤ i → i ≤ end_ → MonthRuns y (recAt base i) (ipfFlag start end_ i) i) :
    ∃ seq, processMonthLoads y base start end_ = .ok seq ∧
      lastHour 0 seq = ((24 * cumDays y end_.toNat : Int) : Rat) ∧
      (Int.fmod y 4 ≠ 0 → ∀ q k : Nat, k ≤ 12 → end_ = 12 * (q : Int) + (k : Int) →
        lastHour 0 seq = ((8760 * (q : Int) + 24 * daysBefore k : Int) : Rat)) := by
  obtain ⟨h1, _, h3⟩ := axis_core y base hlen start end_ hs hs' he hrun
  have hl : lastHour 0 ([((0 : Rat), (0 : Rat)), ((0 : Rat), ((lmh y (start - 1) : Int) : Rat))] ++
          ((pyRange start (end_ + 1)).map (segsOf y base start end_)).flatten) = ((lmh y end_ : Int) : Rat) := by
    rw [lastHour_append]; simp only [lastHour]; exact h3
  refine ⟨_, h1, hl, ?_⟩
  intro hy q k hk hend
  rw [hl, hend, (last_month_hour_closed_form y (12 * (q : Int) + (k : Int)) (by omega)).2 hy q k hk]

/-- Strict order.  If no month raises and every retained month's pulse windows are clear
    (`windowsClear`: positive length, strictly inside the month, disjoint in the order of the peak
    days — abutting at noon on a shared day — and no clamped start on a shared day), then the
    breakpoints after the two initial zeros increase strictly, all above `last_month_hour(start-1)`. -/
theorem strictly_increasing (y : Int) (base : List MonthRec) (hlen : base.length = 13) (start end_ : Int)
    (hs : 1 ≤ start) (hs' : start ≤ 13) (he : start - 1 ≤ end_)
    (hrun : ∀ i, start ≤ i → i ≤ end_ → MonthRuns y (recAt base i) (ipfFlag start end_ i) i)
    (hclear : ∀ i, start ≤ i → i ≤ end_ → ipfFlag start end_ i = true → windowsClear y (recAt base i) i) :
    ∃ seq, processMonthLoads y base start end_ = .ok seq ∧
      ((seq.drop 2).map Prod.snd).Pairwise (· < ·) ∧
      ∀ h ∈ (seq.drop 2).map Prod.snd, ((lmh y (start - 1) : Int) : Rat) < h := by
  obtain ⟨h1, _, _⟩ := axis_core y base hlen start end_ hs hs' he hrun
  refine ⟨_, h1, ?_⟩
  have hb : ∀ i, start ≤ i → i ≤ end_ →
      Incr ((lmh y (i - 1) : Int) : Rat) ((segsOf y base start end_ i).map Prod.snd) ∧
      lastHour ((lmh y (i - 1) : Int) : Rat) (segsOf y base start end_ i) = ((lmh y i : Int) : Rat) := by
    intro i a b
    have hseg := emitMonth_segsOf _ _ _ _ _ _ (emitMonth_runs y _ _ i (by omega) (hrun i a b))
    rw [hseg]
    refine ⟨segments_incr y _ _ i (by omega) _ (hclear i a b), ?_⟩
    obtain ⟨pre, hp⟩ := monthSegments_last (recAt base i) (ipfFlag start end_ i)
      (rateOf y (recAt base i) (ipfFlag start end_ i) i)
      (peakHours (1 + lmh y (i - 1)) (recAt base i).dayc (recAt base i).dcl).1 (peakHours (1 + lmh y (i - 1)) (recAt base i).dayc (recAt base i).dcl).2
      (peakHours (1 + lmh y (i - 1)) (recAt base i).dayh (recAt base i).dhl).1 (peakHours (1 + lmh y (i - 1)) (recAt base i).dayh (recAt base i).dhl).2
      ((lmh y i : Int) : Rat)
    rw [hp, lastHour_snoc]
  obtain ⟨c1, _⟩ := blocks_incr (fun i => ((lmh y i : Int) : Rat)) (segsOf y base start end_) start end_ he hb
  simp only [List.cons_append, List.nil_append, List.drop_succ_cons, List.drop_zero]
  exact ⟨Incr_pairwise _ _ c1, Incr_lt_all _ _ c1⟩

/-! ### witnesses and non-vacuity -/

/-- An Atlanta-like retained month: rejection peak on day 17 (6 h), extraction peak on day 3 (2 h). -/
def wBoth : MonthRec := { cl := 9000, hl := 1200, pcl := 180, phl := 60, dayc := 17, dayh := 3, dcl := 6, dhl := 2 }

/-- … its windows are clear in every simulated month (decided for July of year 1 here; the general
    argument is the same inequality chain). -/
example : windowsClear 2019 wBoth 7 := by
  have h6 : lmh 2019 6 = 4344 := by
    have := (last_month_hour_closed_form 2019 6 (by norm_num)).2 (by decide) 0 6 (by norm_num)
    simpa [daysBefore, commonYear] using this
  have h7 : lmh 2019 7 = 5088 := by
    have := (last_month_hour_closed_form 2019 7 (by norm_num)).2 (by decide) 0 7 (by norm_num)
    simpa [daysBefore, commonYear] using this
  unfold windowsClear
  simp only [show (7 : Int) - 1 = 6 by norm_num, h6, h7, coolWindow, heatWindow, noonOf, wBoth]
  norm_num

/-- Non-vacuity of the closed forms: month 27 (March of year 3) ends at hour 19680 = 2·8760 + 24·90,
    starts at hour 18937 = last hour of month 26 + 1, and month 24 is a December. -/
example : Gen.lastMonthHour 27 [2019] = .ok 19680 ∧ Gen.firstMonthHour 27 [2019] = .ok 18937 ∧
    Gen.monthdays 24 2019 = .ok 31 := by
  have hy : Int.fmod (2019 : Int) 4 ≠ 0 := by decide
  have a := (last_month_hour_closed_form 2019 27 (by norm_num)).2 hy 2 3 (by norm_num)
  have b := (last_month_hour_closed_form 2019 26 (by norm_num)).2 hy 2 2 (by norm_num)
  have a' : lmh 2019 27 = 19680 := by simpa [daysBefore, commonYear] using a
  have b' : lmh 2019 26 = 18936 := by simpa [daysBefore, commonYear] using b
  refine ⟨?_, ?_, ?_⟩
  · rw [(last_month_hour_closed_form 2019 27 (by norm_num)).1, a']
  · rw [(first_eq_prev_last_plus_one 2019 27 (by norm_num)).1, show (27 : Int) - 1 = 26 by norm_num, b']; rfl
  · rw [monthdays_closed_form 2019 hy 24 (by norm_num)]; rfl

/-- Witness for the last conjunct of `windowsClear`: January, both peaks on day 0, a 30 h extraction
    duration (window [13, 43], well inside the month, abutting the rejection window [11, 13]).
    `first_hour_heating_peak = 13 − 15 < 0` is clamped to 1e-6, the extraction pulse is emitted up to
    hour 45.000001 instead of 43: the emitted axis is not the one the record describes. -/
def wClampH : MonthRec := { cl := 100, hl := 900, pcl := 20, phl := 30, dayc := 0, dayh := 0, dcl := 2, dhl := 30 }

theorem clamped_axis_differs :
    ∃ segs, emitMonth 2019 wClampH true 1 = .ok segs ∧
      segs.map Prod.snd = [11, 13, 45 + Gen.hybridDelta, 744] ∧
      (heatWindow (1 + lmh 2019 (1 - 1)) wClampH).2 = 43 := by
  have hm : mdays 2019 1 = 31 := mdays_one 2019
  have hrun : MonthRuns 2019 wClampH true 1 := by
    intro _; rw [hm]; simp only [pulseHours, wClampH]; norm_num
  have h744 : lmh 2019 1 = 744 := by
    rw [lmh_succ 2019 1 (by norm_num), show (1 : Int) - 1 = 0 by norm_num, lmh_zero, hm]; norm_num
  refine ⟨_, emitMonth_runs 2019 wClampH true 1 (by norm_num) hrun, ?_, ?_⟩
  · rw [show (1 : Int) - 1 = 0 by norm_num, lmh_zero, h744]
    simp only [peakHours, monthSegments, wClampH, Gen.HRS_IN_DAY, Gen.noonOffset, Gen.hybridDelta]
    norm_num
  · rw [show (1 : Int) - 1 = 0 by norm_num, lmh_zero]
    simp only [heatWindow, noonOf, wClampH]; norm_num

/-- A base year in which every month is `wBoth`: all hypotheses of `strictly_increasing`,
    `axis_ends_at_horizon` … hold for a 27-month horizon (a non-multiple of 12). -/
def wBase : List MonthRec := MonthRec.null :: List.replicate 12 wBoth

theorem wBase_rec (i : Int) : recAt wBase i = wBoth := by
  obtain ⟨a, b⟩ := monthIndex_range i
  unfold recAt
  generalize monthIndex i = k at a b
  obtain ⟨k, rfl⟩ := Int.eq_ofNat_of_zero_le (by omega : 0 ≤ k)
  simp only [Int.toNat_natCast]
  have : k ≤ 12 := by omega
  have : 1 ≤ k := by omega
  interval_cases k <;> rfl

example : ∃ seq, processMonthLoads 2019 wBase 1 27 = .ok seq ∧ lastHour 0 seq = 19680 := by
  obtain ⟨seq, h1, _, h3⟩ := axis_ends_at_horizon 2019 wBase rfl 1 27 (by norm_num) (by norm_num) (by norm_num) (by
    intro i _ _
    rw [wBase_rec]
    intro _
    have hmd := mdays_ge 2019 i
    have hmdR : (28 : Rat) ≤ (mdays 2019 i : Rat) := by exact_mod_cast hmd
    simp only [pulseHours, wBoth]; intro h; norm_num at h; linarith)
  refine ⟨seq, h1, ?_⟩
  have := h3 (by decide) 2 3 (by norm_num) (by norm_num)
  rw [this]; simp [daysBefore, commonYear]

end GHEVerif.C08
