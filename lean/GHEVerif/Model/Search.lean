/-
  Model of the design searches of ghedesigner/search_routines.py and of
  utilities.solve_root / GHE.size (DESIGN.md §3.0).

  The whole thermal simulation is abstracted into an oracle `E : Nat → Rat → Rat`
  (candidate index, height ↦ excess temperature); the model is exactly what the Python does
  with those values: which candidates it evaluates, in which order, what it remembers, and what
  it returns or raises.  `sign` and `check_bracket` are the definitions regenerated from
  utilities.py (GHEVerif.Gen.Funcs).  Core Lean only.
-/
import GHEVerif.Model.Py
import GHEVerif.Gen.Funcs

namespace GHEVerif.Search
open GHEVerif

/-- Which exit of `Bisection1D.search` produced the selection. -/
inductive Path where
  | bracket0      -- "Size between min and max of lower bound in domain."
  | bisection     -- the integer bisection followed by the final pick
  | tooSmallCont  -- loads too small, `continue_if_design_unmet`: smallest field at min height
  | tooBigCont    -- loads too large, `continue_if_design_unmet`: largest allowed field at max height
  deriving Repr, DecidableEq, Inhabited

inductive Outcome where
  | selected (idx : Nat) (h : Rat) (path : Path)
  | valueError                 -- `raise ValueError("Search failed.")` (or `max([])`)
  | pyError (e : PyErr)        -- any other exception type
  deriving Repr, DecidableEq, Inhabited

structure Cfg where
  cap : Option Nat
  cont : Bool
  maxIter : Nat
  minH : Rat
  maxH : Rat
  deriving Repr

/-- A Python dict with `Nat` keys, in insertion order. -/
abbrev Dict := List (Nat × Rat)

def dictSet : Dict → Nat → Rat → Dict
  | [], k, v => [(k, v)]
  | (k', v') :: rest, k, v => if k' = k then (k, v) :: rest else (k', v') :: dictSet rest k v

/-- Bisection state: the bracket, the dict `calculated_temperatures`, and every
    `calculate_excess` call made so far (field index, height), in order. -/
structure St where
  l : Nat
  r : Nat
  mem : Dict
  trace : List (Nat × Rat)
  deriving Repr

/-- `x_r_idx = [idx for idx, x in enumerate(counts) if x < cap][-1]`, or `len - 1` without cap.
    `ValueError` when no candidate is below the cap; `IndexError` for an empty list without cap
    (index -1 / 0 is then used and raises). -/
def upperIndex (counts : List Nat) : Option Nat → Py Nat
  | none => if counts.length = 0 then .error .indexError else .ok (counts.length - 1)
  | some c =>
      match ((List.range counts.length).filter (fun i => decide (counts.getD i 0 < c))).getLast? with
      | some i => .ok i
      | none => .error .valueError        -- since the F17 repair: `raise ValueError("Search failed: no candidate …")`

/-- `ceil((x_l_idx + x_r_idx) / 2)`. -/
def mid (s : St) : Nat := (s.l + s.r + 1) / 2

/-- State after evaluating candidate `c` at max height and comparing its sign `cs` with the sign
    at the left end. -/
def stepSt (E : Nat → Rat → Rat) (maxH : Rat) (lsign : Int) (s : St) (c : Nat) (cs : Int) : St :=
  { l := if cs = lsign then c else s.l,
    r := if cs = lsign then s.r else c,
    mem := dictSet s.mem c (E c maxH),
    trace := s.trace ++ [(c, maxH)] }

/-- State after evaluating candidate `c` when `sign` then raises. -/
def evalSt (E : Nat → Rat → Rat) (maxH : Rat) (s : St) (c : Nat) : St :=
  { s with mem := dictSet s.mem c (E c maxH), trace := s.trace ++ [(c, maxH)] }

/-- The `while i < max_iter` loop.  Returns the iteration count `i`, the final state and the
    exception, if `sign` raised (`ZeroDivisionError` on an excess of exactly 0); the evaluation that
    made it raise is already in the trace. -/
def loop (E : Nat → Rat → Rat) (maxH : Rat) (lsign : Int) : Nat → Nat → St → Nat × St × Option PyErr
  | 0, i, s => (i, s, none)
  | fuel + 1, i, s =>
    if mid s = s.l ∨ mid s = s.r then (i, s, none) else
    match Gen.sign (E (mid s) maxH) with
    | .error e => (i, evalSt E maxH s (mid s), some e)
    | .ok cs => loop E maxH lsign fuel (i + 1) (stepSt E maxH lsign s (mid s) cs)

/-- lexicographic `<` on (count, value): the order `sorted(zip(num_bh, values))` uses. -/
def lexLt (a b : Nat × Rat) : Bool := decide (a.1 < b.1) || (decide (a.1 = b.1) && decide (a.2 < b.2))

/-- First entry with negative value in `sorted(zip(num_bh, values))` = the lexicographic minimum
    among the entries with negative value. -/
def lexStep (acc : Option (Nat × Rat)) (x : Nat × Rat) : Option (Nat × Rat) :=
  if x.2 < 0 then
    (match acc with
     | none => some x
     | some m => if lexLt x m then some x else some m)
  else acc

def lexMinNeg (l : List (Nat × Rat)) : Option (Nat × Rat) := l.foldl lexStep none

/-- `max(l)` for a non-empty list (first maximal element wins; values only). -/
def maxOf : List Rat → Option Rat
  | [] => none
  | x :: rest => some (rest.foldl (fun m y => if m < y then y else m) x)

/-- `values.index(v)` then `keys[idx]`. -/
def keyOfValue (d : Dict) (v : Rat) : Option Nat := (d.find? (fun kv => kv.2 = v)).map (·.1)

/-- The key carried through `sorted(zip(num_bh, values, keys))`: among the remembered candidates with
    count and excess equal to `m`, the smallest key (since the F32 repair; before it the excess was looked
    up by value afterwards, `values.index`, which returns the first-evaluated candidate with that value). -/
def keyOfPair (counts : List Nat) (d : Dict) (m : Nat × Rat) : Option Nat :=
  ((d.filter (fun kv => decide (counts.getD kv.1 0 = m.1) && decide (kv.2 = m.2))).map (·.1)).min?

/-- The tail of `Bisection1D.search` after the loop: final pick over `calculated_temperatures`. -/
def finalPick (counts : List Nat) (mem : Dict) : Option Nat :=
  let values := mem.map (·.2)
  match maxOf (values.filter (fun v => decide (v ≤ 0))) with
  | none => none                                  -- max([]) raises ValueError
  | some eoi =>
    let pairs := mem.map (fun kv => (counts.getD kv.1 0, kv.2))
    match lexMinNeg pairs with
    | some m => keyOfPair counts mem m            -- the sorted scan stops at a negative excess: its key
    | none => keyOfValue mem eoi                  -- no negative excess: `keys[values.index(max(non-positive))]`

/-- The three initial evaluations `[(0,minH), (0,maxH), (xr,maxH)]`. -/
def tr0 (cfg : Cfg) (xr : Nat) : List (Nat × Rat) := [(0, cfg.minH), (0, cfg.maxH), (xr, cfg.maxH)]

/-- `calculated_temperatures` after the initial evaluations. -/
def mem0 (E : Nat → Rat → Rat) (cfg : Cfg) (xr : Nat) : Dict :=
  dictSet (dictSet [] 0 (E 0 cfg.maxH)) xr (E xr cfg.maxH)

/-- The five-way branch before the loop: either an early outcome, or "go on with the bisection"
    carrying the sign at the left end. -/
def pre (E : Nat → Rat → Rat) (cfg : Cfg) (xr : Nat) : Sum Outcome Int :=
  let t0l := E 0 cfg.minH
  let t0u := E 0 cfg.maxH
  let tm1 := E xr cfg.maxH
  match Gen.sign t0l, Gen.sign t0u with
  | .error e, _ => .inl (.pyError e)
  | _, .error e => .inl (.pyError e)
  | .ok s0l, .ok s0u =>
    if Gen.checkBracket s0l s0u then .inl (.selected 0 cfg.maxH .bracket0) else
    match Gen.sign tm1 with
    | .error e => .inl (.pyError e)
    | .ok sm1 =>
      if Gen.checkBracket s0u sm1 then .inr s0u
      else if t0l < 0 then .inl (if cfg.cont then .selected 0 cfg.minH .tooSmallCont else .valueError)
      else if tm1 > 0 then .inl (if cfg.cont then .selected xr cfg.maxH .tooBigCont else .valueError)
      else .inr s0u

/-- After the loop: the extra evaluation of candidate `i` (recorded since the F12 repair) and the
    final pick. -/
def finish (counts : List Nat) (E : Nat → Rat → Rat) (cfg : Cfg) (i : Nat) (s : St) :
    Outcome × List (Nat × Rat) :=
  if counts.length ≤ i then (.pyError .indexError, s.trace) else
  let mem := dictSet s.mem i (E i cfg.maxH)
  let trace := s.trace ++ [(i, cfg.maxH)]
  match finalPick counts mem with
  | none => (.valueError, trace)
  | some k => (.selected k cfg.maxH .bisection, trace)

/-- `Bisection1D.search()`.  Returns the outcome and the full evaluation trace. -/
def bisect1D (counts : List Nat) (E : Nat → Rat → Rat) (cfg : Cfg) : Outcome × List (Nat × Rat) :=
  match upperIndex counts cfg.cap with
  | .error e => (if e = .valueError then .valueError else .pyError e, [])
  | .ok xr =>
    match pre E cfg xr with
    | .inl o => (o, tr0 cfg xr)
    | .inr lsign =>
      match loop E cfg.maxH lsign cfg.maxIter 0 { l := 0, r := xr, mem := mem0 E cfg xr, trace := tr0 cfg xr } with
      | (_, s, some e) => (.pyError e, s.trace)
      | (i, s, none) => finish counts E cfg i s

/-! ### Bisection2D and BisectionZD (nested candidate lists)

  `nc : List (List Nat)` holds the borehole counts of every field of every inner list;
  `E2 l i h` is the excess of field `i` of list `l` at height `h`.  The outer domain is
  `[nested[0][0]] ++ [cdn[-1] for cdn in nested]`.
-/

/-- Borehole counts of the outer domain; `none` where Python raises IndexError (an empty list). -/
def outerCounts (nc : List (List Nat)) : Option (List Nat) := do
  let first ← nc.head?
  let f0 ← first.head?
  let lasts ← nc.mapM (fun l => l.getLast?)
  pure (f0 :: lasts)

/-- Position in the nested lists of outer candidate `j`. -/
def outerPos (nc : List (List Nat)) (j : Nat) : Nat × Nat :=
  if j = 0 then (0, 0) else (j - 1, (nc.getD (j - 1) []).length - 1)

def outerE (nc : List (List Nat)) (E2 : Nat → Nat → Rat → Rat) : Nat → Rat → Rat :=
  fun j h => E2 (outerPos nc j).1 (outerPos nc j).2 h

/-- The real code raises IndexError at the first evaluation whose `fieldDescriptors[idx]` does not
    exist; everything before is identical.  `descLen` is the length of the descriptor list in
    force during the search. -/
def truncDesc (descLen : Nat) (r : Outcome × List (Nat × Rat)) : Outcome × List (Nat × Rat) :=
  match r.2.findIdx? (fun t => decide (descLen ≤ t.1)) with
  | none => r
  | some n => (.pyError .indexError, r.2.take n)

/-- Python `nested[key - 1]` (negative index wraps to the last list). -/
def pyPrev (n key : Nat) : Option Nat :=
  if n = 0 then none else if key = 0 then some (n - 1) else if key - 1 < n then some (key - 1) else none

/-- Trace entries are tagged with the list they belong to (`none` = outer domain). -/
abbrev Trace2 := List (Option Nat × Nat × Rat)

def tag (l : Option Nat) (tr : List (Nat × Rat)) : Trace2 := tr.map (fun t => (l, t.1, t.2))

/-- Outcome of a nested search: the selected (list, field, height at which the GHE was left). -/
inductive Outcome2 where
  | selected (l : Nat) (idx : Nat) (h : Rat)
  | valueError
  | pyError (e : PyErr)
  deriving Repr, DecidableEq, Inhabited

/-- `Bisection2D.__init__`: outer search (with the descriptors of inner list 0!), then the search
    of `nested[selection_key - 1]`. -/
def bisect2D (nc : List (List Nat)) (E2 : Nat → Nat → Rat → Rat) (cfg : Cfg) : Outcome2 × Trace2 :=
  match outerCounts nc with
  | none => (.pyError .indexError, [])
  | some oc =>
    let r := truncDesc (nc.getD 0 []).length (bisect1D oc (outerE nc E2) cfg)
    match r.1 with
    | .valueError => (.valueError, tag none r.2)
    | .pyError e => (.pyError e, tag none r.2)
    | .selected key _ _ =>
      match pyPrev nc.length key with
      | none => (.pyError .indexError, tag none r.2)
      | some l =>
        let inner := nc.getD l []
        let r2 := bisect1D inner (E2 l) cfg
        let tr := tag none r.2 ++ tag (some l) r2.2
        match r2.1 with
        | .valueError => (.valueError, tr)
        | .pyError e => (.pyError e, tr)
        | .selected k h _ => (.selected l k h, tr)

/-- State of the `while` loop of `search_successive`: list index `i`, `old_height`, the per-list
    results so far `(list, selected idx, total drilling)` in insertion order, and the trace. -/
structure ZSt where
  i : Nat
  old : Rat
  done : List (Nat × Nat × Rat)
  trace : Trace2
  deriving Repr

def zdLoop (nc : List (List Nat)) (E2 : Nat → Nat → Rat → Rat) (sz : Nat → Nat → Rat) (cfg : Cfg)
    (maxI : Nat) : Nat → ZSt → ZSt × Option PyErr
  | 0, st => (st, none)
  | fuel + 1, st =>
    if ¬ (st.i < nc.length ∧ st.i < maxI) then (st, none) else
    let inner := nc.getD st.i []
    let r := bisect1D inner (E2 st.i) cfg
    let tr := st.trace ++ tag (some st.i) r.2
    match r.1 with
    | .valueError => ({ st with trace := tr }, none)              -- `except ValueError: break`
    | .pyError e => ({ st with trace := tr }, some e)
    | .selected k _ _ =>
      let total : Rat := (inner.getD k 0 : Nat) * sz st.i k
      let st' : ZSt := { i := st.i, old := st.old, done := st.done ++ [(st.i, k, total)], trace := tr }
      if st.old < total then (st', none)
      else zdLoop nc E2 sz cfg maxI fuel { st' with i := st.i + 1, old := total }

/-- `min(values)` then `values.index(min)`: first entry with the smallest total drilling. -/
def argMinTotal : List (Nat × Nat × Rat) → Option (Nat × Nat × Rat)
  | [] => none
  | x :: rest => some (rest.foldl (fun m y => if y.2.2 < m.2.2 then y else m) x)

/-- `BisectionZD.__init__` + `search_successive` (after the F16 repair the final field is the one
    the 1D search of the chosen list selected). -/
def bisectZD (nc : List (List Nat)) (E2 : Nat → Nat → Rat → Rat) (sz : Nat → Nat → Rat) (cfg : Cfg) :
    Outcome2 × Trace2 :=
  match outerCounts nc with
  | none => (.pyError .indexError, [])
  | some oc =>
    let r := bisect1D oc (outerE nc E2) cfg
    match r.1 with
    | .valueError => (.valueError, tag none r.2)
    | .pyError e => (.pyError e, tag none r.2)
    | .selected key _ _ =>
      let start := if key > 0 then key - 1 else key
      let (st, err) := zdLoop nc E2 sz cfg (start + 7) (nc.length + 1)
        { i := start, old := 99999, done := [], trace := tag none r.2 }
      match err with
      | some e => (.pyError e, st.trace)
      | none =>
        match argMinTotal st.done with
        | none => (.valueError, st.trace)                          -- min([]) raises ValueError
        | some (l, k, _) => (.selected l k (sz l k), st.trace)

/-! ### RowWiseModifiedBisectionSearch.search

  The field generated for a target spacing is a function of the spacing (the generator is
  deterministic), so the oracle is indexed by spacing: `Es s` excess at max height of the field
  generated at spacing `s`, `nb s` its borehole count, `szs s` its sized height.  In the
  borehole-removal branch `Esub n` is the excess of the sub-field with `n` boreholes and `E1` that of
  a single borehole.
-/

structure RWCfg where
  start : Rat          -- min_spacing  (densest field: "upper field")
  stop : Rat           -- max_spacing  ("lower field")
  step : Rat           -- spacing_step
  cont : Bool
  maxIter : Nat
  /-- Number of sweep targets after `spacing_high` itself: `while current_spacing <= spacing_high + step:
      … current_spacing += step / 10` gives 10 in exact arithmetic; the float accumulation sometimes
      overshoots the end and gives 9 (observed on real runs; the harness passes what the run did). -/
  nExtra : Nat := 10
  deriving Repr

/-- What the RowWise search returns: a generated field (by spacing), or a sub-field of the
    largest-spacing field with `n` boreholes. -/
inductive RWSel where
  | atSpacing (s : Rat)
  | sub (n : Nat)            -- `starting_field[nbh_start - n:]`, n boreholes of the lower field
  | single                   -- one borehole of the lower field ("1X1")
  deriving Repr, DecidableEq, Inhabited

inductive RWOutcome where
  | selected (f : RWSel) (escape : Bool)
  | valueError
  deriving Repr, DecidableEq, Inhabited

inductive RWEval where
  | sp (s : Rat) | one | subf (n : Nat)
  deriving Repr, DecidableEq, Inhabited

structure RWBis where
  hi : Rat
  lo : Rat
  lowE : Rat
  highE : Rat
  m : Rat
  trace : List RWEval
  deriving Repr

/-- The spacing bisection `while i < max_iter`. -/
def rwBisect (Es : Rat → Rat) : Nat → RWBis → RWBis
  | 0, b => b
  | fuel + 1, b =>
    let e1 := Es b.m
    let b1 : RWBis := if e1 ≤ 0 then { b with hi := b.m, highE := e1 } else { b with lo := b.m, lowE := e1 }
    let b2 : RWBis := { b1 with m := (b1.lo + b1.hi) / 2, trace := b.trace ++ [.sp b.m] }
    if ratAbs (b2.lowE - b2.highE) < 1 / 10000000000 then b2 else rwBisect Es fuel b2

/-- The exhaustive sweep over `target_spacings` keeping the feasible field of least total
    drilling; `best = none` only before the first target. -/
def rwSweep (Es : Rat → Rat) (nb : Rat → Nat) (szs : Rat → Rat) :
    List Rat → Option (Rat × Rat) → Option (Rat × Rat)
  | [], best => best
  | ts :: rest, best =>
    let e := Es ts
    let total : Rat := szs ts * (nb ts : Nat)
    let best' := match best with
      | none => some (ts, total)
      | some (bs, bt) => if e ≤ 0 ∧ total < bt then some (ts, total) else some (bs, bt)
    rwSweep Es nb szs rest best'

structure RWRem where
  nmax : Nat
  nmin : Nat
  sel : RWSel
  trace : List RWEval
  deriving Repr

/-- The borehole-removal bisection on the number of boreholes. -/
def rwRemove (Esub : Nat → Rat) : Nat → RWRem → RWRem
  | 0, r => r
  | fuel + 1, r =>
    let n := (r.nmax + r.nmin) / 2
    let e := Esub n
    let r1 : RWRem := if e ≤ 0 then { r with nmax := n, sel := .sub n } else { r with nmin := n }
    let r2 : RWRem := { r1 with trace := r.trace ++ [.subf n] }
    if r2.nmax - r2.nmin ≤ 1 then r2 else rwRemove Esub fuel r2

def rowwiseSearch (Es : Rat → Rat) (nb : Rat → Nat) (szs : Rat → Rat) (E1 : Rat) (Esub : Nat → Rat)
    (c : RWCfg) : RWOutcome × List RWEval :=
  let tU := Es c.start
  let tL := Es c.stop
  let tr0 : List RWEval := [.sp c.start, .sp c.stop]
  if tU > 0 ∧ tL > 0 then
    (if c.cont then .selected (.atSpacing c.start) true else .valueError, tr0)
  else if tU < 0 ∧ 0 < tL then
    let b := rwBisect Es c.maxIter
      { hi := c.start, lo := c.stop, lowE := tU, highE := tL, m := (c.stop + c.start) / 2, trace := tr0 }
    let change := c.step / 10          -- (spacing_l - current_spacing) / 10 with spacing_l = step + high
    let targets := (List.range (c.nExtra + 1)).map (fun (k : Nat) => b.hi + (k : Nat) * change)
    match rwSweep Es nb szs targets none with
    | none => (.valueError, b.trace)         -- unreachable: the target list is never empty
    | some (s, _) => (.selected (.atSpacing s) false, b.trace ++ targets.map .sp)
  else if tL < 0 ∧ tU < 0 then
    if E1 ≤ 0 then (.selected .single false, tr0 ++ [.one])
    else
      let n := nb c.stop
      let r := rwRemove Esub c.maxIter { nmax := n, nmin := 1, sel := .atSpacing c.stop, trace := tr0 ++ [.one] }
      (.selected r.sel false, r.trace)
  else (.valueError, tr0)

/-! ### utilities.solve_root and GHE.size -/

/-- Result of `solve_root`: which branch, and the returned abscissa. -/
inductive RootKind where
  | bracketed | clampedLow | clampedHigh | unchanged
  deriving Repr, DecidableEq, Inhabited

/-- `int(v / abs(v))`. -/
def sgn (v : Rat) : Py Int := (pyDiv v (ratAbs v)).map pyTrunc

/-- `solve_root(x, f, lower, upper)`: `brent` stands for scipy's `brentq` on the bracket. -/
def solveRoot (x : Rat) (f : Rat → Rat) (lo hi : Rat) (brent : Rat) : Py (RootKind × Rat) :=
  match sgn (f lo), sgn (f hi) with
  | .error e, _ => .error e
  | _, .error e => .error e
  | .ok sm, .ok sp =>
    if sp ≠ sm then .ok (.bracketed, brent)
    else if sp = -1 ∧ sm = -1 then .ok (.clampedLow, lo)
    else if sp = 1 ∧ sm = 1 then .ok (.clampedHigh, hi)
    else .ok (.unchanged, x)

/-! ### line protocol

  `b1d <cap|-> <cont 0|1> <maxIter> <minH> <maxH> <n> <count_0> … <count_{n-1}> <elo_0> … <elo_{n-1}> <ehi_0> … <ehi_{n-1}>`
  with `elo_i = E i minH`, `ehi_i = E i maxH` (rationals).  Answer:
  `<outcome> | <trace as idx:L|H …>`.
-/
def showOutcome (cfg : Cfg) : Outcome → String
  | .selected i h p =>
      let hs := if h = cfg.maxH then "H" else if h = cfg.minH then "L" else showRat h
      let ps := match p with | .bracket0 => "bracket0" | .bisection => "bisection" | .tooSmallCont => "tooSmallCont" | .tooBigCont => "tooBigCont"
      s!"selected {i} {hs} {ps}"
  | .valueError => "ValueError"
  | .pyError e => "raise " ++ e.name

def parseRats (l : List String) : Option (List Rat) := l.mapM parseRat?
def parseNats (l : List String) : Option (List Nat) := l.mapM String.toNat?

def cmd : List String → Option String
  | "b1d" :: cap :: cont :: mi :: minH :: maxH :: n :: rest => some <| Id.run do
      let some n := n.toNat? | return "bad-arg"
      let some mi := mi.toNat? | return "bad-arg"
      let some minH := parseRat? minH | return "bad-arg"
      let some maxH := parseRat? maxH | return "bad-arg"
      let capv : Option Nat := if cap = "-" then none else cap.toNat?
      if cap ≠ "-" ∧ capv.isNone then return "bad-arg"
      if rest.length ≠ 3 * n then return "bad-arg"
      let some counts := parseNats (rest.take n) | return "bad-arg"
      let some elo := parseRats ((rest.drop n).take n) | return "bad-arg"
      let some ehi := parseRats (rest.drop (2 * n)) | return "bad-arg"
      let cfg : Cfg := { cap := capv, cont := cont = "1", maxIter := mi, minH := minH, maxH := maxH }
      let E : Nat → Rat → Rat := fun i h => if h = maxH then ehi.getD i 0 else elo.getD i 0
      let (o, tr) := bisect1D counts E cfg
      let trs := " ".intercalate (tr.map (fun (i, h) => s!"{i}:{if h = maxH then "H" else "L"}"))
      return s!"{showOutcome cfg o} | {trs}"
  | "rw" :: start :: stop :: step :: cont :: mi :: e1 :: nsp :: rest => some <| Id.run do
      let some start := parseRat? start | return "bad-arg"
      let some stop := parseRat? stop | return "bad-arg"
      let some step := parseRat? step | return "bad-arg"
      -- `max_iter` or `max_iter:extra` (number of sweep targets after spacing_high; default 10)
      let some miN := ((mi.splitOn ":").headD "").toNat? | return "bad-arg"
      let some nExtra := (match (mi.splitOn ":").drop 1 with | [] => some 10 | x :: _ => x.toNat?) | return "bad-arg"
      let mi := miN
      let some e1 := parseRat? e1 | return "bad-arg"
      let some nsp := nsp.toNat? | return "bad-arg"
      let spToks := rest.take (4 * nsp)
      let rest2 := rest.drop (4 * nsp)
      let some nsub := (rest2.headD "").toNat? | return "bad-arg"
      let some esub := parseRats (rest2.drop 1) | return "bad-arg"
      if esub.length ≠ nsub then return "bad-arg"
      let rec rows : List String → Option (List (Rat × Nat × Rat × Rat))
        | a :: b :: c :: d :: t => do
            let a ← parseRat? a; let b ← b.toNat?; let c ← parseRat? c; let d ← parseRat? d
            let r ← rows t
            pure ((a, b, c, d) :: r)
        | [] => some []
        | _ => none
      let some tbl := rows spToks | return "bad-arg"
      let look (sp : Rat) : Option (Rat × Nat × Rat × Rat) := tbl.find? (fun r => r.1 = sp)
      let Es : Rat → Rat := fun sp => match look sp with | some r => r.2.2.1 | none => 424242
      let nb : Rat → Nat := fun sp => match look sp with | some r => r.2.1 | none => 0
      let szs : Rat → Rat := fun sp => match look sp with | some r => r.2.2.2 | none => 0
      let c : RWCfg := { start := start, stop := stop, step := step, cont := cont = "1", maxIter := mi, nExtra := nExtra }
      let (o, tr) := rowwiseSearch Es nb szs e1 (fun n => esub.getD (n - 1) 424242) c
      let showEv : RWEval → String
        | .sp sp => (if (look sp).isNone then "?" else "") ++ "s" ++ showRat sp
        | .one => "one"
        | .subf n => s!"sub{n}"
      let os := match o with
        | .selected (.atSpacing sp) esc => s!"selected s{showRat sp}{if esc then " escape" else ""}"
        | .selected (.sub n) _ => s!"selected sub{n}"
        | .selected .single _ => "selected single"
        | .valueError => "ValueError"
      return s!"{os} | {" ".intercalate (tr.map showEv)}"
  | ["solveroot", x, flo, fhi, lo, hi, brent] => some <| Id.run do
      let some x := parseRat? x | return "bad-arg"
      let some flo := parseRat? flo | return "bad-arg"
      let some fhi := parseRat? fhi | return "bad-arg"
      let some lo := parseRat? lo | return "bad-arg"
      let some hi := parseRat? hi | return "bad-arg"
      let some brent := parseRat? brent | return "bad-arg"
      match solveRoot x (fun h => if h = lo then flo else fhi) lo hi brent with
      | .error e => return "raise " ++ e.name
      | .ok (k, v) =>
        let ks := match k with | .bracketed => "bracketed" | .clampedLow => "clampedLow" | .clampedHigh => "clampedHigh" | .unchanged => "unchanged"
        return s!"{ks} {showRat v}"
  | kind :: cap :: cont :: mi :: minH :: maxH :: nl :: rest =>
      if kind ≠ "b2d" ∧ kind ≠ "bzd" then none else some <| Id.run do
      let some nl := nl.toNat? | return "bad-arg"
      let some mi := mi.toNat? | return "bad-arg"
      let some minH := parseRat? minH | return "bad-arg"
      let some maxH := parseRat? maxH | return "bad-arg"
      let capv : Option Nat := if cap = "-" then none else cap.toNat?
      if cap ≠ "-" ∧ capv.isNone then return "bad-arg"
      let some lens := parseNats (rest.take nl) | return "bad-arg"
      let tot := lens.foldl (· + ·) 0
      let rest := rest.drop nl
      let ntab := if kind = "bzd" then 3 else 2
      if rest.length ≠ tot + ntab * tot then return "bad-arg"
      let some flatC := parseNats (rest.take tot) | return "bad-arg"
      let some flatLo := parseRats ((rest.drop tot).take tot) | return "bad-arg"
      let some flatHi := parseRats ((rest.drop (2 * tot)).take tot) | return "bad-arg"
      let some flatSz := parseRats (rest.drop (3 * tot)) | return "bad-arg"
      let offs : List Nat := (lens.foldl (fun (acc : List Nat × Nat) n => (acc.1 ++ [acc.2], acc.2 + n)) ([], 0)).1
      let nc : List (List Nat) := (List.range nl).map (fun l => (flatC.drop (offs.getD l 0)).take (lens.getD l 0))
      let at' (tbl : List Rat) (l i : Nat) : Rat := tbl.getD (offs.getD l 0 + i) 0
      let E2 : Nat → Nat → Rat → Rat := fun l i h => if h = maxH then at' flatHi l i else at' flatLo l i
      let cfg : Cfg := { cap := capv, cont := cont = "1", maxIter := mi, minH := minH, maxH := maxH }
      let (o, tr) := if kind = "bzd" then bisectZD nc E2 (fun l i => at' flatSz l i) cfg else bisect2D nc E2 cfg
      let showPos (t : Option Nat × Nat × Rat) : String :=
        let (l, i) := match t.1 with | none => outerPos nc t.2.1 | some l => (l, t.2.1)
        s!"{l}.{i}:{if t.2.2 = maxH then "H" else "L"}"
      let os := match o with
        | .selected l k h => s!"selected {l} {k} {if kind = "bzd" then showRat h else if h = maxH then "H" else "L"}"
        | .valueError => "ValueError"
        | .pyError e => "raise " ++ e.name
      return s!"{os} | {" ".intercalate (tr.map showPos)}"
  | _ => none

end GHEVerif.Search
