/-
  Model of the conversion of a double U-tube / coaxial exchanger to the equivalent single
  U-tube used by the short-time model (ghedesigner/borehole_heat_exchangers.py:
  `MultipleUTube.u_tube_volumes`, `CoaxialPipe.concentric_tube_volumes`,
  `GHEDesignerBoreholeWithMultiplePipes.equivalent_single_u_tube`,
  `.match_effective_borehole_resistance`, `*.to_single`; ghedesigner/utilities.py: `solve_root`).

  The definitions are written ONCE, polymorphically in the scalar type `K` and in the
  transcendental operations `Ops K = {pi, sqrt, log, ofRat}`.  They are instantiated
    * at `Float` (this file, `cmd`) to be run against the real code on the same inputs,
    * at `Rat`   (this file, `cmd`) for the parts that are pure `+ - * / <` (sign logic of
      `solve_root`, the "enlarge the borehole" rule),
    * at `ℝ`     (Lemmas/EquivTube.lean, Props/C15.lean) to state and prove the theorems.
  Third-party parts are parameters: the convection correlation `hConv` (pygfunction), Brent's
  method `brent` (scipy.optimize.brentq: returns the root AND the argument of its last objective
  evaluation, because the code relies on that side effect), and the multipole effective borehole
  resistance `Rb kGrout Rfp` of the equivalent tube (pygfunction).

  The model transcribes what the code DOES:
    * `solve_root` evaluates `int(v/abs(v))` at both bracket ends: an objective value of exactly 0
      raises (ZeroDivisionError for Python floats, ValueError via NaN for numpy scalars);
    * the value returned by `solve_root` for the pipe conductivity is discarded
      (`Gen.pipeSolveResultUsed = false`): the pipe keeps the conductivity of the objective's
      LAST EVALUATION (the upper bracket end whenever no root is bracketed);
    * neither objective refreshes pygfunction's delta-circuit (`Gen.pipeObjectiveRefreshes`,
      `Gen.groutObjectiveRefreshes`): the effective borehole resistance of the result is the one
      computed when the preliminary tube was constructed (finding F9).
  Constants (tube count 2, brackets /100 ·10, [0.01, 7], spacing /10 and /3) come from
  Gen/EquivTubeConsts.lean, regenerated from the source on every check.  Core Lean only.
-/
import GHEVerif.Model.Py
import GHEVerif.Gen.EquivTubeConsts

namespace GHEVerif.EquivTube
open GHEVerif

/-- The non-algebraic scalar operations. -/
structure Ops (K : Type) where
  pi : K
  sqrt : K → K
  log : K → K
  ofRat : Rat → K

/-- `(vol_fluid, vol_pipe, resist_conv, resist_pipe)` as returned by `u_tube_volumes` /
    `concentric_tube_volumes`. -/
structure Vols (K : Type) where
  volFluid : K
  volPipe : K
  resistConv : K
  resistPipe : K

/-- Geometry of the equivalent single U-tube (before any root solve). -/
structure Geom (K : Type) where
  rIn : K          -- r_p_i_prime
  rOut : K         -- r_p_o_prime
  kPipe0 : K       -- k_p_prime
  rB : K           -- radius of the (possibly enlarged) borehole copy
  spacing : K
  s : K            -- shank spacing handed to place_pipes
  shank : K        -- |x| of the two tube centres: s/2 + r_out
  enlarged : Bool

inductive Branch where
  | brent | lower | upper | unchanged
  deriving DecidableEq, Repr, Inhabited

def Branch.name : Branch → String
  | .brent => "brent" | .lower => "lower" | .upper => "upper" | .unchanged => "unchanged"

/-- Outcome of one `solve_root` call. -/
structure Solve (K : Type) where
  result : K       -- the value `solve_root` returns
  last : K         -- argument of the LAST evaluation of the objective (its side effects persist)
  branch : Branch

/-- The equivalent single U-tube object, as far as C15 looks at it. -/
structure Tube (K : Type) where
  geom : Geom K
  rF : K           -- R_f  (convective resistance of one equivalent tube)
  kPipe : K        -- pipe.k
  rFp : K          -- R_fp attribute (R_f + R_p(pipe.k))
  kGrout : K       -- grout.k and k_g attribute
  circKg : K       -- grout conductivity the delta-circuit was last computed with
  circRfp : K      -- R_fp the delta-circuit was last computed with

/-- What the conversion does that is not determined by the arithmetic: read off the source by the
    translator (`codeFlags`) but explicit so that the theorems cover the repaired variants too. -/
structure Flags where
  numpy : Bool              -- objective values are numpy scalars (0 ⇒ ValueError) or floats (0 ⇒ ZeroDivisionError)
  pipeResultUsed : Bool
  pipeRefresh : Bool
  groutResultUsed : Bool
  groutRefresh : Bool
  deriving Repr, DecidableEq

def codeFlags : Flags :=
  { numpy := true, pipeResultUsed := Gen.pipeSolveResultUsed, pipeRefresh := Gen.pipeObjectiveRefreshes,
    groutResultUsed := Gen.groutSolveResultUsed, groutRefresh := Gen.groutObjectiveRefreshes }

section Generic
variable {K : Type} [Add K] [Sub K] [Mul K] [Div K] [LT K] [LE K] [DecidableLT K] [DecidableLE K]

/-- `TWO_PI = 2.0 * pi`. -/
def twoPi (o : Ops K) : K := o.ofRat 2 * o.pi

/-- `MultipleUTube.u_tube_volumes` (`n = nPipes * 2` tubes). -/
def uTubeVolumes (o : Ops K) (nPipes : Nat) (rIn rOut hF kPipe : K) : Vols K :=
  let n : K := o.ofRat (((nPipes * Gen.tubesPerU : Nat) : Int) : Rat)
  let areaSurfInner := n * o.pi * ((rIn * o.ofRat 2) * (rIn * o.ofRat 2))
  let volFluid := n * o.pi * (rIn * rIn)
  { volFluid := volFluid
    volPipe := n * o.pi * (rOut * rOut) - volFluid
    resistConv := o.ofRat 1 / (hF * areaSurfInner)
    resistPipe := o.log (rOut / rIn) / (n * twoPi o * kPipe) }

/-- `CoaxialPipe.concentric_tube_volumes`; `hFaIn` is `h_f_a_in`, `kOuter` is `pipe.k[1]`. -/
def concentricTubeVolumes (o : Ops K) (rInIn rInOut rOutIn rOutOut hFaIn kOuter : K) : Vols K :=
  let areaSurfOuter := o.pi * o.ofRat 2 * rOutIn
  { volFluid := o.pi * (rInIn * rInIn + rOutIn * rOutIn - rInOut * rInOut)
    volPipe := o.pi * (rInOut * rInOut - rInIn * rInIn + rOutOut * rOutOut - rOutIn * rOutIn)
    resistConv := o.ofRat 1 / (hFaIn * areaSurfOuter)
    resistPipe := o.log (rOutOut / rOutIn) / (twoPi o * kOuter) }

/-- `DoubleUTubeConnType` as far as `calc_mass_flow_pipe` distinguishes it. -/
inductive Conn where
  | series | parallel | unset | other
  deriving DecidableEq, Repr

/-- `calc_mass_flow_pipe`. -/
def massFlowPipe (o : Ops K) (m : K) : Conn → Py K
  | .series | .unset => .ok m
  | .parallel => .ok (m / o.ofRat 2)
  | .other => .error .valueError

/-- The "enlarge the borehole if the tubes do not fit" rule; returns `(r_b, spacing, enlarged)`. -/
def enlarge (o : Ops K) (rb rPo : K) : K × K × Bool :=
  let n : K := o.ofRat ((Gen.eqTubeN : Int) : Rat)
  let spacing := rb * o.ofRat 2 - n * rPo * o.ofRat 2
  if spacing ≤ o.ofRat 0 then
    let rb1 := rb - spacing
    let spacing' := rb1 * o.ofRat 2 / o.ofRat Gen.enlargeDiv
    (rb1 + spacing', spacing', true)
  else (rb, spacing, false)

/-- Equal-volume radii, initial pipe conductivity, borehole copy and tube placement of
    `equivalent_single_u_tube`. -/
def equivGeometry (o : Ops K) (rb : K) (v : Vols K) : Geom K :=
  let n : K := o.ofRat ((Gen.eqTubeN : Int) : Rat)
  let rPi := o.sqrt (v.volFluid / (n * o.pi))
  let rPo := o.sqrt ((v.volFluid + v.volPipe) / (n * o.pi))
  let kP := o.log (rPo / rPi) / (twoPi o * n * v.resistPipe)
  let e := enlarge o rb rPo
  let s := e.2.1 / o.ofRat Gen.shankDiv
  { rIn := rPi, rOut := rPo, kPipe0 := kP, rB := e.1, spacing := e.2.1, s := s,
    shank := s / o.ofRat 2 + rPo, enlarged := e.2.2 }

/-- `compute_fluid_resistance(h, r) = 1 / (h * TWO_PI * r)`. -/
def fluidR (o : Ops K) (h r : K) : K := o.ofRat 1 / (h * twoPi o * r)

/-- pygfunction `conduction_thermal_resistance_circular_pipe(r_in, r_out, k)`. -/
def pipeR (o : Ops K) (rIn rOut k : K) : K := o.log (rOut / rIn) / (twoPi o * k)

/-- `int(v / abs(v))`: −1, +1, or the exception raised when `v` is 0. -/
def sgn (o : Ops K) (numpy : Bool) (v : K) : Py Int :=
  if v < o.ofRat 0 then .ok (-1)
  else if o.ofRat 0 < v then .ok 1
  else .error (if numpy then .valueError else .zeroDiv)

/-- Package what Brent's method returned as a `Solve`. -/
def brentOutcome (r : Py (K × K)) : Py (Solve K) :=
  match r with
  | .error e => .error e
  | .ok (r, l) => .ok { result := r, last := l, branch := .brent }

/-- `utilities.solve_root`.  `brent f lo hi` stands for `scipy.optimize.brentq` and returns
    `(root, argument of the last evaluation of f)`; it may raise (no convergence). -/
def solveRoot (o : Ops K) (numpy : Bool) (brent : (K → K) → K → K → Py (K × K))
    (x : K) (f : K → K) (lower upper : Option K) : Py (Solve K) :=
  let lo := lower.getD (x / o.ofRat Gen.solveDefaultLowerDiv)
  let hi := upper.getD (x * o.ofRat Gen.solveDefaultUpperMul)
  match sgn o numpy (f lo) with
  | .error e => .error e
  | .ok sm =>
    match sgn o numpy (f hi) with
    | .error e => .error e
    | .ok sp =>
      if sp ≠ sm then brentOutcome (brent f lo hi)
      else if sp = -1 ∧ sm = -1 then .ok { result := lo, last := hi, branch := .lower }
      else if sp = 1 ∧ sm = 1 then .ok { result := hi, last := hi, branch := .upper }
      else .ok { result := x, last := hi, branch := .unchanged }

/-- The pipe-conductivity objective: `R_fp(k) − (resist_conv + resist_pipe)`. -/
def pipeObjective (o : Ops K) (g : Geom K) (rF target : K) (k : K) : K :=
  (rF + pipeR o g.rIn g.rOut k) - target

/-- The tube `equivalent_single_u_tube` leaves behind once `solve_root` has returned `sol`:
    the objective's side effects persist, so `pipe.k` and `R_fp` are those of its LAST evaluation
    (if the returned value were assigned to `pipe.k`, the attribute `R_fp` would still be the last
    evaluation's); the delta-circuit keeps `(k_g0, R_fp0)` unless the objective refreshes it. -/
def pipeTube (o : Ops K) (fl : Flags) (hConv : K → K) (rb kGrout0 : K) (v : Vols K) (sol : Solve K) : Tube K :=
  let g := equivGeometry o rb v
  let rF := fluidR o (hConv g.rIn) g.rIn
  let rFpLast := rF + pipeR o g.rIn g.rOut sol.last
  { geom := g, rF := rF, kPipe := if fl.pipeResultUsed then sol.result else sol.last, rFp := rFpLast,
    kGrout := kGrout0, circKg := kGrout0,
    circRfp := if fl.pipeRefresh then rFpLast else rF + pipeR o g.rIn g.rOut g.kPipe0 }

/-- `equivalent_single_u_tube`. -/
def equivalentSingleUTube (o : Ops K) (fl : Flags) (brent : (K → K) → K → K → Py (K × K))
    (hConv : K → K) (rb kGrout0 : K) (v : Vols K) : Py (Tube K × Solve K) :=
  let g := equivGeometry o rb v
  let rF := fluidR o (hConv g.rIn) g.rIn
  let target := v.resistConv + v.resistPipe
  (solveRoot o fl.numpy brent g.kPipe0 (pipeObjective o g rF target)
      (some (g.kPipe0 / o.ofRat Gen.kpLowerDiv)) (some (g.kPipe0 * o.ofRat Gen.kpUpperMul))).map
    (fun sol => (pipeTube o fl hConv rb kGrout0 v sol, sol))

/-- Effective borehole resistance reported by the tube: pygfunction's multipole value for the
    delta-circuit currently stored in the object. -/
def Tube.rb (Rb : K → K → K) (t : Tube K) : K := Rb t.circKg t.circRfp

/-- The grout-conductivity objective `R_b − R_b'(k_g)`.  Without a refresh the stored circuit, and
    with it `R_b'`, does not depend on `k_g`. -/
def groutObjective (fl : Flags) (Rb : K → K → K) (rbTarget : K) (t : Tube K) (k : K) : K :=
  rbTarget - (if fl.groutRefresh then Rb k t.rFp else Rb t.circKg t.circRfp)

/-- The tube after `match_effective_borehole_resistance` once `solve_root` has returned `sol`. -/
def groutTube (fl : Flags) (t : Tube K) (sol : Solve K) : Tube K :=
  { t with kGrout := if fl.groutResultUsed then sol.result else sol.last
           circKg := if fl.groutRefresh then sol.last else t.circKg
           circRfp := if fl.groutRefresh then t.rFp else t.circRfp }

/-- `match_effective_borehole_resistance`. -/
def matchEffectiveBoreholeResistance (o : Ops K) (fl : Flags) (brent : (K → K) → K → K → Py (K × K))
    (Rb : K → K → K) (rbTarget : K) (t : Tube K) : Py (Tube K × Solve K) :=
  (solveRoot o fl.numpy brent t.kGrout (groutObjective fl Rb rbTarget t)
      (some (o.ofRat Gen.kgLower)) (some (o.ofRat Gen.kgUpper))).map
    (fun sol => (groutTube fl t sol, sol))

/-- The three exchanger kinds, with what `to_single` reads from them. -/
inductive Bhe (K : Type) where
  | single (t : Tube K)
  | multi (v : Vols K) (rb kGrout rbTarget : K)   -- double U-tube or coaxial, after its `*_volumes()`

/-- `to_single()`.  A single U-tube returns itself. -/
def toSingle (o : Ops K) (fl : Flags) (brentP brentG : (K → K) → K → K → Py (K × K))
    (hConv : K → K) (Rb : K → K → K) : Bhe K → Py (Tube K)
  | .single t => .ok t
  | .multi v rb kGrout rbTarget =>
    (equivalentSingleUTube o fl brentP hConv rb kGrout v).bind fun p =>
      (matchEffectiveBoreholeResistance o fl brentG Rb rbTarget p.1).map (·.1)

end Generic

/-! ### Instantiations for the driver -/

def floatOfRat (q : Rat) : Float := Float.ofInt q.num / Float.ofNat q.den

/-- numpy's `pi`, `sqrt`, `log` on IEEE doubles. -/
def floatOps : Ops Float :=
  { pi := Float.ofBits 0x400921FB54442D18, sqrt := Float.sqrt, log := Float.log, ofRat := floatOfRat }

/-- Rational instantiation for the purely algebraic parts (`sqrt`/`log` are not used there). -/
def ratOps (piQ : Rat) : Ops Rat := { pi := piQ, sqrt := fun x => x, log := fun x => x, ofRat := fun q => q }

def fbits (x : Float) : String := toString x.toBits.toNat
def parseF? (s : String) : Option Float := (fun (n : Nat) => Float.ofBits n.toUInt64) <$> s.toNat?
def parseBool? : String → Option Bool
  | "1" => some true | "0" => some false | _ => none

def parseFs? (l : List String) : Option (List Float) := l.mapM parseF?
def parseRs? (l : List String) : Option (List Rat) := l.mapM parseRat?

def showVolsF (v : Vols Float) : String :=
  s!"{fbits v.volFluid} {fbits v.volPipe} {fbits v.resistConv} {fbits v.resistPipe}"

def showGeomF (g : Geom Float) : String :=
  s!"{fbits g.rIn} {fbits g.rOut} {fbits g.kPipe0} {fbits g.rB} {fbits g.spacing} {fbits g.s} {fbits g.shank} {if g.enlarged then 1 else 0}"

def parseFlags? (s : String) : Option Flags :=
  match s.toList with
  | [a, b, c, d, e] =>
    let f := fun (ch : Char) => ch == '1'
    some { numpy := f a, pipeResultUsed := f b, pipeRefresh := f c, groutResultUsed := f d, groutRefresh := f e }
  | _ => if s = "code" then some codeFlags else none

def showFlags (fl : Flags) : String :=
  String.ofList ([fl.numpy, fl.pipeResultUsed, fl.pipeRefresh, fl.groutResultUsed, fl.groutRefresh].map (fun b => if b then '1' else '0'))

/-- Line protocol (floats travel as the decimal value of their IEEE-754 bit pattern):
    * `et_flags`                                   → the five flags read from the source
    * `et_vol_u nPipes rIn rOut hF kPipe`          → volFluid volPipe resistConv resistPipe
    * `et_vol_c rii rio roi roo hFaIn kOuter`      → the same for the coaxial exchanger
    * `et_geom rb volFluid volPipe resistPipe`     → rIn' rOut' kPipe0 rB spacing s shank enlarged
    * `et_full flags rb kGrout0 volFluid volPipe resistConv resistPipe hfEq
               pBrentOk pRoot pLast rbTarget rb00 rbLo rbHi gBrentOk gRoot gLast rbAtLast`
        → full `to_single` of a double-U / coaxial exchanger; `hfEq` = convection coefficient of the
          equivalent tube, `p*`/`g*` = what Brent's method would return for the pipe / grout solve,
          `rb00` = multipole R_b of the preliminary tube, `rbLo/rbHi/rbAtLast` = multipole R_b of the
          refreshed tube at k_g = 0.01 / 7 / gLast (used only when the grout objective refreshes)
    * `et_mflow conn m`                            → per-pipe mass flow (conn ∈ series parallel unset other)
    * `etq_solve numpy x lo hi fLo fHi bOk bRoot bLast`  (rationals; `lo`/`hi` may be `none`)
        → branch, result, last of `solve_root` for an objective with the given end values
    * `etq_enl rb rPo`  (rationals)                → rB spacing enlarged  -/
def cmd : List String → Option String
  | ["et_flags"] => some (showFlags codeFlags)
  | "et_vol_u" :: n :: rest => some <|
      match n.toNat?, parseFs? rest with
      | some n, some [rIn, rOut, hF, kP] => showVolsF (uTubeVolumes floatOps n rIn rOut hF kP)
      | _, _ => "bad-arg"
  | "et_vol_c" :: rest => some <|
      match parseFs? rest with
      | some [a, b, c, d, h, k] => showVolsF (concentricTubeVolumes floatOps a b c d h k)
      | _ => "bad-arg"
  | "et_geom" :: rest => some <|
      match parseFs? rest with
      | some [rb, vf, vp, rp] =>
          showGeomF (equivGeometry floatOps rb { volFluid := vf, volPipe := vp, resistConv := 0, resistPipe := rp })
      | _ => "bad-arg"
  | ["et_mflow", c, m] => some <|
      match parseF? m, (match c with | "series" => some Conn.series | "parallel" => some Conn.parallel
                                      | "unset" => some Conn.unset | "other" => some Conn.other | _ => none) with
      | some m, some c => (match massFlowPipe floatOps m c with | .ok v => fbits v | .error e => "raise " ++ e.name)
      | _, _ => "bad-arg"
  | "et_full" :: fl :: rest => some <|
      match parseFlags? fl, rest with
      | some fl, [rb, kg0, vf, vp, rc, rp, hf, pOk, pRoot, pLast, rbT, rb00, rbLo, rbHi, gOk, gRoot, gLast, rbAtLast] =>
        match parseFs? [rb, kg0, vf, vp, rc, rp, hf, pRoot, pLast, rbT, rb00, rbLo, rbHi, gRoot, gLast, rbAtLast],
              parseBool? pOk, parseBool? gOk with
        | some [rb, kg0, vf, vp, rc, rp, hf, pRoot, pLast, rbT, rb00, rbLo, rbHi, gRoot, gLast, rbAtLast], some pOk, some gOk =>
          let v : Vols Float := { volFluid := vf, volPipe := vp, resistConv := rc, resistPipe := rp }
          let brentP : (Float → Float) → Float → Float → Py (Float × Float) :=
            fun _ _ _ => if pOk then .ok (pRoot, pLast) else .error .other
          let brentG : (Float → Float) → Float → Float → Py (Float × Float) :=
            fun _ _ _ => if gOk then .ok (gRoot, gLast) else .error .other
          let kgLo := floatOps.ofRat Gen.kgLower
          let kgHi := floatOps.ofRat Gen.kgUpper
          -- multipole R_b of the equivalent tube, tabulated by the harness at the points the model can ask for
          let Rb : Float → Float → Float := fun kg _ =>
            if kg.toBits == kg0.toBits then rb00
            else if kg.toBits == kgLo.toBits then rbLo
            else if kg.toBits == kgHi.toBits then rbHi
            else rbAtLast
          match equivalentSingleUTube floatOps fl brentP (fun _ => hf) rb kg0 v with
          | .error e => "raise pipe " ++ e.name
          | .ok (t, sp) =>
            match matchEffectiveBoreholeResistance floatOps fl brentG Rb rbT t with
            | .error e => "raise grout " ++ e.name
            | .ok (t', sg) =>
              let g := t'.geom
              let lo := g.kPipe0 / floatOps.ofRat Gen.kpLowerDiv
              let hi := g.kPipe0 * floatOps.ofRat Gen.kpUpperMul
              let tgt := v.resistConv + v.resistPipe
              s!"ok {showGeomF g} {fbits t'.rF} {fbits lo} {fbits hi} {fbits (pipeObjective floatOps g t'.rF tgt lo)} " ++
              s!"{fbits (pipeObjective floatOps g t'.rF tgt hi)} {sp.branch.name} {fbits sp.result} {fbits t'.kPipe} {fbits t'.rFp} " ++
              s!"{fbits (groutObjective fl Rb rbT t kgLo)} {fbits (groutObjective fl Rb rbT t kgHi)} {sg.branch.name} " ++
              s!"{fbits t'.kGrout} {fbits t'.circKg} {fbits t'.circRfp} {fbits (t'.rb Rb)}"
        | _, _, _ => "bad-arg"
      | _, _ => "bad-arg"
  | ["etq_solve", numpy, x, lo, hi, fLo, fHi, bOk, bRoot, bLast] => some <|
      let opt := fun (s : String) => if s = "none" then some (none : Option Rat) else (parseRat? s).map some
      match parseBool? numpy, parseRs? [x, fLo, fHi, bRoot, bLast], opt lo, opt hi, parseBool? bOk with
      | some numpy, some [x, fLo, fHi, bRoot, bLast], some lo, some hi, some bOk =>
        let o := ratOps 0
        let loV := lo.getD (x / o.ofRat Gen.solveDefaultLowerDiv)
        let f : Rat → Rat := fun k => if k = loV then fLo else fHi
        let brent : (Rat → Rat) → Rat → Rat → Py (Rat × Rat) := fun _ _ _ => if bOk then .ok (bRoot, bLast) else .error .other
        match solveRoot o numpy brent x f lo hi with
        | .error e => "raise " ++ e.name
        | .ok s => s!"{s.branch.name} {showRat s.result} {showRat s.last}"
      | _, _, _, _, _ => "bad-arg"
  | ["etq_enl", rb, rPo] => some <|
      match parseRs? [rb, rPo] with
      | some [rb, rPo] =>
        let e := enlarge (ratOps 0) rb rPo
        s!"{showRat e.1} {showRat e.2.1} {if e.2.2 then 1 else 0}"
      | _ => "bad-arg"
  | _ => none

end GHEVerif.EquivTube
