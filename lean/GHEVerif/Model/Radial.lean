/-
  Model of `RadialNumericalBH` (ghedesigner/radial_numerical_borehole.py): the equivalent
  radii, `fill_radial_cells`, the coefficient assembly of `calc_sts_g_functions`, one
  implicit step as a Thomas solve (standing for LAPACK `dgtsv`),
  the `while True` loop on `time`, `g`, `g_bhw`, `lntts` and the 30-point resampling
  (`numpy.linspace` + `numpy.interp`, which is what `scipy.interpolate.interp1d(kind="linear")`
  calls for 1-D float data).

  The definitions are written ONCE, polymorphically in the scalar type `K` (anything with
  `+ - * / neg` and a cast from `Nat`) and in the transcendental/third-party parts
  (`Env K`: `log`, `exp`, the values used for `sqrt 2` and `pi`, and the comparison `≤`).
  They are instantiated
    * at `Float`  in `cmd` below (run against numpy/LAPACK by harness/c10.py),
    * at `Rat`    in `cmd` below (cell table only; `log` is a two-point lookup),
    * at `ℝ` / any ordered field in Lemmas/Radial.lean and Props/C10.lean (theorems).
  Literal constants come from `GHEVerif.Gen.Radial` (regenerated from the source).
  Core Lean only.
-/
import GHEVerif.Model.Py
import GHEVerif.Gen.RadialConsts
import GHEVerif.Gen.Tables

namespace GHEVerif.Radial
open GHEVerif

/-- The parts of the computation that are not field arithmetic. -/
structure Env (K : Type) where
  log : K → K
  exp : K → K
  sqrt2 : K
  pi : K
  /-- `le a b` decides `a ≤ b` (IEEE comparison at `Float`). -/
  le : K → K → Bool

/-- Number of cells in the five regions. -/
structure Counts where
  nFluid : Nat
  nConv : Nat
  nPipe : Nat
  nGrout : Nat
  nSoil : Nat
  deriving Repr, DecidableEq

/-- `self.num_cells`. -/
def Counts.total (c : Counts) : Nat := c.nFluid + c.nConv + c.nPipe + c.nGrout + c.nSoil
/-- `self.bh_wall_idx`. -/
def Counts.bhWall (c : Counts) : Nat := c.nFluid + c.nConv + c.nPipe + c.nGrout

/-- The counts written in `RadialNumericalBH.__init__` (regenerated from the source). -/
def genCounts : Counts :=
  { nFluid := Gen.Radial.numFluidCells, nConv := Gen.Radial.numConvCells, nPipe := Gen.Radial.numPipeCells,
    nGrout := Gen.Radial.numGroutCells, nSoil := Gen.Radial.numSoilCells }

/-- `m` times as many cells in every region (used for the finer-mesh differential run). -/
def Counts.scale (c : Counts) (m : Nat) : Counts :=
  { nFluid := c.nFluid * m, nConv := c.nConv * m, nPipe := c.nPipe * m, nGrout := c.nGrout * m, nSoil := c.nSoil * m }

/-- What the code reads from the `SingleUTube` object. -/
structure Inputs (K : Type) where
  rB : K        -- single_u_tube.b.r_b
  rPo : K       -- single_u_tube.pipe.r_out
  rPi : K       -- single_u_tube.pipe.r_in
  kSoil : K     -- single_u_tube.soil.k
  rcSoil : K    -- single_u_tube.soil.rhoCp
  rcGrout : K   -- single_u_tube.grout.rhoCp
  rcPipe : K    -- single_u_tube.pipe.rhoCp
  rcFluid : K   -- single_u_tube.fluid.rhoCp
  Rf : K        -- single_u_tube.R_f
  Rb : K        -- single_u_tube.calc_effective_borehole_resistance()
  H : K         -- single_u_tube.b.H
  ks : K        -- single_u_tube.k_s

/-- One column of the `radial_cells` table (`CellProps`). -/
structure Cell (K : Type) where
  rIn : K
  rC : K
  rOut : K
  k : K
  rhoCp : K
  temp : K
  vol : K

/-- Radii and cell thicknesses computed in `__init__`. -/
structure Geo (K : Type) where
  rFar : K
  rB : K
  rOutTube : K
  tWall : K
  rInTube : K
  rConv : K
  rFluid : K
  thSoil : K
  thGrout : K
  thPipe : K
  thConv : K
  thFluid : K

/-- Everything `calc_sts_g_functions` leaves behind, plus the bookkeeping the harness needs. -/
structure StsResult (K : Type) where
  nSteps : Nat
  lnttsRaw : List K
  gRaw : List K
  gBhwRaw : List K
  lntts : List K
  g : List K
  gBhw : List K
  finalT : List K
  /-- Σ over steps of `T'[n-2] - T'[n-1]` (times `ae[n-2]·Δt` this is the heat that left). -/
  leakSum : K
  aeLast : K

section Poly
variable {K : Type} [Add K] [Sub K] [Mul K] [Div K] [Neg K] [NatCast K]

/-- A literal written in the source as a decimal, as the nearest scalar. -/
def ofRat (q : Rat) : K :=
  if q.num < 0 then -(((q.num.natAbs : Nat) : K) / ((q.den : Nat) : K))
  else ((q.num.natAbs : Nat) : K) / ((q.den : Nat) : K)

def twoPi (E : Env K) : K := ((2 : Nat) : K) * E.pi

def isZero (E : Env K) (x : K) : Bool := E.le x ((0 : Nat) : K) && E.le ((0 : Nat) : K) x
def lt (E : Env K) (a b : K) : Bool := E.le a b && !(E.le b a)

/-- `__init__`: geometry and grid procedure. -/
def geometry (E : Env K) (C : Counts) (x : Inputs K) : Geo K :=
  let rFar : K := ((Gen.Radial.rFarField : Nat) : K)
  let rOutTube := E.sqrt2 * x.rPo
  let tWall := x.rPo - x.rPi
  let rInTube := rOutTube - tWall
  let rConv := rInTube - tWall / ((4 : Nat) : K)
  let rFluid := rConv - (((3 : Nat) : K) / ((4 : Nat) : K) * tWall)
  { rFar := rFar, rB := x.rB, rOutTube := rOutTube, tWall := tWall, rInTube := rInTube,
    rConv := rConv, rFluid := rFluid,
    thSoil := (rFar - x.rB) / ((C.nSoil : Nat) : K),
    thGrout := (x.rB - rOutTube) / ((C.nGrout : Nat) : K),
    thPipe := (rOutTube - rInTube) / ((C.nPipe : Nat) : K),
    thConv := (rInTube - rConv) / ((C.nConv : Nat) : K),
    thFluid := (rConv - rFluid) / ((C.nFluid : Nat) : K) }

/-- `fill_single_cell`. -/
def fillSingleCell (E : Env K) (inner thick k rc : K) : Cell K :=
  let outer := inner + thick
  { rIn := inner, rC := inner + thick / ((2 : Nat) : K), rOut := outer, k := k, rhoCp := rc,
    temp := ((Gen.Radial.initTemp : Nat) : K),
    vol := E.pi * (outer * outer - inner * inner) }

/-- One `for j … : inner = r0 + j * thickness; fill_single_cell(inner, thickness, k, rho_cp)` loop. -/
def regionCells (E : Env K) (r0 thick k rc : K) (n : Nat) : List (Cell K) :=
  (List.range n).map (fun j => fillSingleCell E (r0 + ((j : Nat) : K) * thick) thick k rc)

/-- `rho_cp_eq_fluid`. -/
def rhoCpEqFluid (x : Inputs K) (g : Geo K) : K :=
  ((2 : Nat) : K) * (x.rPi * x.rPi) * x.rcFluid / (g.rConv * g.rConv - g.rFluid * g.rFluid)

def kConv (E : Env K) (g : Geo K) (rfEff : K) : K := E.log (g.rInTube / g.rConv) / (twoPi E * rfEff)
def kPipeGrout (E : Env K) (g : Geo K) (rpgEff : K) : K := E.log (g.rB / g.rInTube) / (twoPi E * rpgEff)

/-- `fill_radial_cells` without the exception checks. -/
def fillRadialCellsCore (E : Env K) (C : Counts) (x : Inputs K) (rfEff rpgEff : K) : List (Cell K) :=
  let g := geometry E C x
  let kpg := kPipeGrout E g rpgEff
  regionCells E g.rFluid g.thFluid ((Gen.Radial.conductivityFluid : Nat) : K) (rhoCpEqFluid x g) C.nFluid
    ++ regionCells E g.rConv g.thConv (kConv E g rfEff) (ofRat Gen.Radial.rhoCpConv) C.nConv
    ++ regionCells E g.rInTube g.thPipe kpg x.rcPipe C.nPipe
    ++ regionCells E g.rOutTube g.thGrout kpg x.rcGrout C.nGrout
    ++ regionCells E g.rB g.thSoil x.kSoil x.rcSoil C.nSoil

/-- `math.log(a / b)` on Python floats: ZeroDivisionError, then ValueError (domain). -/
def logRatioErr (E : Env K) (a b : K) : Option PyErr :=
  if isZero E b then some .zeroDiv
  else if E.le (a / b) ((0 : Nat) : K) then some .valueError
  else none

def zeroDivErr (E : Env K) (x : K) : Option PyErr := if isZero E x then some .zeroDiv else none

/-- The first exception `fill_radial_cells` raises on Python floats, in source order. -/
def fillChecks (E : Env K) (C : Counts) (x : Inputs K) (rfEff rpgEff : K) : Option PyErr :=
  let g := geometry E C x
  (zeroDivErr E (g.rConv * g.rConv - g.rFluid * g.rFluid)).orElse fun _ =>
  (logRatioErr E g.rInTube g.rConv).orElse fun _ =>
  (zeroDivErr E (twoPi E * rfEff)).orElse fun _ =>
  (logRatioErr E g.rB g.rInTube).orElse fun _ =>
  zeroDivErr E (twoPi E * rpgEff)

/-- `fill_radial_cells` with the exceptions Python floats raise. -/
def fillRadialCells (E : Env K) (C : Counts) (x : Inputs K) (rfEff rpgEff : K) : Py (List (Cell K)) :=
  match fillChecks E C x rfEff rpgEff with
  | some e => .error e
  | none => .ok (fillRadialCellsCore E C x rfEff rpgEff)

/-- `partial_init`: `(t_s, calc_time_in_sec)`. -/
def partialInit (E : Env K) (x : Inputs K) : Py (K × K) := do
  if isZero E x.rcSoil then throw .zeroDiv
  let alpha := x.ks / x.rcSoil
  if isZero E (((9 : Nat) : K) * alpha) then throw .zeroDiv
  let tS := x.H * x.H / (((9 : Nat) : K) * alpha)
  let a := tS * E.exp (ofRat Gen.Radial.horizonExpArg)
  let b := ofRat Gen.Radial.horizonHours * ((Gen.SEC_IN_HR.toNat : Nat) : K)
  -- Python max([a, b]): b only if b > a
  return (tS, if lt E a b then b else a)

/-! ### coefficient assembly -/

/-- `log(R_OUT / R_CENTER) / (TWO_PI * K)` of a cell (`fill_f1`). -/
def half1 (E : Env K) (c : Cell K) : K := E.log (c.rOut / c.rC) / (twoPi E * c.k)
/-- `log(R_CENTER / R_IN) / (TWO_PI * K)` of a cell (`fill_f2`). -/
def half2 (E : Env K) (c : Cell K) : K := E.log (c.rC / c.rIn) / (twoPi E * c.k)

/-- The assembled system: the three diagonals as LAPACK receives them, and the pieces the
    right-hand side and the bookkeeping need. -/
structure TriSys (K : Type) where
  dl : List K
  d : List K
  du : List K
  ad0 : K
  ae0 : K
  ae : List K   -- `_ae`, rows 1 … n-2
  aw : List K   -- `_aw`, rows 1 … n-2
  ad : List K   -- `_ad`, rows 1 … n-2

/-- The part of `calc_sts_g_functions` before the `while` loop.  `n = self.num_cells`. -/
def assemble (E : Env K) (n : Nat) (dt : K) (cells : List (Cell K)) : TriSys K :=
  let one : K := ((1 : Nat) : K)
  let west := cells.take (n - 2)                 -- radial_cells[:, 0 : n-2]
  let center := (cells.drop 1).take (n - 2)      -- radial_cells[:, 1 : n-1]
  let east := cells.drop 2                       -- radial_cells[:, 2 : n]
  let c0 := cells.head?
  let c1 := (cells.drop 1).head?
  let fe1 := match c0 with | some c => half1 E c | none => ((0 : Nat) : K)
  let fe2 := match c1 with | some c => half2 E c | none => ((0 : Nat) : K)
  let ae0 := one / (fe1 + fe2)
  let ad0 := match c0 with | some c => c.rhoCp * c.vol / dt | none => ((0 : Nat) : K)
  let aeL := List.zipWith (fun a b => one / (a + b)) (center.map (half1 E)) (east.map (half2 E))
  let awL := List.zipWith (fun a b => -one / (a + b)) (west.map (half1 E)) (center.map (half2 E))
  let adL := center.map (fun c => c.rhoCp * c.vol / dt)
  { dl := List.zipWith (fun w a => -w / a) awL adL ++ [((0 : Nat) : K)],
    d := [-ae0 / ad0 - one]
          ++ List.zipWith (fun (wa : K × K) e => wa.1 / wa.2 - e / wa.2 - one) (List.zip awL adL) aeL
          ++ [one],
    du := [ae0 / ad0] ++ List.zipWith (fun e a => e / a) aeL adL,
    ad0 := ad0, ae0 := ae0, ae := aeL, aw := awL, ad := adL }

/-- The right-hand side built at the top of the loop body from the current temperatures. -/
def rhs (n : Nat) (q ad0 : K) (T : List K) : List K :=
  let t0 := T.headD ((0 : Nat) : K)
  [-t0 - q / ad0] ++ ((T.drop 1).take (n - 2)).map (fun t => -t) ++ (T.drop (n - 1)).take 1

/-! ### the tridiagonal solve
  Gaussian elimination without row interchange (Thomas algorithm), in the operation order of
  LAPACK `dgtsv`'s no-interchange branch.  LAPACK itself does interchange rows where a
  sub-diagonal entry exceeds the pivot (it happens next to the convection cell, whose heat
  capacity is 1.0); `dgtsv` is third-party code entering with the contract "returns the
  solution of the tridiagonal system", and the harness measures the agreement. -/

structure Fac (K : Type) where
  fact : K   -- DL(i-1)/D'(i-1)  (0 for the first row)
  dP : K     -- D'(i)
  u : K      -- DU(i)  (0 for the last row)

/-- Rows `(l_i, d_i, u_i)` of the matrix with `l_0 = 0 = u_{n-1}`. -/
def rowsOf (dl d du : List K) : List (K × K × K) :=
  List.zipWith (fun l (du : K × K) => (l, du.1, du.2)) (((0 : Nat) : K) :: dl) (List.zip d (du ++ [((0 : Nat) : K)]))

/-- Forward elimination of the matrix: `FACT = DL(i)/D(i); D(i+1) -= FACT*DU(i)`. -/
def factorGo : List (K × K × K) → K → K → List (Fac K)
  | [], _, _ => []
  | (l, d, u) :: rest, dPrev, uPrev =>
      let fact := l / dPrev
      let dP := d - fact * uPrev
      { fact := fact, dP := dP, u := u } :: factorGo rest dP u

def factor (rows : List (K × K × K)) : List (Fac K) := factorGo rows ((1 : Nat) : K) ((0 : Nat) : K)

/-- Forward elimination of the right-hand side: `B(i+1) -= FACT*B(i)`. -/
def fwdGo : List (Fac K) → List K → K → List K
  | f :: fs, b :: bs, bPrev => let b' := b - f.fact * bPrev; b' :: fwdGo fs bs b'
  | _, _, _ => []

/-- Back substitution: `B(i) = (B(i) - DU(i)*B(i+1)) / D(i)`; returns `(x_i, x_i :: …)`. -/
def backGo : List (Fac K) → List K → K × List K
  | f :: fs, b :: bs =>
      let r := backGo fs bs
      let x := (b - f.u * r.1) / f.dP
      (x, x :: r.2)
  | _, _ => (((0 : Nat) : K), [])

def solveFac (fac : List (Fac K)) (b : List K) : List K :=
  (backGo fac (fwdGo fac b ((0 : Nat) : K))).2

/-- The solve standing for `dgtsv(dl, d, du, b)`. -/
def triSolve (dl d du b : List K) : List K := solveFac (factor (rowsOf dl d du)) b

/-! ### the time loop -/

structure LoopState (K : Type) where
  time : K
  T : List K
  nSteps : Nat
  lntts : List K   -- reversed
  g : List K       -- reversed
  gBhw : List K    -- reversed
  leakSum : K

/-- One pass through the body of `while True:` up to (not including) the `break` test. -/
def stepOnce (E : Env K) (n bhIdx : Nat) (fac : List (Fac K)) (ad0 q dt tS c0 rb : K)
    (s : LoopState K) : Py (LoopState K) := do
  let time := s.time + dt
  let T' := solveFac fac (rhs n q ad0 s.T)
  let init : K := ((Gen.Radial.initTemp : Nat) : K)
  let zero : K := ((0 : Nat) : K)
  let t0 := T'.headD zero
  let tb := (T'.drop bhIdx).headD zero
  let g := c0 * ((t0 - init) / q - rb)
  let gb := c0 * ((tb - init) / q)
  if isZero E tS then throw .zeroDiv           -- log(time / self.t_s)
  if E.le (time / tS) zero then throw .valueError
  let tl := T'.drop (n - 2)
  let leak := tl.headD zero - (tl.drop 1).headD zero
  return { time := time, T := T', nSteps := s.nSteps + 1, lntts := E.log (time / tS) :: s.lntts,
           g := g :: s.g, gBhw := gb :: s.gBhw, leakSum := s.leakSum + leak }

/-- `while True: …; if time >= final_time - time_step: break`, or exactly `forced` steps when
    `forced = some k` (used only for the finer-mesh run).  `fuel` bounds the number of steps:
    Python would loop forever where the model reports `other`. -/
def loopGo (E : Env K) (n bhIdx : Nat) (fac : List (Fac K)) (ad0 q dt tS c0 rb final : K)
    (forced : Option Nat) : Nat → LoopState K → Py (LoopState K)
  | 0, _ => .error .other
  | fuel + 1, s => do
      let s' ← stepOnce E n bhIdx fac ad0 q dt tS c0 rb s
      let stop := match forced with
        | some k => decide (k ≤ s'.nSteps)
        | none => E.le (final - dt) s'.time
      if stop then return s' else loopGo E n bhIdx fac ad0 q dt tS c0 rb final forced fuel s'

/-! ### resampling: `numpy.linspace` and `numpy.interp` -/

/-- `numpy.linspace(start, stop, num)` for `num ≥ 2` (`i*step + start`, last point `stop`). -/
def linspace (start stop : K) (num : Nat) : List K :=
  let step := (stop - start) / (((num - 1 : Nat)) : K)
  (List.range num).map (fun i => if i + 1 = num then stop else ((i : Nat) : K) * step + start)

/-- `numpy.interp(x, xs, ys)` for `xs[0] ≤ x ≤ xs[-1]`, `xs` increasing: the segment `j` with
    `xs[j] ≤ x < xs[j+1]`, the node value when `x = xs[j]`, the last value at the last node. -/
def interpAt (E : Env K) : List K → List K → K → K
  | x0 :: x1 :: xs, y0 :: y1 :: ys, x =>
      if lt E x x1 then
        (if E.le x x0 then y0 else (y1 - y0) / (x1 - x0) * (x - x0) + y0)
      else interpAt E (x1 :: xs) (y1 :: ys) x
  | _, y0 :: _, _ => y0
  | _, [], _ => ((0 : Nat) : K)

/-- `interp1d(xs, ys)(linspace(xs[0], xs[-1], num))`.  A single sample is accepted by scipy and
    gives `num` copies of it (`linspace` with `step = 0`, `interp` at the only node). -/
def resample (E : Env K) (xs ys : List K) (num : Nat) : Py (List K × List K) :=
  match xs.head?, xs.getLast? with
  | some x0, some xl =>
      let u := linspace x0 xl num
      .ok (u, u.map (interpAt E xs ys))
  | _, _ => .error .valueError

/-! ### `calc_sts_g_functions` -/

/-- `calc_sts_g_functions(single_u_tube, final_time)`.  `C` and `dtDiv` are the source's
    counts and 1 for the code as written; `forced` as in `loopGo`. -/
def calcSts (E : Env K) (C : Counts) (dtDiv : Nat) (x : Inputs K) (finalTime : Option K)
    (forced : Option Nat) (fuel : Nat) : Py (StsResult K) := do
  let (tS, calcTime) ← partialInit E x
  let rfEff := x.Rf / ((2 : Nat) : K)
  let rpgEff := x.Rb - rfEff
  let cells ← fillRadialCells E C x rfEff rpgEff
  let final := finalTime.getD calcTime
  let n := C.total
  let dt : K := ((Gen.Radial.timeStep : Nat) : K) / ((dtDiv : Nat) : K)
  let q : K := ofRat Gen.Radial.heatFlux
  let zero : K := ((0 : Nat) : K)
  -- fe_1, fe_2 of row 0 use math.log on numpy scalars: ValueError for a non-positive ratio
  match cells with
  | c0 :: c1 :: _ => do
      if E.le (c0.rOut / c0.rC) zero then throw .valueError
      if E.le (c1.rC / c1.rIn) zero then throw .valueError
  | _ => pure ()
  let sys := assemble E n dt cells
  let fac := factor (rowsOf sys.dl sys.d sys.du)
  let time0 : K := ofRat Gen.Radial.timeStartEps - ((Gen.Radial.timeStartSub : Nat) : K) / ((dtDiv : Nat) : K)
  let c0 := twoPi E * x.kSoil
  let s0 : LoopState K := { time := time0, T := cells.map (·.temp), nSteps := 0, lntts := [], g := [], gBhw := [], leakSum := zero }
  let s ← loopGo E n C.bhWall fac sys.ad0 q dt tS c0 x.Rb final forced fuel s0
  let lnttsRaw := s.lntts.reverse
  let gRaw := s.g.reverse
  let gbRaw := s.gBhw.reverse
  let (u, gU) ← resample E lnttsRaw gRaw Gen.Radial.numIntervals
  let (_, gbU) ← resample E lnttsRaw gbRaw Gen.Radial.numIntervals
  return { nSteps := s.nSteps, lnttsRaw := lnttsRaw, gRaw := gRaw, gBhwRaw := gbRaw, lntts := u, g := gU, gBhw := gbU,
           finalT := s.T, leakSum := s.leakSum, aeLast := sys.ae.getLastD zero }

end Poly

/-! ## Instantiations for the driver -/

local instance : NatCast Float := ⟨Float.ofNat⟩

/-- Exact for every IEEE double written as `n/2^k` with `|n| < 2^53`. -/
def ratToFloat (q : Rat) : Float := Float.ofInt q.num / Float.ofNat q.den

def showFloat (x : Float) : String := toString x.toBits.toNat

def floatEnv (sqrt2 pi : Float) : Env Float :=
  { log := Float.log, exp := Float.exp, sqrt2 := sqrt2, pi := pi, le := fun a b => decide (a ≤ b) }

/-- `log` as a two-point lookup (the only two logarithms the cell table needs). -/
def ratEnv (sqrt2 pi r1 l1 l2 : Rat) : Env Rat :=
  { log := fun x => if x = r1 then l1 else l2, exp := fun _ => 0, sqrt2 := sqrt2, pi := pi,
    le := fun a b => decide (a ≤ b) }

def parseInputs (xs : List Rat) : Option (Inputs Rat) :=
  match xs with
  | [rB, rPo, rPi, kSoil, rcSoil, rcGrout, rcPipe, rcFluid, rf, rb, h, ks] =>
      some { rB := rB, rPo := rPo, rPi := rPi, kSoil := kSoil, rcSoil := rcSoil, rcGrout := rcGrout,
             rcPipe := rcPipe, rcFluid := rcFluid, Rf := rf, Rb := rb, H := h, ks := ks }
  | _ => none

def Inputs.toFloat (x : Inputs Rat) : Inputs Float :=
  { rB := ratToFloat x.rB, rPo := ratToFloat x.rPo, rPi := ratToFloat x.rPi, kSoil := ratToFloat x.kSoil,
    rcSoil := ratToFloat x.rcSoil, rcGrout := ratToFloat x.rcGrout, rcPipe := ratToFloat x.rcPipe,
    rcFluid := ratToFloat x.rcFluid, Rf := ratToFloat x.Rf, Rb := ratToFloat x.Rb, H := ratToFloat x.H,
    ks := ratToFloat x.ks }

def showCellsF (cs : List (Cell Float)) : String :=
  " ".intercalate (cs.map (fun c => " ".intercalate ([c.rIn, c.rC, c.rOut, c.k, c.rhoCp, c.temp, c.vol].map showFloat)))

def showCellsR (cs : List (Cell Rat)) : String :=
  " ".intercalate (cs.map (fun c => " ".intercalate ([c.rIn, c.rC, c.rOut, c.k, c.rhoCp, c.temp, c.vol].map showRat)))

def showListF (l : List Float) : String := " ".intercalate (l.map showFloat)

def parseAll (l : List String) : Option (List Rat) := l.mapM parseRat?

def optNat (s : String) : Option (Option Nat) := if s = "none" then some none else s.toNat?.map some

/-- Line protocol (all reals as `n/d`; Float answers as the decimal value of the IEEE bit pattern):
    * `radial-cells  sqrt2 pi <12 inputs>`                 → `ok <7·n numbers>` | `raise <Exc>`
    * `radial-cells-rat sqrt2 pi ratio1 log1 log2 <12 inputs>` → same, as exact rationals
    * `radial-tri    sqrt2 pi <12 inputs>`                 → `ok dl… | d… | du…`
    * `radial-sts    sqrt2 pi <12 inputs> final|none mult dtDiv forced|none`
         → `ok nSteps aeLast leakSum | lntts(30) | g(30) | g_bhw(30) | raw first/last lntts g gbhw | finalT…` -/
def cmd : List String → Option String
  | "radial-cells" :: args => some <| match parseAll args with
      | some (s2 :: p :: rest) => (match parseInputs rest with
          | some xi =>
              let E := floatEnv (ratToFloat s2) (ratToFloat p)
              let x := xi.toFloat
              let rf := x.Rf / 2
              (match fillRadialCells E genCounts x rf (x.Rb - rf) with
               | .ok cs => "ok " ++ showCellsF cs
               | .error e => "raise " ++ e.name)
          | none => "bad-arg")
      | _ => "bad-arg"
  | "radial-cells-rat" :: args => some <| match parseAll args with
      | some (s2 :: p :: r1 :: l1 :: l2 :: rest) => (match parseInputs rest with
          | some x =>
              let E := ratEnv s2 p r1 l1 l2
              let rf := x.Rf / 2
              (match fillRadialCells E genCounts x rf (x.Rb - rf) with
               | .ok cs => "ok " ++ showCellsR cs
               | .error e => "raise " ++ e.name)
          | none => "bad-arg")
      | _ => "bad-arg"
  | "radial-tri" :: args => some <| match parseAll args with
      | some (s2 :: p :: rest) => (match parseInputs rest with
          | some xi =>
              let E := floatEnv (ratToFloat s2) (ratToFloat p)
              let x := xi.toFloat
              let rf := x.Rf / 2
              (match fillRadialCells E genCounts x rf (x.Rb - rf) with
               | .ok cs =>
                   let sys := assemble E genCounts.total (Float.ofNat Gen.Radial.timeStep) cs
                   "ok " ++ showListF sys.dl ++ " | " ++ showListF sys.d ++ " | " ++ showListF sys.du
               | .error e => "raise " ++ e.name)
          | none => "bad-arg")
      | _ => "bad-arg"
  | "radial-sts" :: args =>
      match args.reverse with
      | forcedS :: dtDivS :: multS :: finalS :: restRev => some <|
          match parseAll restRev.reverse, optNat forcedS, dtDivS.toNat?, multS.toNat?,
                (if finalS = "none" then some none else (parseRat? finalS).map some) with
          | some (s2 :: p :: rest), some forced, some dtDiv, some mult, some final =>
              (match parseInputs rest with
               | some xi =>
                   let E := floatEnv (ratToFloat s2) (ratToFloat p)
                   let x := xi.toFloat
                   (match calcSts E (genCounts.scale mult) dtDiv x (final.map ratToFloat) forced 4000000 with
                    | .ok r =>
                        let fl (l : List Float) := [l.headD 0, l.getLastD 0]
                        s!"ok {r.nSteps} {showFloat r.aeLast} {showFloat r.leakSum} | " ++ showListF r.lntts ++ " | "
                          ++ showListF r.g ++ " | " ++ showListF r.gBhw ++ " | "
                          ++ showListF (fl r.lnttsRaw ++ fl r.gRaw ++ fl r.gBhwRaw) ++ " | " ++ showListF r.finalT
                    | .error e => "raise " ++ e.name)
               | none => "bad-arg")
          | _, _, _, _, _ => "bad-arg"
      | _ => some "bad-arg"
  | _ => none

end GHEVerif.Radial
