/-
  Model of ghedesigner/domains.py: `square_and_near_square`, `rectangular`, `bi_rectangular`,
  `bi_rectangle_nested`, `zoned_rectangle_domain`, `bi_rectangle_zoned_nested`, and of the line
  `n = floor(length / b) + 1` of `DesignNearSquare.__init__` (design.py).  Core Lean only.

  As in Model/Coords.lean every generator takes the rounding operator `R` (`id` = exact, the
  instance the theorems are about; `fl64` = what CPython computes).  What raises in Python
  returns `.error …` here: ZeroDivisionError for a zero spacing / a count of 1 used as
  `L / (n - 1)`, ValueError from `square_and_near_square` and `zoned_rectangle`, IndexError from
  `n_1_values[j]` on an empty range in `bi_rectangle_zoned_nested`.
-/
import GHEVerif.Model.Coords

namespace GHEVerif.Domains
open GHEVerif GHEVerif.Coords

def trIf (tr : Bool) (f : Field) : Field := if tr then transpose f else f

/-- `(x : int)` as a rational. -/
@[inline] def iq (n : Int) : Rat := (n : Rat)

/-! ### near-square -/

/-- `square_and_near_square(lower, upper, b)`. -/
def squareAndNearSquare (R : Rat → Rat) (lower upper : Int) (b : Rat) : Py (List Field) :=
  if lower < 1 ∨ upper < 1 then .error .valueError else
  if upper < lower then .error .valueError else
  .ok ((pyRange lower (upper + 1)).flatMap (fun i => [rectangle R i i b b, rectangle R i (i + 1) b b]))

/-- `DesignNearSquare.__init__`: `n = floor(length / b) + 1`, then
    `square_and_near_square(1, n, b)`. -/
def nearSquareN (R : Rat → Rat) (length b : Rat) : Int := (R (length / b)).floor + 1

def nearSquareDomain (R : Rat → Rat) (length b : Rat) : Py (List Field) :=
  if b = 0 then .error .zeroDiv else squareAndNearSquare R 1 (nearSquareN R length b) b

/-! ### rectangular -/

/-- `ceil(L / b_max + 1)`. -/
def nLow (R : Rat → Rat) (L bmax : Rat) : Int := (R (R (L / bmax) + 1)).ceil
/-- `floor(L / b_min + 1)`. -/
def nHigh (R : Rat → Rat) (L bmin : Rat) : Int := (R (R (L / bmin) + 1)).floor

/-- `b = length_1 / (num_borehole - 1)`. -/
def spacingOf (R : Rat → Rat) (L : Rat) (n : Int) : Rat := R (L / iq (n - 1))

/-- the argument of `n_2 = floor(length_2 / b + 1)`. -/
def rectN2Arg (R : Rat → Rat) (L1 L2 : Rat) (n : Int) : Rat := R (R (L2 / spacingOf R L1 n) + 1)

/-- The `_iter == 0` block of `rectangular`. -/
def rectPre (R : Rat → Rat) (tr : Bool) (nMin n2 : Int) (b : Rat) : List Field :=
  (pyRange 1 nMin).map (fun i => trIf tr (rectangle R i 1 b b))
  ++ (pyRange 1 n2).map (fun j => trIf tr (rectangle R nMin j b b))

/-- The `for num_borehole in range(n_min, n_max + 1)` loop; state: `n_2_old`, `_iter == 0`. -/
def rectLoop (R : Rat → Rat) (L1 L2 : Rat) (tr : Bool) (nMin : Int) : List Int → Int → Bool → List Field
  | [], _, _ => []
  | n :: rest, n2old, first =>
    let b := spacingOf R L1 n
    let n2 := (rectN2Arg R L1 L2 n).floor
    (if first then rectPre R tr nMin n2 b else [])
    ++ (if n2old = n2 then [] else [trIf tr (rectangle R n n2 b b)])
    ++ rectLoop R L1 L2 tr nMin rest n2 false

/-- `rectangular(length_x, length_y, b_min, b_max)`. -/
def rectangular (R : Rat → Rat) (Lx Ly bmin bmax : Rat) : Py (List Field) :=
  let L1 := if Lx ≥ Ly then Lx else Ly
  let L2 := if Lx ≥ Ly then Ly else Lx
  let tr := if Lx ≥ Ly then false else true
  if bmin = 0 ∨ bmax = 0 then .error .zeroDiv else
  let nMin := nLow R L1 bmax
  let nMax := nHigh R L1 bmin
  let ns := pyRange nMin (nMax + 1)
  if ns ≠ [] ∧ ((1 : Int) ∈ ns ∨ L1 = 0) then .error .zeroDiv else
  .ok (rectLoop R L1 L2 tr nMin ns 1 true)

/-! ### bi-rectangular -/

/-- `n_2 = ceil(round(length_2 / b_max_2, 9) + 1)`. -/
def biN2 (R : Rat → Rat) (L2 bmax2 : Rat) : Int := (R (round9 R (R (L2 / bmax2)) + 1)).ceil

/-- The `_iter == 0` block of `bi_rectangular`. -/
def biPre (R : Rat → Rat) (tr : Bool) (n1 n2 : Int) (b1 b2 : Rat) : List Field :=
  (pyRange 1 n1).map (fun i => trIf tr (rectangle R i 1 b1 b2))
  ++ (pyRange 1 n2).map (fun j => trIf tr (rectangle R n1 j b1 b2))

/-- `bi_rectangular(length_x, length_y, b_min, b_max_x, b_max_y, transpose)`. -/
def biRectangular (R : Rat → Rat) (Lx Ly bmin bmaxx bmaxy : Rat) (tr : Bool) : Py (List Field) :=
  let L1 := if Lx ≥ Ly then Lx else Ly
  let L2 := if Lx ≥ Ly then Ly else Lx
  let bmax1 := if Lx ≥ Ly then bmaxx else bmaxy
  let bmax2 := if Lx ≥ Ly then bmaxy else bmaxx
  if bmin = 0 ∨ bmax1 = 0 then .error .zeroDiv else
  let nMin := nLow R L1 bmax1
  let nMax := nHigh R L1 bmin
  let ns := pyRange nMin (nMax + 1)
  if ns = [] then .ok [] else
  if bmax2 = 0 then .error .zeroDiv else
  let n2 := biN2 R L2 bmax2
  if n2 - 1 = 0 ∨ (1 : Int) ∈ ns then .error .zeroDiv else
  let b2 := spacingOf R L2 n2
  .ok (biPre R tr nMin n2 (spacingOf R L1 nMin) b2
       ++ ns.map (fun n1 => trIf tr (rectangle R n1 n2 (spacingOf R L1 n1) b2)))

/-- `bi_rectangle_nested(length_x, length_y, b_min, b_max_x, b_max_y)`. -/
def biRectangleNested (R : Rat → Rat) (Lx Ly bmin bmaxx bmaxy : Rat) : Py (List (List Field)) :=
  let L1 := if Lx ≥ Ly then Lx else Ly
  let L2 := if Lx ≥ Ly then Ly else Lx
  let bmax1 := if Lx ≥ Ly then bmaxx else bmaxy
  let bmax2 := if Lx ≥ Ly then bmaxy else bmaxx
  let tr := if Lx ≥ Ly then false else true
  if bmin = 0 ∨ bmax2 = 0 then .error .zeroDiv else
  let nMin := nLow R L2 bmax2
  let nMax := nHigh R L2 bmin
  (pyRange nMin (nMax + 1)).mapM (fun n2 =>
    if n2 - 1 = 0 then .error .zeroDiv
    else biRectangular R L1 L2 bmin bmax1 (spacingOf R L2 n2) tr)

/-! ### zoned -/

/-- The `while n_i1 < (n_1 - 2) or n_i2 < (n_2 - 2)` loop of `zoned_rectangle_domain`.
    Fuel `n_1 + n_2` always suffices (each pass increases `n_i1 + n_i2`, and a pass beyond the
    bounds raises in `zoned_rectangle`). -/
def zonedLoop (R : Rat → Rat) (n1 n2 : Int) (b1 b2 : Rat) (tr : Bool) : Nat → Int → Int → Py (List Field)
  | 0, _, _ => .error .other
  | fuel + 1, ni1, ni2 =>
    if ni1 < n1 - 2 ∨ ni2 < n2 - 2 then
      if b2 = 0 then .error .zeroDiv else
      let ratio := R (b1 / b2)
      if ni1 + 1 = 0 ∨ ni2 + 2 = 0 then .error .zeroDiv else
      let bi1 := R (R (iq (n1 - 1) * b1) / iq (ni1 + 1))
      let bi2p1 := R (R (iq (n2 - 1) * b2) / iq (ni2 + 2))
      if bi2p1 = 0 then .error .zeroDiv else
      let ratio1 := R (bi1 / bi2p1)
      let ni1' := if ratio1 > ratio then ni1 + 1 else ni1
      let ni2' := if ratio1 > ratio then ni2 else ni2 + 1
      match zonedRectangle R n1 n2 b1 b2 ni1' ni2' with
      | .error e => .error e
      | .ok z =>
        match zonedLoop R n1 n2 b1 b2 tr fuel ni1' ni2' with
        | .error e => .error e
        | .ok rest => .ok (trIf tr z :: rest)
    else .ok []

/-- `zoned_rectangle_domain(length_x, length_y, n_x, n_y, transpose)`. -/
def zonedRectangleDomain (R : Rat → Rat) (Lx Ly : Rat) (nx ny : Int) (tr : Bool) : Py (List Field) :=
  let L1 := if Lx ≥ Ly then Lx else Ly
  let L2 := if Lx ≥ Ly then Ly else Lx
  let n1 := if Lx ≥ Ly then nx else ny
  let n2 := if Lx ≥ Ly then ny else nx
  if n1 - 1 = 0 ∨ n2 - 1 = 0 then .error .zeroDiv else
  let b1 := spacingOf R L1 n1
  let b2 := spacingOf R L2 n2
  match zonedRectangle R n1 n2 b1 b2 1 1 with
  | .error e => .error e
  | .ok z =>
    match zonedLoop R n1 n2 b1 b2 tr (n1.toNat + n2.toNat) 1 1 with
    | .error e => .error e
    | .ok rest => .ok (trIf tr z :: rest)

/-- The `(j, k)` index pairs visited by the main loop of `bi_rectangle_zoned_nested`. -/
def zPath (len1 len2 : Nat) : Nat → Nat → Nat → Nat → List (Nat × Nat)
  | 0, _, _, _ => []
  | cnt + 1, i, j, k =>
    (j, k) ::
      (if i % 2 = 0 then
        (if j + 1 < len1 then zPath len1 len2 cnt (i + 1) (j + 1) k else zPath len1 len2 cnt (i + 1) j (k + 1))
       else
        (if k + 1 < len2 then zPath len1 len2 cnt (i + 1) j (k + 1) else zPath len1 len2 cnt (i + 1) (j + 1) k))

/-- The `index_l == 0` block: one borehole → line → L → U → open rectangle. -/
def zonedPre (R : Rat → Rat) (tr : Bool) (nMin1 nMin2 : Int) (sx sy : Rat) : List Field :=
  (pyRange 1 (nMin1 + 1)).map (fun l => trIf tr (rectangle R l 1 sx sy))
  ++ (pyRange 2 (nMin2 + 1)).map (fun l => trIf tr (lShape R nMin1 l sx sy))
  ++ (pyRange 2 (nMin2 + 1)).map (fun l => trIf tr (lopU R nMin1 nMin2 sx sy l))
  ++ (pyRange 1 (nMin1 - 1)).map (fun l => trIf tr (cShape R nMin1 nMin2 sx sy l))

/-- `bi_rectangle_zoned_nested(length_x, length_y, b_min, b_max_x, b_max_y)`. -/
def biRectangleZonedNested (R : Rat → Rat) (Lx Ly bmin bmaxx bmaxy : Rat) : Py (List (List Field)) :=
  let L1 := if Lx ≥ Ly then Lx else Ly
  let L2 := if Lx ≥ Ly then Ly else Lx
  let bmax1 := if Lx ≥ Ly then bmaxx else bmaxy
  let bmax2 := if Lx ≥ Ly then bmaxy else bmaxx
  let tr := if Lx ≥ Ly then false else true
  if bmin = 0 ∨ bmax1 = 0 ∨ bmax2 = 0 then .error .zeroDiv else
  let nMin1 := nLow R L1 bmax1
  let nMax1 := nHigh R L1 bmin
  let nMin2 := nLow R L2 bmax2
  let nMax2 := nHigh R L2 bmin
  let n1s := pyRange nMin1 (nMax1 + 1)
  let n2s := pyRange nMin2 (nMax2 + 1)
  let iters := n1s.length + n2s.length - 1
  if iters = 0 then .ok [[]] else
  if nMin1 - 1 = 0 ∨ nMin2 - 1 = 0 then .error .zeroDiv else
  let pre := zonedPre R tr nMin1 nMin2 (spacingOf R L1 nMin1) (spacingOf R L2 nMin2)
  match (zPath n1s.length n2s.length iters 0 0 0).mapM (fun (jk : Nat × Nat) =>
      match n1s[jk.1]?, n2s[jk.2]? with
      | some a, some b => zonedRectangleDomain R L1 L2 a b tr
      | _, _ => .error .indexError) with
  | .error e => .error e
  | .ok parts => .ok [pre ++ parts.flatten]

/-! ### near-boundary detection (exact instance only; used by the driver, not by the theorems)

  A case is *near a branch boundary* when some argument of `floor` / `ceil` lies within
  `1e-12` (relative) of an integer, the argument of `round(·, 9)` within `1e-3` of a tie in the
  ninth decimal, or the two sides of `ratio_1 > ratio` coincide.  Only there may binary64
  rounding take the other branch; the driver reports the flag and the harness accepts a
  different list shape between the two instances only when it is set. -/

def nearInt (q : Rat) : Bool :=
  let d := ratAbs (q - (roundHalfEven q : Rat))
  decide (d ≤ (1 / 1000000000000 : Rat) * ratMax 1 (ratAbs q))

def nearTie9 (q : Rat) : Bool :=
  let s := q * 1000000000
  let fr := s - (s.floor : Rat)
  decide (ratAbs (fr - 1 / 2) ≤ (1 / 1000 : Rat))

def nsOf (L bmin bmax : Rat) : List Int := pyRange (nLow id L bmax) (nHigh id L bmin + 1)

def nbNearSquare (length b : Rat) : Bool := nearInt (length / b)

def nbRectangular (Lx Ly bmin bmax : Rat) : Bool :=
  let L1 := if Lx ≥ Ly then Lx else Ly
  let L2 := if Lx ≥ Ly then Ly else Lx
  nearInt (L1 / bmax + 1) || nearInt (L1 / bmin + 1)
    || (nsOf L1 bmin bmax).any (fun n => nearInt (rectN2Arg id L1 L2 n))

def nbBiRectangular (L1 L2 bmin bmax1 bmax2 : Rat) : Bool :=
  nearInt (L1 / bmax1 + 1) || nearInt (L1 / bmin + 1) || nearTie9 (L2 / bmax2)

def nbNested (Lx Ly bmin bmaxx bmaxy : Rat) : Bool :=
  let L1 := if Lx ≥ Ly then Lx else Ly
  let L2 := if Lx ≥ Ly then Ly else Lx
  let bmax1 := if Lx ≥ Ly then bmaxx else bmaxy
  let bmax2 := if Lx ≥ Ly then bmaxy else bmaxx
  nearInt (L2 / bmax2 + 1) || nearInt (L2 / bmin + 1)
    || (nsOf L2 bmin bmax2).any (fun n2 => nbBiRectangular L1 L2 bmin bmax1 (spacingOf id L2 n2))

/-- exact tie `ratio_1 = ratio` somewhere along the `while` loop (integers only). -/
def zonedTie (n1 n2 : Int) : Nat → Int → Int → Bool
  | 0, _, _ => false
  | fuel + 1, ni1, ni2 =>
    if ni1 < n1 - 2 ∨ ni2 < n2 - 2 then
      let l := (n1 - 1) * (ni2 + 2)
      let r := (ni1 + 1) * (n2 - 1)
      if l = r then true
      else if l > r then zonedTie n1 n2 fuel (ni1 + 1) ni2 else zonedTie n1 n2 fuel ni1 (ni2 + 1)
    else false

def nbZoned (Lx Ly bmin bmaxx bmaxy : Rat) : Bool :=
  let L1 := if Lx ≥ Ly then Lx else Ly
  let L2 := if Lx ≥ Ly then Ly else Lx
  let bmax1 := if Lx ≥ Ly then bmaxx else bmaxy
  let bmax2 := if Lx ≥ Ly then bmaxy else bmaxx
  let n1s := nsOf L1 bmin bmax1
  let n2s := nsOf L2 bmin bmax2
  nearInt (L1 / bmax1 + 1) || nearInt (L1 / bmin + 1) || nearInt (L2 / bmax2 + 1) || nearInt (L2 / bmin + 1)
    || (zPath n1s.length n2s.length (n1s.length + n2s.length - 1) 0 0 0).any (fun jk =>
          match n1s[jk.1]?, n2s[jk.2]? with
          | some a, some b => zonedTie a b (a.toNat + b.toNat) 1 1
          | _, _ => false)

/-! ### line protocol -/

def hashField (f : Field) : UInt64 :=
  let bits (q : Rat) : UInt64 := (Float.ofInt q.num / Float.ofNat q.den).toBits
  f.foldl (fun h p => (h * 1099511628211 + bits p.1) * 1099511628211 + bits p.2) 1469598103934665603

def showShapeE : Py (List (List Field)) → String
  | .error e => "raise:" ++ e.name
  | .ok l => "ok:" ++ String.join (l.map (fun fs => ",".intercalate (fs.map (fun f => toString f.length)) ++ "|"))

def showShapeF : Py (List (List Field)) → String
  | .error e => "raise:" ++ e.name
  | .ok l => "ok:" ++ String.join (l.map (fun fs =>
      ",".intercalate (fs.map (fun f => toString f.length ++ ":" ++ toString (hashField f))) ++ "|"))

def devPoint (p q : Point) : Rat :=
  ratMax (ratAbs (p.1 - q.1) / ratMax 1 (ratAbs p.1)) (ratAbs (p.2 - q.2) / ratMax 1 (ratAbs p.2))

/-- max over all points of `|exact − binary64| / max(1, |exact|)`, when the shapes agree. -/
def deviation (e f : List (List Field)) : Option Rat :=
  if e.map (·.map List.length) = f.map (·.map List.length) then
    some <| (List.zip e.flatten.flatten f.flatten.flatten).foldl (fun m pq => ratMax m (devPoint pq.1 pq.2)) 0
  else none

/-- `S <near-boundary 0/1> <exact shape> <binary64 shape:hash> <max deviation or ->`. -/
def summary (nb : Bool) (e f : Py (List (List Field))) : String :=
  let dev := match e, f with
    | .ok a, .ok b => (match deviation a b with | some d => showRat d | none => "-")
    | _, _ => "-"
  s!"S {if nb then 1 else 0} {showShapeE e} {showShapeF f} {dev}"

def showFull : Py (List (List Field)) → String
  | .error e => "raise " ++ e.name
  | .ok l => "ok " ++ showNested l

def single (r : Py (List Field)) : Py (List (List Field)) := r.map (fun l => [l])

def gen (name : String) (R : Rat → Rat) (a : List Rat) (k : List Int) : Option (Py (List (List Field))) :=
  match name, a, k with
  | "ns", [length, b], [] => some (single (nearSquareDomain R length b))
  | "sq", [b], [lo, hi] => some (single (squareAndNearSquare R lo hi b))
  | "rect", [lx, ly, bmin, bmax], [] => some (single (rectangular R lx ly bmin bmax))
  | "birect", [lx, ly, bmin, sx, sy], [tr] => some (single (biRectangular R lx ly bmin sx sy (tr ≠ 0)))
  | "nest", [lx, ly, bmin, sx, sy], [] => some (biRectangleNested R lx ly bmin sx sy)
  | "zdom", [lx, ly], [nx, ny, tr] => some (single (zonedRectangleDomain R lx ly nx ny (tr ≠ 0)))
  | "zoned", [lx, ly, bmin, sx, sy], [] => some (biRectangleZonedNested R lx ly bmin sx sy)
  | _, _, _ => none

def nbOf (name : String) (a : List Rat) (k : List Int) : Bool :=
  match name, a, k with
  | "ns", [length, b], [] => nbNearSquare length b
  | "rect", [lx, ly, bmin, bmax], [] => nbRectangular lx ly bmin bmax
  | "birect", [lx, ly, bmin, sx, sy], [_] =>
      if lx ≥ ly then nbBiRectangular lx ly bmin sx sy else nbBiRectangular ly lx bmin sy sx
  | "nest", [lx, ly, bmin, sx, sy], [] => nbNested lx ly bmin sx sy
  | "zdom", [lx, ly], [nx, ny, _] =>
      let n1 := if lx ≥ ly then nx else ny
      let n2 := if lx ≥ ly then ny else nx
      zonedTie n1 n2 (n1.toNat + n2.toNat) 1 1
  | "zoned", [lx, ly, bmin, sx, sy], [] => nbZoned lx ly bmin sx sy
  | _, _, _ => false

/-- `dom <gen> <E|F|S> <nrat> r… k…`: the generator `gen` on `nrat` rationals followed by
    integers; `E`/`F` print every coordinate of the exact / binary64 instance, `S` the summary. -/
def cmd : List String → Option String
  | "dom" :: name :: mode :: nr :: rest => some <|
      match nr.toNat? with
      | none => "bad-arg"
      | some nr =>
        match parseRats (rest.take nr), parseInts (rest.drop nr) with
        | some a, some k =>
          if mode = "S" then
            match gen name id a k, gen name fl64 a k with
            | some e, some f => summary (nbOf name a k) e f
            | _, _ => "bad-arg"
          else
            match pickR mode with
            | none => "bad-arg"
            | some R => (match gen name R a k with | some r => showFull r | none => "bad-arg")
        | _, _ => "bad-arg"
  | _ => none

end GHEVerif.Domains
