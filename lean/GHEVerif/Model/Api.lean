/-
  C13 — model of the objects whose *mutable state* the property names
  (ghedesigner/manager.py, design.py, search_routines.py, ground_heat_exchangers.py, gfunction.py).

  What is modelled is *which arguments the stateful wrappers pass* to the numerical code.  All
  numerics are parameters (`Kernels`):  `sim` (everything below `GHE.simulate`: equivalent
  borehole, short-time g, g-function values, `_simulate_detailed`), `buildOk`/`gcalcOk` (whether
  constructing a GHE / a long-time g-function at a height raises), `brent` (scipy's `brentq` as an
  interaction tree), `strategy` (the whole search routine of a design, as an interaction tree over
  `calculate_excess` / `initialize_ghe` / `compute_g_functions+size`), `fluidOk`, `geomOk`.

  Three layers:
   * one `GHE` object and the shared borehole cell it aliases (`simulate`, `size`,
     `computeG`, external writes of `H`)             — `GOp`, `gstep`, `runG`;
   * one search object driving GHEs through the shared cell  — `Search`, `runSearch`;
   * managers, the heap of borehole objects, `set_*`, `set_design`, `find_design` — `Op`, `step`.
  Core Lean only.
-/
import GHEVerif.Model.Py
import GHEVerif.Gen.Funcs

namespace GHEVerif.Api
open GHEVerif

abbrev Val := String          -- opaque token: the argument tuple a component was constructed from
abbrev FieldId := Nat         -- a candidate field (list of coordinates), named by the strategy
abbrev Temps := Rat × Rat     -- (max hp_eft, min hp_eft)

inductive Method where | hybrid | hourly | other
  deriving DecidableEq, Repr, Inhabited
/-- `fill_value` of the `interp1d` objects in `GFunction.interpolation_table`: `""` or `"extrapolate"`. -/
inductive Fill where | empty | extrapolate
  deriving DecidableEq, Repr, Inhabited
inductive Kind where | linear | quadratic | cubic
  deriving DecidableEq, Repr, Inhabited
inductive GeomKind where | nearSquare | rectangle | biRectangle | biZoned | biRectangleConstrained | rowWise
  deriving DecidableEq, Repr, Inhabited

structure SimParams where
  months : Nat            -- end_month (start_month is the literal 1 in set_simulation_parameters)
  maxEft : Rat
  minEft : Rat
  maxH : Rat
  minH : Rat
  maxBh : Option Nat
  cont : Bool
  deriving DecidableEq, Repr, Inhabited

structure Loads where
  tok : Val
  len : Nat
  deriving DecidableEq, Repr, Inhabited

structure Geom where
  kind : GeomKind
  tok : Val
  deriving DecidableEq, Repr, Inhabited

/-- The immutable things a GHE is built from (references held by Design*/Bisection*/GHE). -/
structure Static where
  fluid : Val
  pipe : Val
  grout : Val
  soil : Val
  pipeType : Val
  loads : Loads
  sim : SimParams
  flow : Rat
  flowType : FlowType
  deriving DecidableEq, Repr, Inhabited

/-- `GFunction`: keys of `g_lts` in dict order, and `interpolation_table` (`none` = empty dict). -/
structure GF where
  tok : Val                       -- which table this is ("calc": computed live for this field; anything else: assigned from outside)
  heights : List Rat
  table : Option (Kind × Fill)    -- `some p`: built, with `built_for = p`
  deriving DecidableEq, Repr, Inhabited

/-- What `g_function_interpolation` handed to the simulation. -/
structure GLook where
  heights : List Rat
  interp : Option (Kind × Fill)   -- `none`: the single stored curve was returned as is
  hEq : Rat
  deriving DecidableEq, Repr, Inhabited

/-- Every argument that reaches the numerical code in one `GHE.simulate` call. -/
structure SimArgs where
  st : Static
  field : FieldId
  D : Rat
  rb : Rat
  hLoad : Rat          -- the height the borehole had when `hybrid_load` was built
  gtok : Val           -- the g-function table held during the call
  look : GLook
  h : Rat              -- `self.bhe.b.H` during the call
  method : Method
  nSteps : Nat         -- hourly: length of the rebuilt time axis; hybrid: 0 (axis is the hybrid load's)
  deriving DecidableEq, Repr, Inhabited

/-- `self.times` of a GHE. -/
inductive Axis where | empty | hybrid (hLoad : Rat) | hourly (n : Nat)
  deriving DecidableEq, Repr, Inhabited

structure GHE where
  st : Static
  field : FieldId
  hLoad : Rat
  gf : GF
  times : Axis
  last : Option SimArgs        -- what `hp_eft`, `dTb`, `loading` currently hold
  trace : List SimArgs         -- ghost: every completed simulation of this object, oldest first
  deriving DecidableEq, Repr, Inhabited

/-- A `GHEBorehole` object.  Only `H` is ever written. -/
structure BH where
  H : Rat
  D : Rat
  rb : Rat
  deriving DecidableEq, Repr, Inhabited

/-- `scipy.optimize.brentq` seen from outside: it asks for objective values and finally returns. -/
inductive Probe where
  | ret (x : Rat)
  | raise (e : PyErr)
  | ask (h : Rat) (k : Rat → Probe)

/-- A search routine seen from outside (constructor of a Bisection*/RowWise object included). -/
inductive Search where
  | ret (f : FieldId)                            -- the constructor returns; `selected_coordinates = f`
  | raise (e : PyErr)
  | ctor (f : FieldId) (k : Search)              -- Bisection1D.__init__: GHE for `f` at the borehole's *current* height
  | eval (f : FieldId) (h : Rat) (k : Rat → Search)   -- calculate_excess(f, h)
  | init (f : FieldId) (h : Rat) (k : Search)         -- initialize_ghe(f, h)
  | sizeCur (k : Rat → Search)                   -- self.ghe.compute_g_functions(); self.ghe.size(HYBRID); read b.H

/-- The physical inputs of a design: what `find_design` may depend on. -/
structure Config where
  st : Static
  geom : Geom
  D : Rat
  rb : Rat
  keepContour : List Bool
  deriving DecidableEq, Repr, Inhabited

structure Kernels where
  sim : SimArgs → Temps
  buildOk : Static → FieldId → Rat → Rat → Rat → Bool     -- st field D rb h : GHE(...) at height h does not raise
  gcalcOk : Static → FieldId → Rat → Rat → Rat → Bool     -- st field D rb h : long-time g-function at h does not raise
  brent : Rat → Rat → Probe
  strategy : Config → Search
  fluidOk : Val → Bool
  geomOk : Geom → List Bool → Bool                        -- Design*.__init__ (candidate generation) does not raise

/-! ### `GFunction.g_function_interpolation` -/

def listMax : List Rat → Rat
  | [] => 0
  | x :: xs => xs.foldl ratMax x
def listMin : List Rat → Rat
  | [] => 0
  | x :: xs => xs.foldl ratMin x

def closeTol : Rat := 1 / 1000000
def tol : Rat := 1 / 1000

/-- `h_eq` after the two "close to the outer bounds" snaps. -/
def snap (hs : List Rat) (h : Rat) : Rat :=
  let h1 := if ratAbs (h - listMax hs) < closeTol then listMax hs else h
  if ratAbs (h1 - listMin hs) < closeTol then listMin hs else h1

def fillOf (hs : List Rat) (h : Rat) : Fill :=
  let he := snap hs h
  if (listMin hs ≤ he ∧ he ≤ listMax hs) ∨ ratAbs (listMin hs - he) < tol then .empty else .extrapolate

def kindOf (n : Nat) : Kind := if 5 ≤ n then .cubic else if 3 ≤ n then .quadratic else .linear

/-- `g_function_interpolation(B / H)` with `kind="default"`; `h_eq = 1/(B/H)·B = H`.
    `hs`: stored heights, `tb`: the interpolation table (`none` = empty).  Returns the descriptor
    of what was interpolated and the (possibly newly built) table. -/
def lookupCore (hs : List Rat) (tb : Option (Kind × Fill)) (h : Rat) : Py GLook × Option (Kind × Fill) :=
  match hs with
  | [] => (.error .valueError, tb)                    -- max([]) raises
  | [h0] =>
      if h0 = 0 then (.error .zeroDiv, tb)
      else if (snap [h0] h - h0) / h0 < tol ∨ listMin [h0] - snap [h0] h < tol then
        (.ok { heights := [h0], interp := none, hEq := snap [h0] h }, tb)
      else (.error .valueError, tb)
  | h0 :: h1 :: t =>
      let hs := h0 :: h1 :: t
      let want := (kindOf hs.length, fillOf hs h)
      -- fix 5ab5ff6: (re)built when empty or built for another (kind, fill_value); `built_for` is the pair stored
      let t' := if tb = some want then tb.getD want else want
      if t'.2 = .empty ∧ (snap hs h < listMin hs ∨ listMax hs < snap hs h) then (.error .valueError, some t')   -- interp1d bounds error
      else (.ok { heights := hs, interp := some t', hEq := snap hs h }, some t')

def lookup (gf : GF) (h : Rat) : Py GLook × GF :=
  ((lookupCore gf.heights gf.table h).1, { gf with table := (lookupCore gf.heights gf.table h).2 })

/-! ### One GHE -/

def mkGHE (st : Static) (f : FieldId) (h : Rat) : GHE :=
  { st := st, field := f, hLoad := h, gf := { tok := "calc", heights := [h], table := none }, times := .empty, last := none, trace := [] }

/-- `n_hours` and `len(q_dot)` of the HOURLY branch (fix 05a458d: the repeated loads are cut at the horizon). -/
def hourlyAxis (st : Static) : Nat × Nat :=
  let nHours := st.sim.months * 730                  -- int(n_months / 12.0 * 8760.0)
  let nYears := (nHours + 8759) / 8760               -- ceil(n_hours / 8760)
  if st.loads.len / 8760 < nYears then (nHours, min (st.loads.len * nYears) nHours)   -- (q_dot * n_years)[:n_hours]
  else (st.loads.len, st.loads.len)

/-- `GHE.simulate(method)`.  Reads `b.H` (never writes it), the g-function and its table. -/
def simulate (K : Kernels) (b : BH) (g : GHE) (m : Method) : Py Temps × GHE :=
  if b.H = 0 then (.error .zeroDiv, g) else          -- b_over_h = b / self.bhe.b.H
  match lookup g.gf b.H with
  | (.error e, gf') => (.error e, { g with gf := gf' })
  | (.ok look, gf') =>
    let g1 := { g with gf := gf' }
    match m with
    | .hybrid =>
        let a : SimArgs := { st := g.st, field := g.field, D := b.D, rb := b.rb, hLoad := g.hLoad, gtok := g.gf.tok, look := look, h := b.H, method := .hybrid, nSteps := 0 }
        (.ok (K.sim a), { g1 with times := .hybrid g.hLoad, last := some a, trace := g.trace ++ [a] })
    | .hourly =>
        let (n, q) := hourlyAxis g.st
        let g2 := { g1 with times := .hourly n }      -- always rebuilt (fix d422d00)
        if n < q then (.error .indexError, g2)        -- more loads than time steps
        else
          let a : SimArgs := { st := g.st, field := g.field, D := b.D, rb := b.rb, hLoad := g.hLoad, gtok := g.gf.tok, look := look, h := b.H, method := .hourly, nSteps := n }
          (.ok (K.sim a), { g2 with last := some a, trace := g.trace ++ [a] })
    | .other => (.error .valueError, g1)

def costOf (st : Static) (t : Temps) : Rat := Gen.cost st.sim.maxEft st.sim.minEft t.1 t.2

/-- `local_objective(h)` of `GHE.size`: writes the shared height, simulates, returns the excess. -/
def objective (K : Kernels) (m : Method) (h : Rat) (b : BH) (g : GHE) : Py Rat × BH × GHE :=
  let b1 := { b with H := h }
  match simulate K b1 g m with
  | (.error e, g') => (.error e, b1, g')
  | (.ok t, g') => (.ok (costOf g.st t), b1, g')

def runProbe (K : Kernels) (m : Method) : Probe → BH → GHE → Py Rat × BH × GHE
  | .ret x, b, g => (.ok x, b, g)
  | .raise e, b, g => (.error e, b, g)
  | .ask h k, b, g =>
      match objective K m h b g with
      | (.error e, b', g') => (.error e, b', g')
      | (.ok v, b', g') => runProbe K m (k v) b' g'

/-- `int(x / abs(x))`. -/
def sgn (x : Rat) : Py Int := if x = 0 then .error .zeroDiv else .ok (if x < 0 then -1 else 1)

/-- `utilities.solve_root(x, objective, lower, upper)` against the stateful objective. -/
def solveRoot (K : Kernels) (m : Method) (lo hi : Rat) (b : BH) (g : GHE) : Py Rat × BH × GHE :=
  match objective K m lo b g with
  | (.error e, b1, g1) => (.error e, b1, g1)
  | (.ok minus, b1, g1) =>
    match objective K m hi b1 g1 with
    | (.error e, b2, g2) => (.error e, b2, g2)
    | (.ok plus, b2, g2) =>
      match sgn minus with
      | .error e => (.error e, b2, g2)
      | .ok sm =>
        match sgn plus with
        | .error e => (.error e, b2, g2)
        | .ok sp =>
          if sp ≠ sm then runProbe K m (K.brent lo hi) b2 g2
          else if sm = -1 then (.ok lo, b2, g2)
          else (.ok hi, b2, g2)

/-- `GHE.size(method)` (with the closing re-simulation of fix 158310c). -/
def size (K : Kernels) (m : Method) (b : BH) (g : GHE) : Py Unit × BH × GHE :=
  let sp := g.st.sim
  let b0 := { b with H := (sp.maxH + sp.minH) / 2 }
  match solveRoot K m sp.minH sp.maxH b0 g with
  | (.error e, b1, g1) => (.error e, b1, g1)
  | (.ok x, b1, g1) =>
    let b2 := { b1 with H := x }
    match simulate K b2 g1 m with
    | (.error e, g2) => (.error e, b2, g2)
    | (.ok _, g2) => (.ok (), b2, g2)

/-- Keys of the dict built by `compute_g_functions` from `[min, avg, max]` (insertion order, duplicates collapse). -/
def cgfHeights (sp : SimParams) : List Rat :=
  let a := sp.minH
  let m := (sp.minH + sp.maxH) / 2
  let c := sp.maxH
  if a = m then (if c = a then [a] else [a, c])
  else if c = a ∨ c = m then [a, m] else [a, m, c]

/-- `BaseGHE.compute_g_functions()`: a new GFunction object (empty table) at three heights. -/
def computeG (K : Kernels) (b : BH) (g : GHE) : Py Unit × GHE :=
  let sp := g.st.sim
  if [sp.minH, (sp.minH + sp.maxH) / 2, sp.maxH].all (fun h => K.gcalcOk g.st g.field b.D b.rb h) then
    (.ok (), { g with gf := { tok := "calc", heights := cgfHeights sp, table := none } })
  else (.error .other, g)

/-- Operations on one GHE and the borehole cell it aliases. -/
inductive GOp where
  | setH (h : Rat)            -- any other holder of the borehole writes its height
  | simulate (m : Method)
  | size (m : Method)
  | cgf
  | setGF (tok : Val) (heights : List Rat)   -- `ghe.gFunction = <another GFunction object>` (new object: empty table)
  deriving Inhabited

structure GSt where
  b : BH
  g : GHE
  deriving DecidableEq, Repr, Inhabited

/-- What a caller sees of one operation: the error or the temperatures held by the object afterwards. -/
inductive Out where
  | unit
  | temps (t : Temps)
  | err (e : PyErr)
  deriving DecidableEq, Repr, Inhabited

def gstep (K : Kernels) : GOp → GSt → Out × GSt
  | .setH h, s => (.unit, { s with b := { s.b with H := h } })
  | .simulate m, s =>
      match simulate K s.b s.g m with
      | (.error e, g') => (.err e, { s with g := g' })
      | (.ok t, g') => (.temps t, { s with g := g' })
  | .size m, s =>
      match size K m s.b s.g with
      | (.error e, b', g') => (.err e, { b := b', g := g' })
      | (.ok _, b', g') => ((match g'.last with | some a => .temps (K.sim a) | none => .unit), { b := b', g := g' })
  | .cgf, s =>
      match computeG K s.b s.g with
      | (.error e, g') => (.err e, { s with g := g' })
      | (.ok _, g') => (.unit, { s with g := g' })
  | .setGF tok hs, s => (.unit, { s with g := { s.g with gf := { tok := tok, heights := hs, table := none } } })

def runG (K : Kernels) : List GOp → GSt → List Out × GSt
  | [], s => ([], s)
  | op :: r, s =>
      let (o, s1) := gstep K op s
      let (os, s2) := runG K r s1
      (o :: os, s2)

/-- The same object as new: no interpolation table, no time axis, no results. -/
def resetG (g : GHE) : GHE := { g with gf := { g.gf with table := none }, times := .empty, last := none, trace := [] }
def resetS (s : GSt) : GSt := { s with g := resetG s.g }

/-- Specification of a sequence: every call is made on the object *as new* (same field, same
    stored heights, same borehole height) — no memory of earlier calls except the height. -/
def specG (K : Kernels) : List GOp → GSt → List Out
  | [], _ => []
  | op :: r, s =>
      let (o, s1) := gstep K op (resetS s)
      o :: specG K r s1

/-! ### One search object -/

/-- State seen by a search object: the shared borehole (height `none` = not known to the
    specification) and `self.ghe`; `log` collects the traces of the GHEs it has dropped. -/
structure SS where
  H : Option Rat
  D : Rat
  rb : Rat
  cur : Option GHE
  log : List SimArgs
  deriving DecidableEq, Repr, Inhabited

def retire (s : SS) : List SimArgs := s.log ++ (match s.cur with | some g => g.trace | none => [])

/-- `initialize_ghe(coordinates, h)`: write the shared height, then build g-function and GHE there. -/
def initGHE (K : Kernels) (st : Static) (f : FieldId) (h : Rat) (s : SS) : Py Unit × SS :=
  if st.flowType = .other then (.error .valueError, s) else      -- retrieve_flow, before the write
  let s1 := { s with H := some h }
  if K.gcalcOk st f s.D s.rb h && K.buildOk st f s.D s.rb h then
    (.ok (), { s1 with cur := some (mkGHE st f h), log := retire s })
  else (.error .other, s1)

def runSearch (K : Kernels) (st : Static) : Search → SS → Py FieldId × SS
  | .ret f, s => (.ok f, s)
  | .raise e, s => (.error e, s)
  | .ctor f k, s =>
      match s.H with
      | none => runSearch K st k { s with cur := none, log := retire s }      -- specification: placeholder object
      | some h =>
          if K.gcalcOk st f s.D s.rb h && K.buildOk st f s.D s.rb h then
            runSearch K st k { s with cur := some (mkGHE st f h), log := retire s }
          else (.error .other, s)
  | .init f h k, s =>
      match initGHE K st f h s with
      | (.error e, s1) => (.error e, s1)
      | (.ok _, s1) => runSearch K st k s1
  | .eval f h k, s =>
      match initGHE K st f h s with
      | (.error e, s1) => (.error e, s1)
      | (.ok _, s1) =>
        match s1.cur with
        | none => (.error .other, s1)
        | some g =>
          match simulate K { H := h, D := s1.D, rb := s1.rb } g .hybrid with
          | (.error e, g1) => (.error e, { s1 with cur := some g1 })
          | (.ok t, g1) => runSearch K st (k (costOf st t)) { s1 with cur := some g1 }
  | .sizeCur k, s =>
      match s.H, s.cur with
      | some h, some g =>
          let b : BH := { H := h, D := s.D, rb := s.rb }
          match computeG K b g with
          | (.error e, g1) => (.error e, { s with cur := some g1 })
          | (.ok _, g1) =>
            match size K .hybrid b g1 with
            | (.error e, b2, g2) => (.error e, { s with H := some b2.H, cur := some g2 })
            | (.ok _, b2, g2) => runSearch K st (k b2.H) { s with H := some b2.H, cur := some g2 }
      | _, _ => (.error .other, s)

/-- The observable outcome of `find_design`. -/
structure Result where
  field : FieldId
  H : Rat
  ghe : GHE                 -- `_search.ghe`: stored heights, table, axis, reported simulation (`last`), its trace
  log : List SimArgs        -- every simulation made by dropped GHEs, in order
  deriving DecidableEq, Repr, Inhabited

def Result.temps (K : Kernels) (r : Result) : Option Temps := r.ghe.last.map K.sim

/-- `_design.find_design()` then `ghe.compute_g_functions()`, `ghe.size(HYBRID)`, from search state `s`. -/
def designFrom (K : Kernels) (cfg : Config) (s : SS) : Py Result × SS :=
  match runSearch K cfg.st (K.strategy cfg) s with
  | (.error e, s1) => (.error e, s1)
  | (.ok f, s1) =>
    match s1.H, s1.cur with
    | some h, some g =>
        let b : BH := { H := h, D := s1.D, rb := s1.rb }
        match computeG K b g with
        | (.error e, g1) => (.error e, { s1 with cur := some g1 })
        | (.ok _, g1) =>
          match size K .hybrid b g1 with
          | (.error e, b2, g2) => (.error e, { s1 with H := some b2.H, cur := some g2 })
          | (.ok _, b2, g2) => (.ok { field := f, H := b2.H, ghe := g2, log := s1.log }, { s1 with H := some b2.H, cur := some g2 })
    | _, _ => (.error .other, s1)

/-- **The pure specification**: a function of the physical inputs only (no borehole height,
    no earlier object, no heap). -/
def design (K : Kernels) (cfg : Config) : Py Result :=
  (designFrom K cfg { H := none, D := cfg.D, rb := cfg.rb, cur := none, log := [] }).1

/-! ### Managers and the heap of borehole objects -/

/-- A `Design*` object: the *references* captured by `set_design`. -/
structure Snapshot where
  flow : Rat
  flowType : FlowType
  bh : Option Nat
  pipeType : Option Val
  fluid : Option Val
  pipe : Option Val
  grout : Option Val
  soil : Option Val
  sim : Option SimParams
  geom : Geom
  loads : Option Loads
  keepContour : List Bool
  deriving DecidableEq, Repr, Inhabited

structure Manager where
  fluid : Option Val := none
  grout : Option Val := none
  soil : Option Val := none
  pipe : Option Val := none
  pipeType : Option Val := none
  bh : Option Nat := none            -- reference into the heap
  sim : Option SimParams := none
  loads : Option Loads := none
  geomType : Option GeomKind := none
  geom : Option Geom := none
  design : Option Snapshot := none
  search : Option (Nat × Result) := none      -- `_search`: (borehole reference, outcome)
  deriving DecidableEq, Repr, Inhabited

structure World where
  heap : List BH := []
  mgrs : List Manager := []
  keepContour : List Bool := [true, false]     -- the default-argument object of DesignBiRectangleConstrained
  deriving DecidableEq, Repr, Inhabited

inductive Op where
  | newManager
  | setFluid (m : Nat) (v : Val)
  | setGrout (m : Nat) (v : Val)
  | setSoil (m : Nat) (v : Val)
  | setPipe (m : Nat) (ptype : Val) (v : Val)          -- the four set_*_pipe methods
  | setPipeType (m : Nat) (ptype : Option Val)         -- set_pipe_type (`none`: unsupported string)
  | setBorehole (m : Nat) (h d dia : Rat)
  | setSim (m : Nat) (sp : SimParams)
  | setLoads (m : Nat) (l : Loads)
  | setGeomType (m : Nat) (k : Option GeomKind)        -- set_design_geometry_type
  | setGeom (m : Nat) (g : Geom)                       -- the six set_geometry_constraints_* methods
  | setDesign (m : Nat) (flow : Rat) (ft : FlowType)
  | findDesign (m : Nat)
  deriving Repr, Inhabited

def Snapshot.static? (d : Snapshot) : Option Static :=
  match d.fluid, d.pipe, d.grout, d.soil, d.pipeType, d.loads, d.sim with
  | some fl, some pi, some gr, some so, some pt, some lo, some sp =>
      some { fluid := fl, pipe := pi, grout := gr, soil := so, pipeType := pt, loads := lo, sim := sp, flow := d.flow, flowType := d.flowType }
  | _, _, _, _, _, _, _ => none

def updMgr (w : World) (m : Nat) (f : Manager → Manager) : Py Unit × World :=
  match w.mgrs[m]? with
  | none => (.error .other, w)                     -- no such manager object
  | some mg => (.ok (), { w with mgrs := w.mgrs.set m (f mg) })

def setDesign (K : Kernels) (m : Nat) (flow : Rat) (ft : FlowType) (w : World) : Py Unit × World :=
  match w.mgrs[m]? with
  | none => (.error .other, w)
  | some mg =>
    if ft = .other then (.error .valueError, w) else          -- FlowConfig not implemented
    match mg.geom with
    | none => (.error .other, w)                              -- AttributeError: None has no attribute 'type'
    | some ge =>
      if K.geomOk ge w.keepContour then
        let d : Snapshot := { flow := flow, flowType := ft, bh := mg.bh, pipeType := mg.pipeType, fluid := mg.fluid, pipe := mg.pipe,
                              grout := mg.grout, soil := mg.soil, sim := mg.sim, geom := ge, loads := mg.loads,
                              keepContour := w.keepContour }
        (.ok (), { w with mgrs := w.mgrs.set m { mg with design := some d } })
      else (.error .other, w)

def loadsTruthy : Option Loads → Bool
  | some l => 0 < l.len
  | none => false

/-- The `all([...])` test of `find_design` (on the manager's *current* slots). -/
def Manager.ready (mg : Manager) : Bool :=
  mg.fluid.isSome && mg.grout.isSome && mg.soil.isSome && mg.pipe.isSome && mg.bh.isSome && mg.sim.isSome
    && loadsTruthy mg.loads && mg.geom.isSome && mg.design.isSome

def findDesign (K : Kernels) (m : Nat) (w : World) : Py Unit × World :=
  match w.mgrs[m]? with
  | none => (.error .other, w)
  | some mg =>
    if !mg.ready then (.error .valueError, w) else
    match mg.design with
    | none => (.error .valueError, w)
    | some d =>
      match d.static?, d.bh with
      | some st, some r =>
        match w.heap[r]? with
        | none => (.error .other, w)
        | some cell =>
          let cfg : Config := { st := st, geom := d.geom, D := cell.D, rb := cell.rb, keepContour := d.keepContour }
          let (res, s) := designFrom K cfg { H := some cell.H, D := cell.D, rb := cell.rb, cur := none, log := [] }
          let heap' := w.heap.set r { cell with H := s.H.getD cell.H }
          match res with
          | .error e => (.error e, { w with heap := heap' })           -- `_search` keeps its old value
          | .ok rs => (.ok (), { w with heap := heap', mgrs := w.mgrs.set m { mg with search := some (r, rs) } })
      | _, _ => (.error .other, w)       -- a component captured as None: AttributeError somewhere in the constructor

def step (K : Kernels) : Op → World → Py Unit × World
  | .newManager, w => (.ok (), { w with mgrs := w.mgrs ++ [{}] })
  | .setFluid m v, w => if K.fluidOk v then updMgr w m (fun mg => { mg with fluid := some v }) else
      (match w.mgrs[m]? with | none => (.error .other, w) | some _ => (.error .valueError, w))
  | .setGrout m v, w => updMgr w m (fun mg => { mg with grout := some v })
  | .setSoil m v, w => updMgr w m (fun mg => { mg with soil := some v })
  | .setPipe m pt v, w => updMgr w m (fun mg => { mg with pipeType := some pt, pipe := some v })
  | .setPipeType m (some pt), w => updMgr w m (fun mg => { mg with pipeType := some pt })
  | .setPipeType m none, w => (match w.mgrs[m]? with | none => (.error .other, w) | some _ => (.error .valueError, w))
  | .setBorehole m h d dia, w =>
      match w.mgrs[m]? with
      | none => (.error .other, w)
      | some mg => (.ok (), { w with heap := w.heap ++ [{ H := h, D := d, rb := dia / 2 }],
                                     mgrs := w.mgrs.set m { mg with bh := some w.heap.length } })
  | .setSim m sp, w => updMgr w m (fun mg => { mg with sim := some sp })
  | .setLoads m l, w => updMgr w m (fun mg => { mg with loads := some l })
  | .setGeomType m (some k), w => updMgr w m (fun mg => { mg with geomType := some k })
  | .setGeomType m none, w => (match w.mgrs[m]? with | none => (.error .other, w) | some _ => (.error .valueError, w))
  | .setGeom m g, w =>     -- the near-square setter leaves geom_type alone
      updMgr w m (fun mg => { mg with geom := some g, geomType := if g.kind = .nearSquare then mg.geomType else some g.kind })
  | .setDesign m flow ft, w => setDesign K m flow ft w
  | .findDesign m, w => findDesign K m w

def runOps (K : Kernels) : List Op → World → World
  | [], w => w
  | op :: r, w => runOps K r (step K op w).2

/-- `manager._search` as a caller observes it (borehole *reference* dropped). -/
def resultOf (w : World) (m : Nat) : Option Result := (w.mgrs[m]?).bind (fun mg => mg.search.map (·.2))

/-! ### Physical configuration of a manager, read off a history without any heap -/

structure Slots where
  fluid : Option Val := none
  grout : Option Val := none
  soil : Option Val := none
  pipe : Option Val := none
  pipeType : Option Val := none
  bore : Option (Rat × Rat) := none       -- (buried depth, radius): the nominal height is forgotten
  sim : Option SimParams := none
  loads : Option Loads := none
  geom : Option Geom := none
  deriving DecidableEq, Repr, Inhabited

/-- Effect of one API call on the slots of manager `m`, given how many managers exist. -/
def slotsStep (K : Kernels) (m : Nat) (op : Op) (n : Nat) (s : Slots) : Slots :=
  if n ≤ m then s else
  match op with
  | .setFluid m' v => if m' = m ∧ K.fluidOk v then { s with fluid := some v } else s
  | .setGrout m' v => if m' = m then { s with grout := some v } else s
  | .setSoil m' v => if m' = m then { s with soil := some v } else s
  | .setPipe m' pt v => if m' = m then { s with pipeType := some pt, pipe := some v } else s
  | .setPipeType m' (some pt) => if m' = m then { s with pipeType := some pt } else s
  | .setBorehole m' _ d dia => if m' = m then { s with bore := some (d, dia / 2) } else s
  | .setSim m' sp => if m' = m then { s with sim := some sp } else s
  | .setLoads m' l => if m' = m then { s with loads := some l } else s
  | .setGeom m' g => if m' = m then { s with geom := some g } else s
  | _ => s

def countStep : Op → Nat → Nat
  | .newManager, n => n + 1
  | _, n => n

/-- `(number of managers, slots of manager m)` after a history, starting from no manager. -/
def lastSlots (K : Kernels) (m : Nat) : List Op → Nat × Slots → Nat × Slots
  | [], a => a
  | op :: r, (n, s) => lastSlots K m r (countStep op n, slotsStep K m op n s)

/-- The complete physical configuration held in `Slots` (with the design flow), if every slot is set. -/
def Slots.config? (s : Slots) (flow : Rat) (ft : FlowType) (kc : List Bool) : Option Config :=
  match s.fluid, s.pipe, s.grout, s.soil, s.pipeType, s.loads, s.sim, s.bore, s.geom with
  | some fl, some pi, some gr, some so, some pt, some lo, some sp, some (d, rb), some ge =>
      some { st := { fluid := fl, pipe := pi, grout := gr, soil := so, pipeType := pt, loads := lo, sim := sp, flow := flow, flowType := ft },
             geom := ge, D := d, rb := rb, keepContour := kc }
  | _, _, _, _, _, _, _, _, _ => none

/-- Slots of a manager in a world (borehole dereferenced, height dropped). -/
def absSlots (w : World) (mg : Manager) : Slots :=
  { fluid := mg.fluid, grout := mg.grout, soil := mg.soil, pipe := mg.pipe, pipeType := mg.pipeType,
    bore := mg.bh.bind (fun r => (w.heap[r]?).map (fun c => (c.D, c.rb))),
    sim := mg.sim, loads := mg.loads, geom := mg.geom }

/-! ### Line protocol (correspondence runs) -/

def showOptKF : Option (Kind × Fill) → String
  | none => "-"
  | some (k, f) => (match k with | .linear => "linear" | .quadratic => "quadratic" | .cubic => "cubic") ++ "/" ++
                   (match f with | .empty => "strict" | .extrapolate => "extrapolate")

def showRats (l : List Rat) : String := ",".intercalate (l.map showRat)

def showMethod : Method → String
  | .hybrid => "hybrid" | .hourly => "hourly" | .other => "other"

/-- One simulation as compared with the implementation:
    `field;hLoad;heights;interp;hEq;h;method;nSteps;table`. -/
def showArgs (a : SimArgs) : String :=
  s!"{a.field};{showRat a.hLoad};{showRats a.look.heights};{showOptKF a.look.interp};{showRat a.look.hEq};{showRat a.h};{showMethod a.method};{a.nSteps};{a.gtok}"

def showAxis : Axis → String
  | .empty => "empty" | .hybrid h => s!"hybrid@{showRat h}" | .hourly n => s!"hourly#{n}"

def showOut : Out → String
  | .unit => "ok" | .temps _ => "temps" | .err e => "raise:" ++ e.name

def showFT : FlowType → String
  | .borehole => "B" | .system => "S" | .other => "O"
def showOptNat : Option Nat → String
  | none => "-" | some n => toString n
def showBool (b : Bool) : String := if b then "1" else "0"

def staticKey (st : Static) : String :=
  "|".intercalate [st.fluid, st.pipe, st.grout, st.soil, st.pipeType, st.loads.tok, toString st.loads.len, toString st.sim.months,
    showRat st.sim.maxEft, showRat st.sim.minEft, showRat st.sim.maxH, showRat st.sim.minH, showOptNat st.sim.maxBh,
    showBool st.sim.cont, showRat st.flow, showFT st.flowType]

def geomKindName : GeomKind → String
  | .nearSquare => "NEARSQUARE" | .rectangle => "RECTANGLE" | .biRectangle => "BIRECTANGLE" | .biZoned => "BIZONEDRECTANGLE"
  | .biRectangleConstrained => "BIRECTANGLECONSTRAINED" | .rowWise => "ROWWISE"

def cfgKey (c : Config) : String :=
  s!"{staticKey c.st}|{geomKindName c.geom.kind}|{c.geom.tok}|{showRat c.D}|{showRat c.rb}"

/-- Key of the recorded-temperature table: every component of `SimArgs` except the interpolation descriptor
    (which is a function of the others). -/
def simKey (a : SimArgs) : String :=
  s!"{staticKey a.st}#{a.field}#{a.gtok}#{showRat a.D}#{showRat a.rb}#{showRat a.hLoad}#{showRats a.look.heights}#{showRat a.h}#{showMethod a.method}"

def parseMethod? : String → Option Method
  | "hybrid" => some .hybrid | "hourly" => some .hourly | "other" => some .other | _ => none

def parseErr (s : String) : PyErr :=
  match s with
  | "ZeroDivisionError" => .zeroDiv | "IndexError" => .indexError | "ValueError" => .valueError
  | "TypeError" => .typeError | "KeyError" => .keyError | _ => .other

def parseGeomKind? : String → Option GeomKind
  | "NEARSQUARE" => some .nearSquare | "RECTANGLE" => some .rectangle | "BIRECTANGLE" => some .biRectangle
  | "BIZONEDRECTANGLE" => some .biZoned | "BIRECTANGLECONSTRAINED" => some .biRectangleConstrained
  | "ROWWISE" => some .rowWise | _ => none

/-- A recorded probe sequence `h1,h2,...,=x` (or `...,!Err`) as a `Probe` that ignores the values. -/
def probeOfScript : List String → Probe
  | [] => .raise .other
  | t :: r =>
      if t.startsWith "=" then (match parseRat? (t.drop 1).toString with | some x => .ret x | none => .raise .other)
      else if t.startsWith "!" then .raise (parseErr (t.drop 1).toString)
      else match parseRat? t with
        | some h => .ask h (fun _ => probeOfScript r)
        | none => .raise .other

/-- A recorded search path `c.f , e.f.h , i.f.h , z , r.f , x.Err` as a `Search` that ignores the values. -/
def searchOfScript : List String → Search
  | [] => .raise .other
  | t :: r =>
      match t.splitOn "." with
      | ["c", f] => (match f.toNat? with | some f => .ctor f (searchOfScript r) | none => .raise .other)
      | ["e", f, h] => (match f.toNat?, parseRat? h with | some f, some h => .eval f h (fun _ => searchOfScript r) | _, _ => .raise .other)
      | ["i", f, h] => (match f.toNat?, parseRat? h with | some f, some h => .init f h (searchOfScript r) | _, _ => .raise .other)
      | ["z"] => .sizeCur (fun _ => searchOfScript r)
      | ["r", f] => (match f.toNat? with | some f => .ret f | none => .raise .other)
      | ["x", e] => .raise (parseErr e)
      | _ => .raise .other

def lookupAssoc (l : List (String × α)) (k : String) : Option α := (l.find? (fun p => p.1 == k)).map (·.2)

/-- Kernels of a correspondence run: tables recorded from the implementation.
    `sims`: simKey ↦ temps;  `brents`: value of the objective at the lower bound ↦ probe script;
    `strats`: cfgKey ↦ search script;  `bad`: heights at which construction raises. -/
def scriptKernels (sims : List (String × Temps)) (brents : List (String × List String))
    (strats : List (String × List String)) (bad : List Rat) : Kernels :=
  { sim := fun a => (lookupAssoc sims (simKey a)).getD (0, 0)
    buildOk := fun _ _ _ _ h => !(bad.contains h)
    gcalcOk := fun _ _ _ _ _ => true
    brent := fun lo _ => .ask lo (fun v => probeOfScript ((lookupAssoc brents (showRat v)).getD []))
    strategy := fun c => searchOfScript ((lookupAssoc strats (cfgKey c)).getD [])
    fluidOk := fun v => !(v.startsWith "BAD")
    geomOk := fun g _ => !(g.tok.startsWith "BAD") }

def parseRats (s : String) : Option (List Rat) :=
  if s = "" ∨ s = "-" then some [] else (s.splitOn ",").mapM parseRat?

def parseSimParams? : List String → Option SimParams
  | [mo, a, b, c, d, mb, ct] => do
      let mo ← mo.toNat?
      let a ← parseRat? a
      let b ← parseRat? b
      let c ← parseRat? c
      let d ← parseRat? d
      let mb ← (if mb = "-" then some none else mb.toNat?.map some)
      some { months := mo, maxEft := a, minEft := b, maxH := c, minH := d, maxBh := mb, cont := ct = "1" }
  | _ => none

def parseSims (toks : List String) : List (String × Temps) :=
  toks.filterMap (fun t => match t.splitOn "=" with
    | [k, v] => (match v.splitOn ":" with
        | [a, b] => (match parseRat? a, parseRat? b with | some a, some b => some (k, (a, b)) | _, _ => none)
        | _ => none)
    | _ => none)

def parseScripts (toks : List String) : List (String × List String) :=
  toks.filterMap (fun t => match t.splitOn "=>" with
    | [k, v] => some (k, (v.splitOn ",").filter (· ≠ ""))
    | _ => none)

def parseGOp? (t : String) : Option GOp :=
  match t.splitOn ":" with
  | ["H", h] => (parseRat? h).map .setH
  | ["S", m] => (parseMethod? m).map .simulate
  | ["Z", m] => (parseMethod? m).map .size
  | ["G"] => some .cgf
  | ["T", tok, hs] => (parseRats hs).map (.setGF tok)
  | _ => none

def parseFT : String → FlowType
  | "BOREHOLE" => .borehole | "SYSTEM" => .system | _ => .other

def parseOp? (t : String) : Option Op :=
  match t.splitOn ":" with
  | ["new"] => some .newManager
  | ["fluid", m, v] => m.toNat?.map (fun m => .setFluid m v)
  | ["grout", m, v] => m.toNat?.map (fun m => .setGrout m v)
  | ["soil", m, v] => m.toNat?.map (fun m => .setSoil m v)
  | ["pipe", m, pt, v] => m.toNat?.map (fun m => .setPipe m pt v)
  | ["ptype", m, pt] => m.toNat?.map (fun m => .setPipeType m (if pt = "-" then none else some pt))
  | ["bh", m, h, d, dia] => do
      let m ← m.toNat?
      let h ← parseRat? h
      let d ← parseRat? d
      let dia ← parseRat? dia
      some (.setBorehole m h d dia)
  | "sim" :: m :: rest => do
      let m ← m.toNat?
      let sp ← parseSimParams? rest
      some (.setSim m sp)
  | ["loads", m, tok, len] => do
      let m ← m.toNat?
      let len ← len.toNat?
      some (.setLoads m { tok := tok, len := len })
  | ["gtype", m, k] => m.toNat?.map (fun m => .setGeomType m (parseGeomKind? k))
  | ["geom", m, k, tok] => do
      let m ← m.toNat?
      let k ← parseGeomKind? k
      some (.setGeom m { kind := k, tok := tok })
  | ["design", m, flow, ft] => do
      let m ← m.toNat?
      let flow ← parseRat? flow
      some (.setDesign m flow (parseFT ft))
  | ["find", m] => m.toNat?.map .findDesign
  | _ => none

def showPy : Py Unit → String
  | .ok _ => "ok" | .error e => "raise:" ++ e.name

def showResult (r : Result) : String :=
  s!"field={r.field} H={showRat r.H} heights={showRats r.ghe.gf.heights} table={showOptKF r.ghe.gf.table} axis={showAxis r.ghe.times} last={(r.ghe.last.map showArgs).getD "-"} trace={" ".intercalate ((r.log ++ r.ghe.trace).map showArgs)}"

/-- Run a history, reporting after every `find` the outcome and the manager's result. -/
def runHistory (K : Kernels) : List Op → World → List String → List String
  | [], _, acc => acc.reverse
  | op :: r, w, acc =>
      let (o, w1) := step K op w
      let acc1 := match op with
        | .findDesign m => (s!"find:{m} {showPy o} " ++ ((resultOf w1 m).map showResult).getD "none") :: acc
        | .setDesign m _ _ => (s!"design:{m} {showPy o}") :: acc
        | _ => (match o with | .ok _ => acc | .error e => s!"raise:{e.name}" :: acc)
      runHistory K r w1 acc1

/-- Split `toks` at the separator tokens `--`. -/
def splitSections (toks : List String) : List (List String) :=
  let (cur, acc) := toks.foldl (fun (p : List String × List (List String)) t =>
    if t = "--" then ([], p.1.reverse :: p.2) else (t :: p.1, p.2)) ([], [])
  (cur.reverse :: acc).reverse

/-- Line-protocol commands.
    `apighe <months> <maxH> <minH> <loadlen> <field> <hLoad> <heights> <H0> <table token> -- <ops…> -- <sims…> -- <brents…>`
        → per op `out|axis|table|heights|H|last` joined by spaces, then `trace=…`
    `apispec …same…`  → the outcomes of `specG` (every call on the object as new)
    `apirun <ops…> -- <sims…> -- <brents…> -- <strats…> -- <bad heights>`
        → the `runHistory` lines joined by ` ## `. -/
def cmd : List String → Option String
  | "apighe" :: rest => some <| gheCmd false rest
  | "apispec" :: rest => some <| gheCmd true rest
  | "apirun" :: rest => some <|
      match splitSections rest with
      | [ops, sims, brents, strats, bad] =>
          (match ops.mapM parseOp?, bad.mapM parseRat? with
           | some ops, some bad =>
               let K := scriptKernels (parseSims sims) (parseScripts brents) (parseScripts strats) bad
               " ## ".intercalate (runHistory K ops {} [])
           | _, _ => "bad-arg")
      | _ => "bad-arg"
  | _ => none
where
  gheCmd (spec : Bool) (rest : List String) : String :=
    match splitSections rest with
    | [[mo, mx, mn, ll, f, hl, hs, h0, tok0], ops, sims, brents] =>
        (match mo.toNat?, parseRat? mx, parseRat? mn, ll.toNat?, f.toNat?, parseRat? hl, parseRats hs, parseRat? h0, ops.mapM parseGOp? with
         | some mo, some mx, some mn, some ll, some f, some hl, some hs, some h0, some ops =>
             let st : Static := { fluid := "f", pipe := "p", grout := "g", soil := "s", pipeType := "t", loads := { tok := "l", len := ll },
                                  sim := { months := mo, maxEft := 35, minEft := 5, maxH := mx, minH := mn, maxBh := none, cont := false },
                                  flow := 1, flowType := .borehole }
             let K := scriptKernels (parseSims sims) (parseScripts brents) [] []
             let g0 : GHE := { (mkGHE st f hl) with gf := { tok := tok0, heights := hs, table := none } }
             let s0 : GSt := { b := { H := h0, D := 2, rb := 7 / 100 }, g := g0 }
             if spec then " ".intercalate ((specG K ops s0).map showOut)
             else
               let rec go : List GOp → GSt → List String → List String × GSt
                 | [], s, acc => (acc.reverse, s)
                 | op :: r, s, acc =>
                     let (o, s1) := gstep K op s
                     go r s1 (s!"{showOut o}|{showAxis s1.g.times}|{showOptKF s1.g.gf.table}|{showRats s1.g.gf.heights}|{showRat s1.b.H}|{(s1.g.last.map showArgs).getD "-"}" :: acc)
               let (ls, s) := go ops s0 []
               " ".intercalate ls ++ " trace=" ++ " ".intercalate (s.g.trace.map showArgs)
         | _, _, _, _, _, _, _, _, _ => "bad-arg")
    | _ => "bad-arg"

end GHEVerif.Api
