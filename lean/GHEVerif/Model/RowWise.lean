/-
  Model of RowWise field generation (ghedesigner/rowwise.py, ghedesigner/shape.py) for a
  property outline WITHOUT no-go zones and WITHOUT perimeter spacing:
    `gen_borehole_config`, `Shapes.line_intersect`, `vector_intersect`, `sort_intersections`,
    `Shapes.point_intersect`, `process_rows` (the `no_go == []` path), `distribute`,
    `find_duplicates`/`remove_duplicates`, and the rotation sweep `field_optimization_fr`.

  Numbers are `Rat`.  The rotation enters as an exact pair `(c, s) = (cos rotate, sin rotate)`
  with `c² + s² = 1` (0°, ±90°, Pythagorean angles are executable exactly; the implementation is
  called with `atan2(s, c)`).  Two places of the code take a square root of a squared distance
  between two points of the same row; for such points (`q − p ∥ (c, s)`) the root is
  `|(q − p)·(c, s)|`, which is what `rowDist` computes (lemma `rowDist_sq` in Lemmas/RowWise.lean;
  all call sites are shown to be on one row there).  `dist_vert * sin(phi − rotate)` with
  `phi = atan(y/x)` is `y c − x s` for `x > 0`, its negative for `x < 0`, and `|y| c` for `x = 0`
  (`ypOf`).

  What raises in Python returns `.error …`; the `while` loop of `distribute`, which the code runs
  without a bound, is run with the fuel `n + 2` (`n` = number of steps planned) and `.error .other`
  stands for "does not terminate" (lemmas `distLoop_isSome`: fuel `n + 1` is enough when the end point is
  `n` steps ahead on the row; `distLoop_fuel_mono`: more fuel never changes an answer; behind the start
  point the distance only grows, e.g. `distribute 0 (-1) 7 (0, 30) (0, 0) []` is `.error .other`).
  Constants (`1e-8`, `10**-1`, `1.2`, `1000.0`, `10`, default tolerances) come from
  GHEVerif.Gen.RowWise, regenerated from the source on every check.  Core Lean only.

  NOT modelled: no-go zones (`process_rows` with intersections, `not_inside`), perimeter placement
  (`two_space_gen_bhc`, `perimeter_distribute`, `remove_points_too_close`), a negative
  `intersection_tolerance`.  `rotate = -pi/2` in floating point has cos = 6e-17, not 0: with the source test
  `row_space[1] == 0` (verticalRowRatio = 0) the code then works with a row of slope -8e15 and the model's
  exact vertical row `(0, -1)` does not describe it; with `abs(row_space[1]) <= 1e-12*abs(row_space[0])` it does.
  Exact rotations in the band `0 < |c| ≤ K·|s|` (row declared vertical although not vertical) are outside the
  theorems (hypothesis `c = 0 ∨ K·|s| < |c|`); no floating-point sweep reaches the band except through ±pi/2.
-/
import GHEVerif.Model.Py
import GHEVerif.Gen.RowWise

namespace GHEVerif.RowWise
open GHEVerif

abbrev Pt := Rat × Rat

/-- A line given by two points `[x1, y1, x2, y2]`. -/
structure Seg where
  x1 : Rat
  y1 : Rat
  x2 : Rat
  y2 : Rat
  deriving Repr, DecidableEq

/-- Position along the row direction: `x cos(rotate) + y sin(rotate)` (the sort key). -/
def proj (c s : Rat) (p : Pt) : Rat := p.1 * c + p.2 * s

/-- `sqrt((p−q)·(p−q))` for two points of one row of direction `(c, s)`. -/
def rowDist (c s : Rat) (p q : Pt) : Rat := ratAbs (proj c s q - proj c s p)

/-- `sum_sq_dist`. -/
def sqDist (p q : Pt) : Rat := (p.1 - q.1) * (p.1 - q.1) + (p.2 - q.2) * (p.2 - q.2)

def mid (p q : Pt) : Pt := ((p.1 + q.1) / 2, (p.2 + q.2) / 2)

/-- `p + t (cos, sin)`. -/
def along (c s : Rat) (p : Pt) (t : Rat) : Pt := (p.1 + t * c, p.2 + t * s)

/-! ### gen_borehole_config: lowest / highest vertex -/

/-- `dist_vert * sin(ref_angle - rotate)` with `phi = atan(y/x)` (`pi/2` when `x = 0`). -/
def ypOf (c s : Rat) (v : Pt) : Rat :=
  if v.1 = 0 then ratAbs v.2 * c
  else if 0 < v.1 then v.2 * c - v.1 * s
  else -(v.2 * c - v.1 * s)

/-- The vertex loop: `none` is the initial `±inf`; strict comparisons, first extreme wins. -/
def extremes (c s : Rat) : List Pt → Option (Rat × Pt) → Option (Rat × Pt) →
    Option (Rat × Pt) × Option (Rat × Pt)
  | [], lo, hi => (lo, hi)
  | v :: vs, lo, hi =>
    let y := ypOf c s v
    let lo' := match lo with
      | none => some (y, v)
      | some (l, lv) => if y < l then some (y, v) else some (l, lv)
    let hi' := match hi with
      | none => some (y, v)
      | some (h, hv) => if y > h then some (y, v) else some (h, hv)
    extremes c s vs lo' hi'

/-! ### shape.vector_intersect / Shapes.line_intersect / sort_intersections -/

/-- slope and intercept of a line, `none` = `float("inf")`. -/
def slope (x1 y1 x2 y2 : Rat) : Option (Rat × Rat) :=
  if x2 - x1 = 0 then none
  else
    let a := (y2 - y1) / (x2 - x1)
    some (a, y1 - x1 * a)

def vectorIntersect (l1 l2 : Seg) (tol : Rat) : List Pt :=
  match slope l1.x1 l1.y1 l1.x2 l1.y2, slope l2.x1 l2.y1 l2.x2 l2.y2 with
  | none, none => if ratAbs (l1.x1 - l2.x1) < tol then [(l1.x1, l1.y1), (l1.x2, l1.y2)] else []
  | none, some (a2, c2) => [(l1.x1, a2 * l1.x1 + c2)]
  | some (a1, c1), none => [(l2.x1, a1 * l2.x1 + c1)]
  | some (a1, c1), some (a2, c2) =>
    if ratAbs (a1 - a2) ≤ tol then []
    else [((c2 - c1) / (a1 - a2), a1 * (c2 - c1) / (a1 - a2) + c1)]

/-- Cyclic edges `(c[i], c[i+1])`, the last one `(c[n-1], c[0])`. -/
def edges (poly : List Pt) : List (Pt × Pt) := poly.zip (poly.drop 1 ++ poly.take 1)

/-- The bounding-box filter of `line_intersect` (kept when none of the four tests fires). -/
def inBox (tol : Rat) (c1 c2 r : Pt) : Bool :=
  !(decide (r.1 - ratMax c2.1 c1.1 > tol) || decide (r.1 - ratMin c2.1 c1.1 < -1 * tol)
    || decide (r.2 - ratMax c2.2 c1.2 > tol) || decide (r.2 - ratMin c2.2 c1.2 < -1 * tol))

def edgeHit (row : Seg) (tol : Rat) (e : Pt × Pt) : List Pt :=
  match vectorIntersect ⟨e.1.1, e.1.2, e.2.1, e.2.2⟩ row tol with
  | [r] => if inBox tol e.1 e.2 r then [r] else []
  | _ => []

def rawIntersections (poly : List Pt) (row : Seg) (tol : Rat) : List Pt :=
  (edges poly).flatMap (edgeHit row tol)

/-- Order of `sorted(zip(vals, r_a))`: by projection, ties by the point itself (x, then y). -/
def keyLe (c s : Rat) (p q : Pt) : Bool :=
  decide (proj c s p < proj c s q) ||
    (decide (proj c s p = proj c s q) && (decide (p.1 < q.1) || (decide (p.1 = q.1) && decide (p.2 ≤ q.2))))

def insertKey (c s : Rat) (p : Pt) : List Pt → List Pt
  | [] => [p]
  | q :: qs => if keyLe c s p q then p :: q :: qs else q :: insertKey c s p qs

def sortIntersections (c s : Rat) (l : List Pt) : List Pt := l.foldr (insertKey c s) []

def lineIntersect (poly : List Pt) (row : Seg) (c s tol : Rat) : List Pt :=
  sortIntersections c s (rawIntersections poly row tol)

/-! ### Shapes.point_intersect -/

def listMax : List Rat → Rat
  | [] => 0
  | x :: xs => xs.foldl ratMax x
def listMin : List Rat → Rat
  | [] => 0
  | x :: xs => xs.foldl ratMin x

def pointIntersect (poly : List Pt) (p : Pt) : Bool :=
  let xs := poly.map (·.1)
  let ys := poly.map (·.2)
  if p.1 > listMax xs ∨ p.1 < listMin xs ∨ p.2 > listMax ys ∨ p.2 < listMin ys then false
  else
    let farX := listMin xs - Gen.RowWise.farShift
    let inters := lineIntersect poly ⟨farX, p.2, farX + Gen.RowWise.farStep, p.2⟩ 1 0 Gen.RowWise.lineIntersectTol
    let inters := inters.filter (fun q => decide (q.1 ≤ p.1))
    if inters.length = 1 then true
    else
      let inters := inters.filter (fun q => !poly.contains q)
      inters.length % 2 ≠ 0

/-! ### distribute / process_rows -/

/-- `if len(r) == 0 or not (r[-1] == p): r[len(r)] = p`; the accumulator is kept reversed. -/
def pushNew (acc : List Pt) (p : Pt) : List Pt :=
  match acc with
  | [] => [p]
  | q :: _ => if q = p then acc else p :: acc

/-- The `while dist(current_x, x2) >= tolerance` loop with fuel; `none` = fuel exhausted. -/
def distLoop (c s tol step : Rat) (x2 : Pt) : Nat → Pt → List Pt → Option (List Pt)
  | 0, _, _ => none
  | fuel + 1, cur, acc =>
    if rowDist c s cur x2 ≥ tol then
      distLoop c s tol step x2 fuel (along c s cur step) (pushNew acc cur)
    else some acc

def distribute (c s spacing : Rat) (x1 x2 : Pt) (acc : List Pt) : Py (List Pt) :=
  let dx := rowDist c s x1 x2
  if dx < spacing then .ok (pushNew acc (mid x1 x2))
  else if spacing = 0 then .error .zeroDiv
  else
    let n : Int := (dx / spacing).floor
    if n = 0 then .error .zeroDiv
    else
      let step := dx / (n : Rat)
      match distLoop c s Gen.RowWise.distributeTol step x2 (n.toNat + 2) x1 acc with
      | none => .error .other
      | some [] => .error .keyError
      | some (q :: acc') => .ok (if q = x2 then q :: acc' else x2 :: q :: acc')

/-- `process_rows` with `no_go == []`. -/
def processRows (c s space : Rat) (sx ex : Pt) (acc : List Pt) : Py (List Pt) :=
  if space = 0 then .error .zeroDiv
  else if (rowDist c s sx ex / space).floor < 1 then .ok (pushNew acc (mid ex sx))
  else distribute c s space sx ex acc

/-! ### the per-row logic of gen_borehole_config -/

def close (tol : Rat) (p q : Pt) : Bool :=
  decide (ratAbs (p.1 - q.1) ≤ tol) && decide (ratAbs (p.2 - q.2) ≤ tol)

/-- "single intersection reported as two": when the first two are within the tolerance every
    other intersection within the tolerance of the first is dropped. -/
def dedupe (tol : Rat) : List Pt → List Pt
  | p :: q :: rest => if close tol p q then p :: (q :: rest).filter (fun r => !close tol p r) else p :: q :: rest
  | l => l

/-- Even number of intersections: pairs `(f[i], f[i+1])`, `i = 0, 2, …`, with the offset rule;
    `prev = none` for `i = 0` (where the code looks at `f[-1]` but requires `i > 0`). -/
def evenLoop (c s space : Rat) : Option Pt → List Pt → List Pt → Py (List Pt)
  | prev, p :: q :: rest, acc =>
    let drs := rowDist c s p q
    let seg : Pt × Pt :=
      match prev with
      | some r =>
        let dls := rowDist c s p r
        if dls < space then (along c s p dls, q)
        else if drs < space then (p, along c s q (-drs)) else (p, q)
      | none => if drs < space then (p, along c s q (-drs)) else (p, q)
    match processRows c s space seg.1 seg.2 acc with
    | .error e => .error e
    | .ok acc' => evenLoop c s space (some q) rest acc'
  | _, _, acc => .ok acc

/-- Odd number (≥ 3) of intersections: every consecutive pair whose midpoint is inside. -/
def oddLoop (poly : List Pt) (c s space : Rat) : List Pt → List Pt → Py (List Pt)
  | p :: q :: rest, acc =>
    if pointIntersect poly (mid p q) then
      match processRows c s space p q acc with
      | .error e => .error e
      | .ok acc' => oddLoop poly c s space (q :: rest) acc'
    else oddLoop poly c s space (q :: rest) acc
  | _, acc => .ok acc

def rowStep (poly : List Pt) (c s tol space : Rat) (row : Seg) (acc : List Pt) : Py (List Pt) :=
  let f := dedupe tol (lineIntersect poly row c s tol)
  if f.length % 2 = 0 then
    match f with
    | [p, q] => if rowDist c s p q < space then .ok (p :: acc) else evenLoop c s space none f acc
    | _ => evenLoop c s space none f acc
  else
    match f with
    | [p] => .ok (pushNew acc p)
    | _ => oddLoop poly c s space f acc

/-- The two points defining row `k`.  The row is vertical when `|row_space[1]| ≤ K·|row_space[0]|`
    with `K = Gen.RowWise.verticalRowRatio` regenerated from the source: `K = 0` is the test
    `row_space[1] == 0`; `K = 1e-12` makes `rotate = -pi/2` (cos = 6e-17 in floating point) a vertical
    row like `rotate = +pi/2`.  With exact `(c, s)` this is `|c| ≤ K·|s|`. -/
def rowSeg (lowest : Pt) (rs0 rs1 : Rat) (k : Nat) : Seg :=
  let px := lowest.1 + (k : Rat) * rs0
  let py := lowest.2 + (k : Rat) * rs1
  if ratAbs rs1 ≤ Gen.RowWise.verticalRowRatio * ratAbs rs0 then ⟨px, py, px, py + Gen.RowWise.pointShift⟩
  else ⟨px, py, px + Gen.RowWise.pointShift, py + (-rs0 / rs1) * Gen.RowWise.pointShift⟩

def rowsLoop (poly : List Pt) (c s tol space : Rat) (lowest : Pt) (rs0 rs1 : Rat) :
    List Nat → List Pt → Py (List Pt)
  | [], acc => .ok acc
  | k :: ks, acc =>
    match rowStep poly c s tol space (rowSeg lowest rs0 rs1 k) acc with
    | .error e => .error e
    | .ok acc' => rowsLoop poly c s tol space lowest rs0 rs1 ks acc'

/-! ### find_duplicates / remove_duplicates -/

/-- index `j` is dropped when some earlier point (dropped or not) is closer than `factor·space`. -/
def removeDupAux (tolSq : Rat) : List Pt → List Pt → List Pt
  | _, [] => []
  | seen, p :: ps =>
    if seen.any (fun q => decide (sqDist q p < tolSq)) then removeDupAux tolSq (p :: seen) ps
    else p :: removeDupAux tolSq (p :: seen) ps

def removeDuplicates (space : Rat) (l : List Pt) : List Pt :=
  removeDupAux ((space * Gen.RowWise.dupFactor) * (space * Gen.RowWise.dupFactor)) [] l

/-! ### gen_borehole_config -/

/-- Number of rows minus one and the row step, or the exception the code raises. -/
def rowPlan (poly : List Pt) (c s ySpace : Rat) : Py (Int × Pt × Rat × Rat) :=
  match extremes c s poly none none with
  | (some (lo, lowest), some (hi, _)) =>
    if ySpace = 0 then .error .zeroDiv
    else
      let d := hi - lo
      let numRows : Int := (d / ySpace).floor
      if numRows = 0 then .error .zeroDiv
      else
        let sp := d / (numRows : Rat)
        .ok (numRows, lowest, -1 * sp * s, sp * c)
  | _ => .error .valueError

def genBoreholeConfig (poly : List Pt) (ySpace xSpace c s tol : Rat) : Py (List Pt) :=
  match rowPlan poly c s ySpace with
  | .error e => .error e
  | .ok (numRows, lowest, rs0, rs1) =>
    match rowsLoop poly c s tol xSpace lowest rs0 rs1 (List.range (numRows + 1).toNat) [] with
    | .error e => .error e
    | .ok acc => .ok (removeDuplicates xSpace acc.reverse)

/-- Every row of the run has at most two intersections when their number is even (a line meets a
    convex outline in at most two points; a vertex hit adds a duplicate and makes the number odd).
    Hypothesis of the "inside" theorem; the harness measures it on every compared outline. -/
def rowsSimple (poly : List Pt) (ySpace c s tol : Rat) : Bool :=
  match rowPlan poly c s ySpace with
  | .ok (numRows, lowest, rs0, rs1) =>
    (List.range (numRows + 1).toNat).all (fun k =>
      decide ((dedupe tol (lineIntersect poly (rowSeg lowest rs0 rs1 k) c s tol)).length % 2 = 0 →
        (dedupe tol (lineIntersect poly (rowSeg lowest rs0 rs1 k) c s tol)).length ≤ 2))
  | .error _ => true

/-! ### field_optimization_fr: the rotation sweep -/

/-- `if len(hole) > max_l: max_l, max_hole, max_rt = …` over the tried rotations (index kept). -/
def sweepStep (best : Nat × Option (Nat × List Pt)) (idx : Nat) (hole : List Pt) : Nat × Option (Nat × List Pt) :=
  if hole.length > best.1 then (hole.length, some (idx, hole)) else best

def sweepLoop (gen : Rat × Rat → Py (List Pt)) : List (Rat × Rat) → Nat → Nat × Option (Nat × List Pt) →
    Py (Nat × Option (Nat × List Pt))
  | [], _, best => .ok best
  | r :: rs, idx, best =>
    match gen r with
    | .error e => .error e
    | .ok hole => sweepLoop gen rs (idx + 1) (sweepStep best idx hole)

/-- Returns the index of the chosen rotation and the field; `TypeError` when no rotation gave a
    borehole (`remove_duplicates(None, …)`). -/
def fieldOptimizationFr (poly : List Pt) (space tol : Rat) (rots : List (Rat × Rat)) : Py (Nat × List Pt) :=
  match sweepLoop (fun r => genBoreholeConfig poly space space r.1 r.2 tol) rots 0 (0, none) with
  | .error e => .error e
  | .ok (_, none) => .error .typeError
  | .ok (_, some (idx, hole)) => .ok (idx, removeDuplicates (space * Gen.RowWise.sweepDupFactor) hole)

/-- The sweep on field sizes only (used to compare the choice with the real sweep at arbitrary angles). -/
def sweepCounts : List Nat → Nat → Nat × Option Nat → Option Nat
  | [], _, best => best.2
  | n :: ns, idx, best => sweepCounts ns (idx + 1) (if n > best.1 then (n, some idx) else best)

/-- Number of passes of `while rt < rotate_stop: …; rt += rotate_step` (degrees); `none`: the loop
    never ends (`rotate_step ≤ 0` with `rotate_start < rotate_stop`). `ValueError` outside ±90°. -/
def numRotations (start stop step : Rat) : Py (Option Nat) :=
  if start > 90 ∨ start < -90 ∨ stop > 90 ∨ stop < -90 then .error .valueError
  else if ¬ start < stop then .ok (some 0)
  else if step ≤ 0 then .ok none
  else .ok (some ((stop - start) / step).ceil.toNat)

/-! ### float-fragility detector (instrumentation for the correspondence check, no theorem uses it)

  `fragile … = true` when some decision of the run on exact numbers lies so close to its boundary
  (relative `eps`) that IEEE rounding in the implementation may legitimately take the other branch:
  a `floor` argument next to an integer, `dist < spacing` next to equality, a tolerance test next to
  its tolerance, the exact `==` with a vertex inside `point_intersect`, or a row with an even
  number ≥ 4 of intersections (offset rule).  Such inputs are compared "up to the adjacent branch"
  (DESIGN §1.2b): they are reported as `near-boundary` and still go through the property predicate. -/

def nearInt (eps x : Rat) : Bool :=
  let r : Rat := ((x + 1/2).floor : Int)
  decide (ratAbs (x - r) ≤ eps * ratMax 1 (ratAbs x))

def nearVal (eps x v : Rat) : Bool := decide (ratAbs (x - v) ≤ eps * ratMax 1 (ratAbs v))

def edgeFragile (eps : Rat) (row : Seg) (tol : Rat) (e : Pt × Pt) : Bool :=
  let l1 : Seg := ⟨e.1.1, e.1.2, e.2.1, e.2.2⟩
  (match slope l1.x1 l1.y1 l1.x2 l1.y2, slope row.x1 row.y1 row.x2 row.y2 with
   | some (a1, _), some (a2, _) => nearVal eps (ratAbs (a1 - a2)) tol
   | none, none => nearVal eps (ratAbs (l1.x1 - row.x1)) tol
   | _, _ => false) ||
  (match vectorIntersect l1 row tol with
   | [r] =>
     nearVal eps (r.1 - ratMax e.2.1 e.1.1) tol || nearVal eps (r.1 - ratMin e.2.1 e.1.1) (-tol) ||
     nearVal eps (r.2 - ratMax e.2.2 e.1.2) tol || nearVal eps (r.2 - ratMin e.2.2 e.1.2) (-tol)
   | _ => false)

def consecutive {α} : List α → List (α × α)
  | a :: b :: rest => (a, b) :: consecutive (b :: rest)
  | _ => []

def pointIntersectFragile (poly : List Pt) (p : Pt) : Bool :=
  let xs := poly.map (·.1)
  let ys := poly.map (·.2)
  if p.1 > listMax xs ∨ p.1 < listMin xs ∨ p.2 > listMax ys ∨ p.2 < listMin ys then false
  else
    let farX := listMin xs - Gen.RowWise.farShift
    let inters := lineIntersect poly ⟨farX, p.2, farX + Gen.RowWise.farStep, p.2⟩ 1 0 Gen.RowWise.lineIntersectTol
    inters.any (fun q => decide (q.1 = p.1)) ||
      ((inters.filter (fun q => decide (q.1 ≤ p.1))).length ≠ 1 &&
        (inters.filter (fun q => decide (q.1 ≤ p.1))).any (fun q => poly.contains q))

def rowFragile (eps : Rat) (poly : List Pt) (c s tol space : Rat) (row : Seg) : Bool :=
  let raw := rawIntersections poly row tol
  let f := dedupe tol (sortIntersections c s raw)
  (edges poly).any (edgeFragile eps row tol) ||
  raw.any (fun p => raw.any (fun q => nearVal eps (ratAbs (p.1 - q.1)) tol || nearVal eps (ratAbs (p.2 - q.2)) tol)) ||
  (consecutive f).any (fun pq => pq.1 ≠ pq.2 && space ≠ 0 && nearInt eps (rowDist c s pq.1 pq.2 / space)) ||
  (f.length % 2 = 0 && decide (f.length ≥ 4)) ||
  (f.length % 2 = 1 && decide (f.length ≥ 3) &&
    ((consecutive f).any (fun pq => pq.1 ≠ pq.2 && pointIntersectFragile poly (mid pq.1 pq.2)) ||
     (consecutive (consecutive f)).any (fun t => t.1.1 ≠ t.1.2 && t.2.1 = t.2.2 &&
        decide (rowDist c s t.1.1 t.1.2 < space))))

def fragile (eps : Rat) (poly : List Pt) (ySpace xSpace c s tol : Rat) : Bool :=
  match extremes c s poly none none with
  | (some (lo, _), some (hi, _)) =>
    if ySpace = 0 then false
    else nearInt eps ((hi - lo) / ySpace) ||
      (match rowPlan poly c s ySpace with
       | .ok (numRows, lowest, rs0, rs1) =>
         (List.range (numRows + 1).toNat).any
           (fun k => rowFragile eps poly c s tol xSpace (rowSeg lowest rs0 rs1 k))
       | .error _ => false)
  | _ => false

/-! ### line protocol -/

def parseRats (l : List String) : Option (List Rat) := l.mapM parseRat?

def pairs : List Rat → Option (List Pt)
  | [] => some []
  | x :: y :: rest => (pairs rest).map ((x, y) :: ·)
  | _ => none

def showPts (l : List Pt) : String :=
  " ".intercalate (l.map (fun p => showRat p.1 ++ " " ++ showRat p.2))

/-- relative width of the "near-boundary" band. -/
def fragEps : Rat := 1 / 1000000000

def showPy (r : Py (List Pt)) : String :=
  match r with
  | .ok l => s!"ok {l.length} " ++ showPts l
  | .error .other => "diverges"
  | .error e => "raise " ++ e.name

/-- Commands:
    `rw_gen tol ySpace xSpace c s x1 y1 x2 y2 …`        → `ex|nb` `s1|s0` then `ok n x y …` | `raise E` | `diverges`
      (`nb`: near a branch boundary, see `fragile`; `s1`: `rowsSimple`)
    `rw_opt tol space k c1 s1 … ck sk x1 y1 …`            → `ex|nb ok idx n x y …`
    `rw_li tol c s rx1 ry1 rx2 ry2 x1 y1 …`               → sorted intersections of a line
    `rw_pin px py x1 y1 …`                                → `1`/`0` (`point_intersect`)
    `rw_sweep n1 n2 …`                                    → chosen index | `none`
    `rw_nrot start stop step`                             → number of rotations | `inf` | `raise E` -/
def cmd : List String → Option String
  | "rw_gen" :: args => some <| match parseRats args with
    | some (tol :: ys :: xs :: c :: s :: rest) =>
      (match pairs rest with
       | some poly =>
         if tol < 0 then "bad-arg"
         else (if fragile fragEps poly ys xs c s tol then "nb " else "ex ") ++
           (if rowsSimple poly ys c s tol then "s1 " else "s0 ") ++ showPy (genBoreholeConfig poly ys xs c s tol)
       | none => "bad-arg")
    | _ => "bad-arg"
  | "rw_opt" :: tolS :: spS :: kS :: rest => some <|
    match parseRat? tolS, parseRat? spS, kS.toNat?, parseRats rest with
    | some tol, some sp, some k, some nums =>
      (match pairs (nums.take (2 * k)), pairs (nums.drop (2 * k)) with
       | some rots, some poly =>
         if tol < 0 ∨ nums.length < 2 * k then "bad-arg" else
         (match fieldOptimizationFr poly sp tol rots with
          | .ok (idx, l) =>
            (if rots.any (fun r => fragile fragEps poly sp sp r.1 r.2 tol) then "nb " else "ex ") ++
              s!"ok {idx} {l.length} " ++ showPts l
          | .error .other => "diverges"
          | .error e => "raise " ++ e.name)
       | _, _ => "bad-arg")
    | _, _, _, _ => "bad-arg"
  | "rw_li" :: args => some <| match parseRats args with
    | some (tol :: c :: s :: a :: b :: d :: e :: rest) =>
      (match pairs rest with
       | some poly => let l := lineIntersect poly ⟨a, b, d, e⟩ c s tol; s!"ok {l.length} " ++ showPts l
       | none => "bad-arg")
    | _ => "bad-arg"
  | "rw_pin" :: args => some <| match parseRats args with
    | some (px :: py :: rest) =>
      (match pairs rest with
       | some poly => if pointIntersect poly (px, py) then "1" else "0"
       | none => "bad-arg")
    | _ => "bad-arg"
  | "rw_sweep" :: args => some <| match args.mapM String.toNat? with
    | some ns => (match sweepCounts ns 0 (0, none) with | some i => toString i | none => "none")
    | none => "bad-arg"
  | ["rw_nrot", a, b, d] => some <| match parseRat? a, parseRat? b, parseRat? d with
    | some a, some b, some d =>
      (match numRotations a b d with
       | .ok (some n) => toString n
       | .ok none => "inf"
       | .error e => "raise " ++ e.name)
    | _, _, _ => "bad-arg"
  | _ => none

end GHEVerif.RowWise
