/-
  Model of ghedesigner/coordinates.py: `transpose_coordinates`, `rectangle`, `open_rectangle`,
  `c_shape`, `lop_u`, `l_shape`, `zoned_rectangle`.  Core Lean only.

  Numbers are `Rat`.  Every function takes a rounding operator `R : Rat → Rat` that is applied
  after every arithmetic operation the Python code performs on floats:

  * `R = id`      — exact arithmetic; this is the instance the theorems of Props/C03 are about;
  * `R = fl64`    — IEEE-754 binary64 round-to-nearest-even (defined below in exact rational
                    arithmetic), i.e. what CPython computes.  The harness compares this instance
                    bit for bit with the real code and the driver measures its distance to the
                    exact instance point by point.

  Both instances are the same Lean code, so the structure proved about is the structure run.
-/
import GHEVerif.Model.Py

namespace GHEVerif.Coords
open GHEVerif

abbrev Point := Rat × Rat
abbrev Field := List Point

/-! ### IEEE-754 binary64 rounding, in `Rat` -/

/-- `2^e` for an integer exponent. -/
def pow2 (e : Int) : Rat := if 0 ≤ e then ((2 ^ e.toNat : Nat) : Rat) else 1 / ((2 ^ (-e).toNat : Nat) : Rat)

/-- Round to the nearest integer, ties to even. -/
def roundHalfEven (q : Rat) : Int :=
  let f := q.floor
  let r := q - (f : Rat)
  if r < 1 / 2 then f else if 1 / 2 < r then f + 1 else if f % 2 = 0 then f else f + 1

/-- Decompose a positive rational as `m * 2^e` with `2^52 ≤ m < 2^53` (m rational). -/
def normExp (a : Rat) : Int :=
  let e0 : Int := (Nat.log2 a.num.natAbs : Int) - (Nat.log2 a.den : Int) - 52
  let m0 := a / pow2 e0
  if m0 < 4503599627370496 then e0 - 1 else if 9007199254740992 ≤ m0 then e0 + 1 else e0

/-- Nearest binary64 value (round-half-even); normal range only (no overflow, no subnormals:
    |q| between 2^-1022 and 2^1023 — land sizes and spacings in metres are far inside). -/
def fl64 (q : Rat) : Rat :=
  if q = 0 then 0 else
  let a := if q < 0 then -q else q
  let e := normExp a
  let v := ((roundHalfEven (a / pow2 e) : Int) : Rat) * pow2 e
  if q < 0 then -v else v

/-- Python `round(x, 9)` on a float: correctly rounded decimal (ties to even on the exact
    value), then the nearest float of that decimal. -/
def round9 (R : Rat → Rat) (q : Rat) : Rat :=
  R (((roundHalfEven (q * 1000000000) : Int) : Rat) / 1000000000)

/-! ### coordinates.py -/

def transpose (f : Field) : Field := f.map (fun p => (p.2, p.1))

/-- `rectangle(num_bh_x, num_bh_y, spacing_x, spacing_y, origin)`:
    `for i in range(nx): for j in range(ny): (x_0 + i*sx, y_0 + j*sy)`. -/
def rectangleO (R : Rat → Rat) (nx ny : Int) (sx sy x0 y0 : Rat) : Field :=
  let xs := (List.range nx.toNat).map (fun (i : Nat) => R (x0 + R ((i : Rat) * sx)))
  let ys := (List.range ny.toNat).map (fun (j : Nat) => R (y0 + R ((j : Rat) * sy)))
  xs.flatMap (fun x => ys.map (fun y => (x, y)))

/-- `rectangle` with the default origin `(0, 0)`. -/
def rectangle (R : Rat → Rat) (nx ny : Int) (sx sy : Rat) : Field := rectangleO R nx ny sx sy 0 0

/-- `range(lo, hi)` for the loops that start at 1. -/
def rangeFrom (lo hi : Int) : List Nat := (List.range hi.toNat).filter (fun k => decide (lo ≤ (k : Int)))

def openRectangle (R : Rat → Rat) (nx ny : Int) (sx sy : Rat) : Field :=
  if 2 < nx ∧ 2 < ny then
    (List.range nx.toNat).map (fun (i : Nat) => (R ((i : Rat) * sx), (0 : Rat)))
    ++ (rangeFrom 1 (ny - 1)).flatMap (fun (j : Nat) =>
          [((0 : Rat), R ((j : Rat) * sy)), (R (((nx - 1 : Int) : Rat) * sx), R ((j : Rat) * sy))])
    ++ (List.range nx.toNat).map (fun (i : Nat) => (R ((i : Rat) * sx), R (((ny - 1 : Int) : Rat) * sy)))
  else rectangle R nx ny sx sy

def cShape (R : Rat → Rat) (nx1 ny : Int) (sx sy : Rat) (nx2 : Int) : Field :=
  let xLoc := R (((nx1 - 1 : Int) : Rat) * sx)
  let yLoc := R (((ny - 1 : Int) : Rat) * sy)
  (List.range nx1.toNat).map (fun (i : Nat) => (R ((i : Rat) * sx), (0 : Rat)))
  ++ (rangeFrom 1 ny).map (fun (j : Nat) => ((0 : Rat), R ((j : Rat) * sy)))
  ++ (rangeFrom 1 ny).map (fun (j : Nat) => (xLoc, R ((j : Rat) * sy)))
  ++ (rangeFrom 1 (nx2 + 1)).map (fun (i : Nat) => (R ((i : Rat) * sx), yLoc))

def lopU (R : Rat → Rat) (nx ny1 : Int) (sx sy : Rat) (ny2 : Int) : Field :=
  let xLoc := R (((nx - 1 : Int) : Rat) * sx)
  (List.range nx.toNat).map (fun (i : Nat) => (R ((i : Rat) * sx), (0 : Rat)))
  ++ (rangeFrom 1 ny1).map (fun (j : Nat) => ((0 : Rat), R ((j : Rat) * sy)))
  ++ (rangeFrom 1 ny2).map (fun (j : Nat) => (xLoc, R ((j : Rat) * sy)))

def lShape (R : Rat → Rat) (nx ny : Int) (sx sy : Rat) : Field :=
  (List.range nx.toNat).map (fun (i : Nat) => (R ((i : Rat) * sx), (0 : Rat)))
  ++ (rangeFrom 1 ny).map (fun (j : Nat) => ((0 : Rat), R ((j : Rat) * sy)))

/-- `zoned_rectangle(n_x, n_y, b_x, b_y, n_ix, n_it)`; the two `raise ValueError` first.
    `n_ix + 1 = 0` or `n_it + 1 = 0` makes the code raise ZeroDivisionError. -/
def zonedRectangle (R : Rat → Rat) (nx ny : Int) (sx sy : Rat) (nix nit : Int) : Py Field :=
  if nix > nx - 2 then .error .valueError else
  if nit > ny - 2 then .error .valueError else
  if nix + 1 = 0 ∨ nit + 1 = 0 then .error .zeroDiv else
  let bix := R (R (((nx - 1 : Int) : Rat) * sx) / ((nix + 1 : Int) : Rat))
  let biy := R (R (((ny - 1 : Int) : Rat) * sy) / ((nit + 1 : Int) : Rat))
  .ok (openRectangle R nx ny sx sy ++ rectangleO R nix nit bix biy bix biy)

/-! ### line protocol helpers (shared with Model/Domains.lean) -/

def showPoint (p : Point) : String := showRat p.1 ++ "," ++ showRat p.2
def showField (f : Field) : String := if f.isEmpty then "_" else " ".intercalate (f.map showPoint)
def showFields (l : List Field) : String := ";".intercalate (l.map showField)
def showNested (l : List (List Field)) : String := String.join (l.map (fun fs => showFields fs ++ "|"))

def pickR (mode : String) : Option (Rat → Rat) :=
  if mode = "E" then some id else if mode = "F" then some fl64 else none

def showPyField : Py Field → String
  | .ok f => "ok " ++ showField f ++ "|"
  | .error e => "raise " ++ e.name

def parseInts (l : List String) : Option (List Int) := l.mapM String.toInt?
def parseRats (l : List String) : Option (List Rat) := l.mapM parseRat?

/-- Commands (mode `E` exact / `F` binary64):
    `fl64 q`, `round9 mode q`,
    `co rect mode nx ny sx sy x0 y0`, `co open mode nx ny sx sy`, `co cshape mode nx1 ny sx sy nx2`,
    `co lopu mode nx ny1 sx sy ny2`, `co lshape mode nx ny sx sy`, `co zoned mode nx ny sx sy nix nit`. -/
def cmd : List String → Option String
  | ["fl64", q] => some <| match parseRat? q with | some q => showRat (fl64 q) | none => "bad-arg"
  | ["round9", m, q] => some <| match pickR m, parseRat? q with
      | some R, some q => showRat (round9 R q) | _, _ => "bad-arg"
  | ["co", "rect", m, nx, ny, sx, sy, x0, y0] => some <|
      match pickR m, parseInts [nx, ny], parseRats [sx, sy, x0, y0] with
      | some R, some [nx, ny], some [sx, sy, x0, y0] => "ok " ++ showField (rectangleO R nx ny sx sy x0 y0) ++ "|"
      | _, _, _ => "bad-arg"
  | ["co", "open", m, nx, ny, sx, sy] => some <|
      match pickR m, parseInts [nx, ny], parseRats [sx, sy] with
      | some R, some [nx, ny], some [sx, sy] => "ok " ++ showField (openRectangle R nx ny sx sy) ++ "|"
      | _, _, _ => "bad-arg"
  | ["co", "cshape", m, nx, ny, sx, sy, n2] => some <|
      match pickR m, parseInts [nx, ny, n2], parseRats [sx, sy] with
      | some R, some [nx, ny, n2], some [sx, sy] => "ok " ++ showField (cShape R nx ny sx sy n2) ++ "|"
      | _, _, _ => "bad-arg"
  | ["co", "lopu", m, nx, ny, sx, sy, n2] => some <|
      match pickR m, parseInts [nx, ny, n2], parseRats [sx, sy] with
      | some R, some [nx, ny, n2], some [sx, sy] => "ok " ++ showField (lopU R nx ny sx sy n2) ++ "|"
      | _, _, _ => "bad-arg"
  | ["co", "lshape", m, nx, ny, sx, sy] => some <|
      match pickR m, parseInts [nx, ny], parseRats [sx, sy] with
      | some R, some [nx, ny], some [sx, sy] => "ok " ++ showField (lShape R nx ny sx sy) ++ "|"
      | _, _, _ => "bad-arg"
  | ["co", "zoned", m, nx, ny, sx, sy, nix, nit] => some <|
      match pickR m, parseInts [nx, ny, nix, nit], parseRats [sx, sy] with
      | some R, some [nx, ny, nix, nit], some [sx, sy] => showPyField (zonedRectangle R nx ny sx sy nix nit)
      | _, _, _ => "bad-arg"
  | _ => none

end GHEVerif.Coords
