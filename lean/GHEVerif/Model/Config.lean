/-
  Model of the configuration round trip (C17) and of input validation (C17, C18):

    API setters (manager.py `set_*`)            `applySetter`, `build`
    `GHEManager.write_input_file`               `toInput`   — interprets `Gen.writeInputFile`
                                                             and the `Gen.toInputOf` rows
    `validate.validate_input_file`              `validateInputFile` — interprets `Gen.validators`
                                                             over `Gen.schemas` (draft-04 semantics)
    `_run_manager_from_cli_worker`              `worker` / `load` — interprets `Gen.worker`

  Everything under `Gen.` is regenerated from the sources on every check
  (translate/gen_config.py), so a renamed key, a changed schema bound, a dropped validator or
  a reordered setter argument changes these definitions and the theorems about them.

  What is written by hand here and tied to the code by the correspondence runs only: the
  bodies of the setters (which attribute stores which argument, `d/2`, degrees→radians) and
  the meaning of the attribute expressions that occur in the generated rows (`evalSelf`,
  `evalMgr`).  An expression this file does not know evaluates to `unsupported`, which the
  harness reports as a broken correspondence.

  Numbers are exact rationals.  The three float operations whose exactness matters are
  parameters (`Arith`): `half` (x / 2.0), `dbl` (x * 2.0), `toRad` (x * DEG_TO_RAD).
  Core Lean only.
-/
import GHEVerif.Model.Py
import GHEVerif.Gen.Schemas
import GHEVerif.Gen.Keys
import GHEVerif.Gen.Cli

namespace GHEVerif.Config
open GHEVerif GHEVerif.Gen

/-! ## JSON values (what `json.loads` returns / `json.dumps` takes) -/

inductive Json where
  | null
  | bool (b : Bool)
  | num (q : Rat)
  | str (s : String)
  | arr (l : List Json)
  | obj (kv : List (String × Json))
  deriving Inhabited

abbrev Dict := List (String × Json)

/-- `d[k] = v` on a Python dict (insertion order kept, existing key overwritten in place). -/
def dictSet : Dict → String → Json → Dict
  | [], k, v => [(k, v)]
  | (k', v') :: rest, k, v => if k' = k then (k', v) :: rest else (k', v') :: dictSet rest k v

/-- ASCII upper-casing (the names concerned are ASCII; Python's `str.upper` additionally maps a
    few non-ASCII letters onto ASCII ones, which the harness lists as an assumption). -/
def upper (s : String) : String := String.ofList (s.toList.map Char.toUpper)

/-- Python `str(x).upper()` for a parsed JSON value.  For a non-string the result is some text
    that is no enum member name (a number's digits, `[...]`, `{...}`); only that matters. -/
def pyStrUpper : Json → String
  | .str s => upper s
  | .null => "NONE"
  | .bool true => "TRUE"
  | .bool false => "FALSE"
  | .num _ => "<number>"
  | .arr _ => "<list>"
  | .obj _ => "<dict>"

/-- Python `x[k]` with a string key. -/
def pyGetItem : Json → String → Py Json
  | .obj kv, k => match kv.lookup k with
      | some v => .ok v
      | none => .error .keyError
  | _, _ => .error .typeError

/-- Python `k in x` with a string `k`. -/
def pyContains : Json → String → Py Bool
  | .obj kv, k => .ok (kv.lookup k).isSome
  | .arr l, k => .ok (l.any (fun x => match x with | .str s => s == k | _ => false))
  | .str s, k => .ok ((s.splitOn k).length > 1)
  | _, _ => .error .typeError

/-! ## Schema validation: jsonschema's `validate` with the draft-04 validator -/

def jtypeOk : JType → Json → Bool
  | .object, .obj _ => true
  | .array, .arr _ => true
  | .string, .str _ => true
  | .number, .num _ => true          -- a bool is not a number
  | .boolean, .bool _ => true
  | .null, .null => true
  | _, _ => false

def optAll {α} (o : Option α) (p : α → Bool) : Bool :=
  match o with
  | none => true
  | some a => p a

/-- One property schema against one value.  `d4` = the file declares draft-04, whose validator
    does not know `const` (the keyword is ignored). -/
def validProp (d4 : Bool) : PropSchema → Json → Bool
  | .any, _ => true
  | .node ty mn mx en cs mnI mxI items, j =>
      optAll ty (fun t => jtypeOk t j) &&
      optAll mn (fun m => match j with | .num q => decide (m ≤ q) | _ => true) &&
      optAll mx (fun m => match j with | .num q => decide (q ≤ m) | _ => true) &&
      optAll en (fun l => match j with | .str s => l.contains s | _ => false) &&
      optAll cs (fun c => d4 || (match j with | .str s => s == c | _ => false)) &&
      (match j with
       | .arr l => optAll mnI (fun n => decide (n ≤ l.length)) && optAll mxI (fun n => decide (l.length ≤ n))
                    && l.all (validProp d4 items)
       | _ => true)

def validObj (S : ObjSchema) (j : Json) : Bool :=
  optAll S.type (fun t => jtypeOk t j) &&
  (match j with
   | .obj kv =>
       S.required.all (fun k => (kv.lookup k).isSome) &&
       S.props.all (fun kp => match kv.lookup kp.1 with
                              | none => true
                              | some v => validProp S.draft04 kp.2 v)
   | _ => true)

def schemaByFile (f : String) : Option ObjSchema := Gen.schemas.find? (fun S => S.file == f)

/-- One `validate_*` function of validate.py on the value handed to it. -/
def runValidator (v : ValidatorSpec) (inst : Json) : Py Nat :=
  let stepUpper : Py (Json × String) :=
    if v.upperKey = "" then .ok (inst, "")
    else
      match (if v.upperGuarded then pyContains inst v.upperKey else .ok true) with
      | .error e => .error e
      | .ok false => .ok (inst, "")
      | .ok true =>
        match pyGetItem inst v.upperKey with
        | .error e => .error e
        | .ok x =>
          match inst with
          | .obj kv => .ok (.obj (dictSet kv v.upperKey (.str (pyStrUpper x))), pyStrUpper x)
          | _ => .error .typeError
  match stepUpper with
  | .error e => .error e
  | .ok (inst', name) =>
    match (if v.schemaFile = "" then v.schemaMap.lookup name else some v.schemaFile) with
    | none => .ok 1                                   -- "… not found / not recognized": return 1
    | some f =>
      match schemaByFile f with
      | none => .error .other                         -- the schema file does not exist
      | some S => .ok (if validObj S inst' then Gen.schemaOkReturn else Gen.schemaErrReturn)

/-- `err_count += validate_x(instance[sect])` for the listed validators, in order. -/
def validateFrom (inst : Json) : List ValidatorSpec → Py Nat
  | [] => .ok 0
  | v :: rest =>
    match (if v.sect = "" then .ok inst else pyGetItem inst v.sect) with
    | .error e => .error e
    | .ok a =>
      match runValidator v a with
      | .error e => .error e
      | .ok n =>
        match validateFrom inst rest with
        | .error e => .error e
        | .ok m => .ok (n + m)

/-- `validate_input_file` on the parsed file: the error count, or the exception it raises
    (a missing section, a section that is not an object, a missing name to upper-case). -/
def validateInputFile (j : Json) : Py Nat := validateFrom j Gen.validators

/-! ## Enumerations -/

inductive FluidType where
  | ethylAlcohol | ethyleneGlycol | methylAlcohol | propyleneGlycol | water
  deriving DecidableEq, Repr, Inhabited

inductive PipeType where
  | coaxial | doubleUTubeParallel | doubleUTubeSeries | singleUTube
  deriving DecidableEq, Repr, Inhabited

inductive GeomType where
  | biRectangle | biRectangleConstrained | biZonedRectangle | nearSquare | rectangle | rowWise
  deriving DecidableEq, Repr, Inhabited

inductive FlowCfg where
  | borehole | system
  deriving DecidableEq, Repr, Inhabited

def FluidType.name : FluidType → String
  | .ethylAlcohol => "ETHYLALCOHOL" | .ethyleneGlycol => "ETHYLENEGLYCOL"
  | .methylAlcohol => "METHYLALCOHOL" | .propyleneGlycol => "PROPYLENEGLYCOL" | .water => "WATER"
def FluidType.all : List FluidType := [.ethylAlcohol, .ethyleneGlycol, .methylAlcohol, .propyleneGlycol, .water]

def PipeType.name : PipeType → String
  | .coaxial => "COAXIAL" | .doubleUTubeParallel => "DOUBLEUTUBEPARALLEL"
  | .doubleUTubeSeries => "DOUBLEUTUBESERIES" | .singleUTube => "SINGLEUTUBE"
def PipeType.all : List PipeType := [.coaxial, .doubleUTubeParallel, .doubleUTubeSeries, .singleUTube]

def GeomType.name : GeomType → String
  | .biRectangle => "BIRECTANGLE" | .biRectangleConstrained => "BIRECTANGLECONSTRAINED"
  | .biZonedRectangle => "BIZONEDRECTANGLE" | .nearSquare => "NEARSQUARE"
  | .rectangle => "RECTANGLE" | .rowWise => "ROWWISE"
def GeomType.all : List GeomType :=
  [.biRectangle, .biRectangleConstrained, .biZonedRectangle, .nearSquare, .rectangle, .rowWise]

def FlowCfg.name : FlowCfg → String
  | .borehole => "BOREHOLE" | .system => "SYSTEM"
def FlowCfg.all : List FlowCfg := [.borehole, .system]

def FluidType.ofName (s : String) : Option FluidType := FluidType.all.find? (fun t => t.name == s)
def PipeType.ofName (s : String) : Option PipeType := PipeType.all.find? (fun t => t.name == s)
def GeomType.ofName (s : String) : Option GeomType := GeomType.all.find? (fun t => t.name == s)
def FlowCfg.ofName (s : String) : Option FlowCfg := FlowCfg.all.find? (fun t => t.name == s)

/-! ## Manager state -/

/-- The float operations whose exactness the round trip depends on. -/
structure Arith where
  half : Rat → Rat      -- x / 2.0
  dbl : Rat → Rat       -- x * 2.0
  toRad : Rat → Rat     -- x * DEG_TO_RAD

/-- Exact arithmetic (π replaced by a 16-digit rational; only the stored radians depend on it). -/
def exactArith : Arith :=
  { half := fun x => x / 2, dbl := fun x => x * 2,
    toRad := fun x => x * ((3141592653589793 : Rat) / 1000000000000000) / 180 }

structure Fluid where
  ftype : FluidType
  percent : Rat
  temperature : Rat
  deriving Inhabited

structure Thermal where
  k : Rat
  rhoCp : Rat
  deriving Inhabited

structure Soil where
  k : Rat
  rhoCp : Rat
  ugt : Rat
  deriving Inhabited

inductive PipeGeom where
  | utube (rIn rOut s k : Rat)
  | coax (rIn0 rIn1 rOut0 rOut1 k0 k1 : Rat)
  deriving Inhabited

structure Pipe where
  geom : PipeGeom
  roughness : Rat
  rhoCp : Rat
  deriving Inhabited

structure Borehole where
  H : Rat
  D : Rat
  rb : Rat
  deriving Inhabited

structure SimParams where
  endMonth : Rat
  maxEft : Rat
  minEft : Rat
  maxHeight : Rat
  minHeight : Rat
  maxBoreholes : Option Rat
  cont : Bool
  deriving Inhabited

inductive Geom where
  | nearSquare (b length : Rat)
  | rectangle (width length bMin bMaxX : Rat)
  | biRectangle (width length bMin bMaxX bMaxY : Rat)
  | biZoned (width length bMin bMaxX bMaxY : Rat)
  | constrained (bMin bMaxX bMaxY : Rat) (prop nogo : Json)
  | rowWise (ratio : Option Rat) (minSp maxSp step minRot maxRot rotStep : Rat) (prop nogo : Json)
            (minRotDeg maxRotDeg : Rat)
  deriving Inhabited

def Geom.type : Geom → GeomType
  | .nearSquare .. => .nearSquare | .rectangle .. => .rectangle | .biRectangle .. => .biRectangle
  | .biZoned .. => .biZonedRectangle | .constrained .. => .biRectangleConstrained | .rowWise .. => .rowWise

def Geom.className : Geom → String
  | .nearSquare .. => "GeometricConstraintsNearSquare" | .rectangle .. => "GeometricConstraintsRectangle"
  | .biRectangle .. => "GeometricConstraintsBiRectangle" | .biZoned .. => "GeometricConstraintsBiZoned"
  | .constrained .. => "GeometricConstraintsBiRectangleConstrained" | .rowWise .. => "GeometricConstraintsRowWise"

structure Design where
  vFlow : Rat
  flowType : FlowCfg
  gtype : GeomType          -- which Design* class `set_design` built
  deriving Inhabited

def Design.className (d : Design) : String :=
  match d.gtype with
  | .nearSquare => "DesignNearSquare" | .rectangle => "DesignRectangle" | .biRectangle => "DesignBiRectangle"
  | .biZonedRectangle => "DesignBiZoned" | .biRectangleConstrained => "DesignBiRectangleConstrained"
  | .rowWise => "DesignRowWise"

/-- The slots of `GHEManager` that `write_input_file` reads. -/
structure Mgr where
  fluid : Option Fluid := none
  grout : Option Thermal := none
  soil : Option Soil := none
  pipe : Option Pipe := none
  pipeType : Option PipeType := none
  borehole : Option Borehole := none
  sim : Option SimParams := none
  loads : Option Json := none
  geomType : Option GeomType := none
  geom : Option Geom := none
  design : Option Design := none
  deriving Inhabited

/-! ## Setters -/

def truthy : Json → Bool
  | .null => false
  | .bool b => b
  | .num q => q ≠ 0
  | .str s => s ≠ ""
  | .arr l => !l.isEmpty
  | .obj kv => !kv.isEmpty

def num : Json → Py Rat
  | .num q => .ok q
  | _ => .error .typeError

/-- A Python literal as it appears as a default / constant argument in the source. -/
def parsePyConst (s : String) : Option Json :=
  if s = "None" then some .null
  else if s = "True" then some (.bool true)
  else if s = "False" then some (.bool false)
  else if s = "'Water'" then some (.str "Water")
  else (parseRat? s).map Json.num

def sigOf (setter : String) : Option (List (String × String)) := Gen.setterSigs.lookup setter
def optionalOf (setter : String) : List String := (Gen.setterOptional.lookup setter).getD []

def nthName : List (String × String) → Nat → Option String
  | [], _ => none
  | (p, _) :: _, 0 => some p
  | _ :: rest, n + 1 => nthName rest n

def posIndex (k : String) : Option Nat :=
  if k = "#0" then some 0 else if k = "#1" then some 1 else if k = "#2" then some 2 else none

/-- Resolve positional arguments to parameter names; an unknown keyword or one given twice is a
    `TypeError`, as in a Python call. -/
def resolveArgs (sig : List (String × String)) : List (String × Json) → List (String × Json) → Py (List (String × Json))
  | [], acc => .ok acc
  | (k, v) :: rest, acc =>
    let name : Option String := match posIndex k with
      | some i => nthName sig i
      | none => if (sig.lookup k).isSome then some k else none
    match name with
    | none => .error .typeError
    | some p => if (acc.lookup p).isSome then .error .typeError else resolveArgs sig rest (acc ++ [(p, v)])

/-- Every parameter without a default must have been supplied. -/
def missingRequired (sig : List (String × String)) (opt : List String) (kw : List (String × Json)) : Bool :=
  sig.any (fun pd => !(opt.contains pd.1) && (kw.lookup pd.1).isNone)

/-- Argument `p` of a call: the supplied value or the default from the signature. -/
def argOf (sig : List (String × String)) (kw : List (String × Json)) (p : String) : Py Json :=
  match kw.lookup p with
  | some v => .ok v
  | none => match sig.lookup p with
    | some d => match parsePyConst d with
      | some v => .ok v
      | none => .error .typeError
    | none => .error .typeError

/-- The `isinstance(x[0][0], (int, float))` test of `GeometricConstraintsBiRectangleConstrained`:
    a flat polygon is wrapped into a one-element list of polygons. -/
def wrapIfFlat : Json → Py Json
  | .arr [] => .ok (.arr [])
  | .arr (.arr (.num q :: r) :: rest) => .ok (.arr [.arr (.arr (.num q :: r) :: rest)])
  | .arr (.arr (.bool b :: r) :: rest) => .ok (.arr [.arr (.arr (.bool b :: r) :: rest)])   -- bool is an int
  | .arr (.arr [] :: _) => .error .indexError
  | .arr (.arr (x :: r) :: rest) => .ok (.arr (.arr (x :: r) :: rest))
  | .arr (.str s :: rest) => if s = "" then .error .indexError else .ok (.arr (.str s :: rest))
  | .arr (.obj _ :: _) => .error .keyError
  | .arr (_ :: _) => .error .typeError
  | .str s => if s = "" then .ok (.str s) else .ok (.str s)
  | .obj kv => if kv.isEmpty then .ok (.obj kv) else .error .keyError
  | _ => .error .typeError

def optNum : Json → Py (Option Rat)
  | .null => .ok none
  | .num q => .ok (some q)
  | _ => .error .typeError

def asBool : Json → Py Bool
  | .bool b => .ok b
  | _ => .error .typeError

def uTube (A : Arith) (m : Mgr) (pt : PipeType) (sig : List (String × String)) (kw : List (String × Json)) : Py (Mgr × Int) := do
  let din ← (argOf sig kw "inner_diameter") >>= num
  let dout ← (argOf sig kw "outer_diameter") >>= num
  let s ← (argOf sig kw "shank_spacing") >>= num
  let rough ← (argOf sig kw "roughness") >>= num
  let k ← (argOf sig kw "conductivity") >>= num
  let rc ← (argOf sig kw "rho_cp") >>= num
  pure ({ m with pipeType := some pt, pipe := some ⟨.utube (A.half din) (A.half dout) s k, rough, rc⟩ }, 0)

/-- The failure tail shared by the setters: message to stderr, then `raise ValueError` when
    `throw` is truthy, else `return 1`. -/
def failTail (m : Mgr) (throw : Json) : Py (Mgr × Int) :=
  if truthy throw then .error .valueError else .ok (m, 1)

/-- One `GHEManager.set_*` call with keyword arguments; returns the new state and the method's
    return value. -/
def applySetter (A : Arith) (m : Mgr) (setter : String) (args : List (String × Json)) : Py (Mgr × Int) :=
  match sigOf setter with
  | none => .error .other                                      -- AttributeError: no such method
  | some sig =>
  match resolveArgs sig args [] with
  | .error e => .error e
  | .ok kw =>
  if missingRequired sig (optionalOf setter) kw then .error .typeError else
  if setter = "set_fluid" then do
    let nm ← argOf sig kw "fluid_name"
    let pc ← (argOf sig kw "concentration_percent") >>= num
    let t ← (argOf sig kw "temperature") >>= num
    let thr ← argOf sig kw "throw"
    match nm with
    | .str s => match FluidType.ofName (upper s) with
      | some ft => pure ({ m with fluid := some ⟨ft, pc, t⟩ }, 0)
      | none => failTail m thr
    | _ => .error .other                                        -- AttributeError: no `.upper()`
  else if setter = "set_grout" then do
    let k ← (argOf sig kw "conductivity") >>= num
    let rc ← (argOf sig kw "rho_cp") >>= num
    pure ({ m with grout := some ⟨k, rc⟩ }, 0)
  else if setter = "set_soil" then do
    let k ← (argOf sig kw "conductivity") >>= num
    let rc ← (argOf sig kw "rho_cp") >>= num
    let t ← (argOf sig kw "undisturbed_temp") >>= num
    pure ({ m with soil := some ⟨k, rc, t⟩ }, 0)
  else if setter = "set_pipe_type" then do
    let s ← argOf sig kw "bh_pipe_str"
    let thr ← argOf sig kw "throw"
    match PipeType.ofName (pyStrUpper s) with
    | some pt => pure ({ m with pipeType := some pt }, 0)
    | none => failTail m thr
  else if setter = "set_single_u_tube_pipe" then uTube A m .singleUTube sig kw
  else if setter = "set_double_u_tube_pipe_parallel" then uTube A m .doubleUTubeParallel sig kw
  else if setter = "set_double_u_tube_pipe_series" then uTube A m .doubleUTubeSeries sig kw
  else if setter = "set_coaxial_pipe" then do
    let a ← (argOf sig kw "inner_pipe_d_in") >>= num
    let b ← (argOf sig kw "inner_pipe_d_out") >>= num
    let c ← (argOf sig kw "outer_pipe_d_in") >>= num
    let d ← (argOf sig kw "outer_pipe_d_out") >>= num
    let rough ← (argOf sig kw "roughness") >>= num
    let ki ← (argOf sig kw "conductivity_inner") >>= num
    let ko ← (argOf sig kw "conductivity_outer") >>= num
    let rc ← (argOf sig kw "rho_cp") >>= num
    pure ({ m with pipeType := some .coaxial,
                   pipe := some ⟨.coax (A.half a) (A.half b) (A.half c) (A.half d) ki ko, rough, rc⟩ }, 0)
  else if setter = "set_borehole" then do
    let h ← (argOf sig kw "height") >>= num
    let d ← (argOf sig kw "buried_depth") >>= num
    let dia ← (argOf sig kw "diameter") >>= num
    pure ({ m with borehole := some ⟨h, d, A.half dia⟩ }, 0)
  else if setter = "set_simulation_parameters" then do
    let nm ← (argOf sig kw "num_months") >>= num
    let mx ← (argOf sig kw "max_eft") >>= num
    let mn ← (argOf sig kw "min_eft") >>= num
    let hx ← (argOf sig kw "max_height") >>= num
    let hn ← (argOf sig kw "min_height") >>= num
    let mb ← (argOf sig kw "max_boreholes") >>= optNum
    let ct ← (argOf sig kw "continue_if_design_unmet") >>= asBool
    pure ({ m with sim := some ⟨nm, mx, mn, hx, hn, mb, ct⟩ }, 0)
  else if setter = "set_ground_loads_from_hourly_list" then do
    let l ← argOf sig kw "hourly_ground_loads"
    pure ({ m with loads := some l }, 0)
  else if setter = "set_design_geometry_type" then do
    let s ← argOf sig kw "design_geometry_str"
    let thr ← argOf sig kw "throw"
    match GeomType.ofName (pyStrUpper s) with
    | some g => pure ({ m with geomType := some g }, 0)
    | none => failTail m thr
  else if setter = "set_geometry_constraints_near_square" then do
    let b ← (argOf sig kw "b") >>= num
    let l ← (argOf sig kw "length") >>= num
    pure ({ m with geom := some (.nearSquare b l) }, 0)
  else if setter = "set_geometry_constraints_rectangle" then do
    let l ← (argOf sig kw "length") >>= num
    let w ← (argOf sig kw "width") >>= num
    let bmin ← (argOf sig kw "b_min") >>= num
    let bmax ← (argOf sig kw "b_max") >>= num
    pure ({ m with geomType := some .rectangle, geom := some (.rectangle w l bmin bmax) }, 0)
  else if setter = "set_geometry_constraints_bi_rectangle" then do
    let l ← (argOf sig kw "length") >>= num
    let w ← (argOf sig kw "width") >>= num
    let bmin ← (argOf sig kw "b_min") >>= num
    let bx ← (argOf sig kw "b_max_x") >>= num
    let by' ← (argOf sig kw "b_max_y") >>= num
    pure ({ m with geomType := some .biRectangle, geom := some (.biRectangle w l bmin bx by') }, 0)
  else if setter = "set_geometry_constraints_bi_zoned_rectangle" then do
    let l ← (argOf sig kw "length") >>= num
    let w ← (argOf sig kw "width") >>= num
    let bmin ← (argOf sig kw "b_min") >>= num
    let bx ← (argOf sig kw "b_max_x") >>= num
    let by' ← (argOf sig kw "b_max_y") >>= num
    pure ({ m with geomType := some .biZonedRectangle, geom := some (.biZoned w l bmin bx by') }, 0)
  else if setter = "set_geometry_constraints_bi_rectangle_constrained" then do
    let bmin ← (argOf sig kw "b_min") >>= num
    let bx ← (argOf sig kw "b_max_x") >>= num
    let by' ← (argOf sig kw "b_max_y") >>= num
    let pb ← argOf sig kw "property_boundary"
    let ng ← argOf sig kw "no_go_boundaries"
    -- the constructor looks at the no-go zones first, then at the property boundary
    let ng' ← wrapIfFlat ng
    let pb' ← wrapIfFlat pb
    pure ({ m with geomType := some .biRectangleConstrained, geom := some (.constrained bmin bx by' pb' ng') }, 0)
  else if setter = "set_geometry_constraints_rowwise" then do
    let ratio ← (argOf sig kw "perimeter_spacing_ratio") >>= optNum
    let maxSp ← (argOf sig kw "max_spacing") >>= num
    let minSp ← (argOf sig kw "min_spacing") >>= num
    let step ← (argOf sig kw "spacing_step") >>= num
    let maxRot ← (argOf sig kw "max_rotation") >>= num
    let minRot ← (argOf sig kw "min_rotation") >>= num
    let rotStep ← (argOf sig kw "rotate_step") >>= num
    let pb ← argOf sig kw "property_boundary"
    let ng ← argOf sig kw "no_go_boundaries"
    pure ({ m with geomType := some .rowWise,
                   geom := some (.rowWise ratio minSp maxSp step (A.toRad minRot) (A.toRad maxRot) rotStep pb ng minRot maxRot) }, 0)
  else if setter = "set_design" then do
    let fr ← (argOf sig kw "flow_rate") >>= num
    let ft ← argOf sig kw "flow_type_str"
    let thr ← argOf sig kw "throw"
    match ft with
    | .str s => match FlowCfg.ofName (upper s) with
      | none => failTail m thr
      | some f => match m.geom with
        | none => .error .other                                 -- AttributeError on `None.type`
        | some g => pure ({ m with design := some ⟨fr, f, g.type⟩ }, 0)
    | _ => .error .other
  else .error .other

/-! ## `write_input_file`: interpreter of `Gen.writeInputFile` -/

/-- The objects whose `to_input()` is called. -/
inductive Obj where
  | fluid (f : Fluid) | grout (t : Thermal) | soil (s : Soil) | borehole (b : Borehole)
  | sim (p : SimParams) | geom (g : Geom) | design (d : Design)

def Obj.className : Obj → String
  | .fluid _ => "GHEFluid" | .grout _ => "Grout" | .soil _ => "Soil" | .borehole _ => "GHEBorehole"
  | .sim _ => "SimulationParameters" | .geom g => g.className | .design d => d.className

def unsupported {α} : Py α := .error .other

/-- `Enum.MEMBER.name` for a member listed in enums.py. -/
def enumNameExpr (e : String) : Option String :=
  let tryEnum (cls : String) (members : List String) : Option String :=
    members.find? (fun mname => cls ++ "." ++ mname ++ ".name" == e)
  (tryEnum "DesignGeomType" Gen.enum_DesignGeomType).orElse fun _ =>
  (tryEnum "BHPipeType" Gen.enum_BHPipeType).orElse fun _ =>
  (tryEnum "FluidType" Gen.enum_FluidType).orElse fun _ =>
  (tryEnum "FlowConfigType" Gen.enum_FlowConfigType)

def optJson : Option Rat → Json
  | none => .null
  | some q => .num q

/-- Value of an attribute expression over `self` as it occurs in a `to_input()` row. -/
def evalSelf (A : Arith) (o : Obj) (e : String) : Py Json :=
  match enumNameExpr e with
  | some s => .ok (.str s)
  | none =>
  match o with
  | .fluid f =>
      if e = "self.fluid_type.name" then .ok (.str f.ftype.name)
      else if e = "self.concentration_percent" then .ok (.num f.percent)
      else if e = "self.temperature" then .ok (.num f.temperature)
      else unsupported
  | .grout t =>
      if e = "self.k" then .ok (.num t.k) else if e = "self.rhoCp" then .ok (.num t.rhoCp) else unsupported
  | .soil s =>
      if e = "self.k" then .ok (.num s.k) else if e = "self.rhoCp" then .ok (.num s.rhoCp)
      else if e = "self.ugt" then .ok (.num s.ugt) else unsupported
  | .borehole b =>
      if e = "self.D" then .ok (.num b.D) else if e = "self.r_b * 2.0" then .ok (.num (A.dbl b.rb))
      else if e = "self.H" then .ok (.num b.H) else unsupported
  | .sim p =>
      if e = "self.end_month" then .ok (.num p.endMonth) else unsupported
  | .design d =>
      if e = "self.V_flow" then .ok (.num d.vFlow)
      else if e = "self.flow_type.name" then .ok (.str d.flowType.name) else unsupported
  | .geom (.nearSquare b l) =>
      if e = "self.b" then .ok (.num b) else if e = "self.length" then .ok (.num l) else unsupported
  | .geom (.rectangle w l bmin bx) =>
      if e = "self.width" then .ok (.num w) else if e = "self.length" then .ok (.num l)
      else if e = "self.b_min" then .ok (.num bmin) else if e = "self.b_max_x" then .ok (.num bx) else unsupported
  | .geom (.biRectangle w l bmin bx by') =>
      if e = "self.width" then .ok (.num w) else if e = "self.length" then .ok (.num l)
      else if e = "self.b_min" then .ok (.num bmin) else if e = "self.b_max_x" then .ok (.num bx)
      else if e = "self.b_max_y" then .ok (.num by') else unsupported
  | .geom (.biZoned w l bmin bx by') =>
      if e = "self.width" then .ok (.num w) else if e = "self.length" then .ok (.num l)
      else if e = "self.b_min" then .ok (.num bmin) else if e = "self.b_max_x" then .ok (.num bx)
      else if e = "self.b_max_y" then .ok (.num by') else unsupported
  | .geom (.constrained bmin bx by' pb ng) =>
      if e = "self.b_min" then .ok (.num bmin) else if e = "self.b_max_x" then .ok (.num bx)
      else if e = "self.b_max_y" then .ok (.num by') else if e = "self.property_boundary" then .ok pb
      else if e = "self.no_go_boundaries" then .ok ng else unsupported
  | .geom (.rowWise ratio minSp maxSp step minRot maxRot rotStep pb ng minDeg maxDeg) =>
      if e = "self.perimeter_spacing_ratio" then .ok (optJson ratio)
      else if e = "self.min_spacing" then .ok (.num minSp) else if e = "self.max_spacing" then .ok (.num maxSp)
      else if e = "self.spacing_step" then .ok (.num step)
      else if e = "self.min_rotation" then .ok (.num minRot) else if e = "self.max_rotation" then .ok (.num maxRot)
      else if e = "self.min_rotation_deg" then .ok (.num minDeg) else if e = "self.max_rotation_deg" then .ok (.num maxDeg)
      else if e = "self.rotate_step" then .ok (.num rotStep)
      else if e = "self.property_boundary" then .ok pb else if e = "self.no_go_boundaries" then .ok ng
      else unsupported

/-- Condition of a conditional `to_input()` row. -/
def evalSelfCond (o : Obj) (c : String) : Py Bool :=
  if c = "" then .ok true else
  match o with
  | .geom (.rowWise ratio ..) =>
      if c = "self.perimeter_spacing_ratio is not None" then .ok ratio.isSome else unsupported
  | _ => unsupported

/-- Build a dict from rows (key, expression, condition). -/
def buildRows (ev : String → Py Json) (cond : String → Py Bool) : List (String × String × String) → Dict → Py Dict
  | [], acc => .ok acc
  | (k, e, c) :: rest, acc =>
    match cond c with
    | .error err => .error err
    | .ok false => buildRows ev cond rest acc
    | .ok true =>
      match ev e with
      | .error err => .error err
      | .ok v => buildRows ev cond rest (dictSet acc k v)

/-- `obj.to_input()`. -/
def objToInput (A : Arith) (o : Obj) : Py Dict :=
  match Gen.toInputOf.lookup o.className with
  | none => unsupported
  | some rows => buildRows (evalSelf A o) (evalSelfCond o) rows []

def slot {α} (o : Option α) : Py α :=
  match o with
  | some a => .ok a
  | none => .error .other            -- AttributeError on None

/-- Python `list(x)` for the ground loads. -/
def pyList : Json → Py Json
  | .arr l => .ok (.arr l)
  | .obj kv => .ok (.arr (kv.map (fun p => Json.str p.1)))
  | _ => .error .typeError

abbrev WEnv := List (String × Dict)

/-- Value of an expression of `write_input_file` (over `self` = the manager and the dict
    variables built so far). -/
def evalMgr (A : Arith) (m : Mgr) (env : WEnv) (e : String) : Py Json :=
  match env.lookup e with
  | some d => .ok (.obj d)
  | none =>
  match enumNameExpr e with
  | some s => .ok (.str s)
  | none =>
  if e = "VERSION" then .ok (.str Gen.VERSION)
  else if e = "self._fluid.to_input()" then do let f ← slot m.fluid; let d ← objToInput A (.fluid f); pure (.obj d)
  else if e = "self._grout.to_input()" then do let f ← slot m.grout; let d ← objToInput A (.grout f); pure (.obj d)
  else if e = "self._soil.to_input()" then do let f ← slot m.soil; let d ← objToInput A (.soil f); pure (.obj d)
  else if e = "self._borehole.to_input()" then do let f ← slot m.borehole; let d ← objToInput A (.borehole f); pure (.obj d)
  else if e = "self._simulation_parameters.to_input()" then do let f ← slot m.sim; let d ← objToInput A (.sim f); pure (.obj d)
  else if e = "{'ground_loads': list(self._ground_loads)}" then do
    let l ← slot m.loads
    let l' ← pyList l
    pure (.obj [("ground_loads", l')])
  else if e = "self._simulation_parameters.max_height" then do let p ← slot m.sim; pure (.num p.maxHeight)
  else if e = "self._simulation_parameters.min_height" then do let p ← slot m.sim; pure (.num p.minHeight)
  else if e = "self._simulation_parameters.max_EFT_allowable" then do let p ← slot m.sim; pure (.num p.maxEft)
  else if e = "self._simulation_parameters.min_EFT_allowable" then do let p ← slot m.sim; pure (.num p.minEft)
  else if e = "self._simulation_parameters.max_boreholes" then do let p ← slot m.sim; pure (optJson p.maxBoreholes)
  else if e = "self._simulation_parameters.continue_if_design_unmet" then do let p ← slot m.sim; pure (.bool p.cont)
  else if e = "self._pipe.rhoCp" then do let p ← slot m.pipe; pure (.num p.rhoCp)
  else if e = "self._pipe.roughness" then do let p ← slot m.pipe; pure (.num p.roughness)
  else do
    let p ← slot m.pipe
    match p.geom with
    | .utube rIn rOut s k =>
        if e = "self._pipe.r_in * 2.0" then pure (.num (A.dbl rIn))
        else if e = "self._pipe.r_out * 2.0" then pure (.num (A.dbl rOut))
        else if e = "self._pipe.s" then pure (.num s)
        else if e = "self._pipe.k" then pure (.num k)
        else if e = "self._pipe.r_in[0] * 2.0" ∨ e = "self._pipe.r_in[1] * 2.0" ∨ e = "self._pipe.r_out[0] * 2.0"
             ∨ e = "self._pipe.r_out[1] * 2.0" ∨ e = "self._pipe.k[0]" ∨ e = "self._pipe.k[1]" then .error .typeError
        else unsupported
    | .coax a b c d ki ko =>
        if e = "self._pipe.r_in[0] * 2.0" then pure (.num (A.dbl a))
        else if e = "self._pipe.r_in[1] * 2.0" then pure (.num (A.dbl b))
        else if e = "self._pipe.r_out[0] * 2.0" then pure (.num (A.dbl c))
        else if e = "self._pipe.r_out[1] * 2.0" then pure (.num (A.dbl d))
        else if e = "self._pipe.k[0]" then pure (.num ki)
        else if e = "self._pipe.k[1]" then pure (.num ko)
        else if e = "self._pipe.s" then pure (.num 0)
        else if e = "self._pipe.r_in * 2.0" ∨ e = "self._pipe.r_out * 2.0" then .error .typeError
        else unsupported

/-- Condition of `write_input_file`. -/
def evalMgrCond (m : Mgr) (c : String) : Py Bool :=
  if c = "" then .ok true
  else if c = "self._simulation_parameters.max_boreholes is not None" then do
    let p ← slot m.sim; pure p.maxBoreholes.isSome
  else if c = "self._simulation_parameters.continue_if_design_unmet is True" then do
    let p ← slot m.sim; pure p.cont
  else if c = "self.pipe_type in [BHPipeType.SINGLEUTUBE, BHPipeType.DOUBLEUTUBEPARALLEL, BHPipeType.DOUBLEUTUBESERIES]" then
    .ok (m.pipeType = some .singleUTube ∨ m.pipeType = some .doubleUTubeParallel ∨ m.pipeType = some .doubleUTubeSeries)
  else if c = "self.pipe_type == BHPipeType.SINGLEUTUBE" then .ok (m.pipeType = some .singleUTube)
  else if c = "self.pipe_type == BHPipeType.DOUBLEUTUBEPARALLEL" then .ok (m.pipeType = some .doubleUTubeParallel)
  else if c = "self.pipe_type == BHPipeType.DOUBLEUTUBESERIES" then .ok (m.pipeType = some .doubleUTubeSeries)
  else if c = "self.pipe_type == BHPipeType.COAXIAL" then .ok (m.pipeType = some .coaxial)
  else unsupported

def envSet (env : WEnv) (var : String) (d : Dict) : WEnv :=
  match env with
  | [] => [(var, d)]
  | (v, d') :: rest => if v = var then (v, d) :: rest else (v, d') :: envSet rest var d

/-- `var[key] = expr` for each row of a chain branch. -/
def setRows (A : Arith) (m : Mgr) : List (String × String × String) → WEnv → Py WEnv
  | [], env => .ok env
  | (var, key, e) :: rest, env =>
    match env.lookup var with
    | none => unsupported
    | some d =>
      match evalMgr A m env e with
      | .error err => .error err
      | .ok v => setRows A m rest (envSet env var (dictSet d key v))

/-- First branch of an `if/elif` chain whose condition holds. -/
def pickBranch {β} (cond : String → Py Bool) : List (String × β) → Py (Option β)
  | [] => .ok none
  | (c, b) :: rest =>
    match cond c with
    | .error e => .error e
    | .ok true => .ok (some b)
    | .ok false => pickBranch cond rest

/-- What `write_input_file` wrote (`none`: nothing) and what it returned. -/
structure Written where
  file : Option Json
  sortKeys : Bool
  indent : Nat
  ret : Int
  deriving Inhabited

def execW (A : Arith) (m : Mgr) (throw : Bool) : List WOp → WEnv → Written → Py Written
  | [], _, w => .ok w
  | .initFrom var e :: rest, env, w =>
      let o : Py Obj :=
        if e = "self._geometric_constraints" then (slot m.geom).map Obj.geom
        else if e = "self._design" then (slot m.design).map Obj.design
        else unsupported
      match o with
      | .error err => .error err
      | .ok o => match objToInput A o with
        | .error err => .error err
        | .ok d => execW A m throw rest (envSet env var d) w
  | .initLit var rows :: rest, env, w =>
      match buildRows (evalMgr A m env) (evalMgrCond m) rows [] with
      | .error err => .error err
      | .ok d => execW A m throw rest (envSet env var d) w
  | .set var key e c :: rest, env, w =>
      match evalMgrCond m c with
      | .error err => .error err
      | .ok false => execW A m throw rest env w
      | .ok true => match setRows A m [(var, key, e)] env with
        | .error err => .error err
        | .ok env' => execW A m throw rest env' w
  | .chain branches elseRaises :: rest, env, w =>
      match pickBranch (evalMgrCond m) branches with
      | .error err => .error err
      | .ok (some rows) => (match setRows A m rows env with
        | .error err => .error err
        | .ok env' => execW A m throw rest env' w)
      | .ok none =>
        if elseRaises then (if throw then .error .valueError else .ok { w with ret := 1 })
        else execW A m throw rest env w
  | .dump var sk ind :: rest, env, w =>
      match env.lookup var with
      | none => unsupported
      | some d => execW A m throw rest env { w with file := some (.obj d), sortKeys := sk, indent := ind }
  | .ret code :: _, _, w => .ok { w with ret := code }

def writeInputFile (A : Arith) (m : Mgr) (throw : Bool := true) : Py Written :=
  execW A m throw Gen.writeInputFile [] { file := none, sortKeys := false, indent := 0, ret := 0 }

/-- The JSON value `write_input_file` writes. -/
def toInput (A : Arith) (m : Mgr) : Py Json :=
  match writeInputFile A m with
  | .error e => .error e
  | .ok w => match w.file with
    | some j => .ok j
    | none => .error .other

/-! ## `_run_manager_from_cli_worker`: interpreter of `Gen.worker` -/

abbrev REnv := List (String × Json)

def varOf (env : REnv) (v : String) : Py Json :=
  match env.lookup v with
  | some j => .ok j
  | none => .error .other                -- NameError

def getPath : Json → List String → Py Json
  | j, [] => .ok j
  | j, k :: rest => match pyGetItem j k with
    | .error e => .error e
    | .ok v => getPath v rest

/-- Python `x.get(k, default)`. -/
def pyGet (j : Json) (k : String) (dflt : Json) : Py Json :=
  match j with
  | .obj kv => .ok ((kv.lookup k).getD dflt)
  | _ => .error .other                   -- AttributeError: no `.get`

def evalArgs (env : REnv) : List RArg → Py (List (String × Json))
  | [] => .ok []
  | (kwd, kind, a, b) :: rest =>
    let here : Py (List (String × Json)) :=
      if kind = "key" then
        match varOf env a with
        | .error e => .error e
        | .ok s => (pyGetItem s b).map (fun v => [(kwd, v)])
      else if kind = "var" then (varOf env a).map (fun v => [(kwd, v)])
      else if kind = "const" then
        match parsePyConst a with
        | some v => .ok [(kwd, v)]
        | none => unsupported
      else if kind = "splat" then
        match varOf env a with
        | .error e => .error e
        | .ok (.obj kv) => .ok kv
        | .ok _ => .error .typeError
      else unsupported
    match here with
    | .error e => .error e
    | .ok l => match evalArgs env rest with
      | .error e => .error e
      | .ok r => .ok (l ++ r)

structure WState where
  m : Mgr := {}
  env : REnv := []
  atRun : Option Mgr := none          -- the manager when `find_design` was reached
  ran : List String := []             -- the run steps executed
  deriving Inhabited

/-- One simple statement; the `Int` is the return value of a setter call (0 otherwise). -/
def execS (A : Arith) (s : WState) : SOp → Py (WState × Int)
  | .bind var src path =>
      match varOf s.env src with
      | .error e => .error e
      | .ok j => match getPath j path with
        | .error e => .error e
        | .ok v => .ok ({ s with env := (var, v) :: s.env }, 0)
  | .bindGet var src key dflt =>
      match varOf s.env src with
      | .error e => .error e
      | .ok j => match parsePyConst dflt with
        | none => unsupported
        | some d => match pyGet j key d with
          | .error e => .error e
          | .ok v => .ok ({ s with env := (var, v) :: s.env }, 0)
  | .call setter args =>
      match evalArgs s.env args with
      | .error e => .error e
      | .ok kw => match applySetter A s.m setter kw with
        | .error e => .error e
        | .ok (m', rc) => .ok ({ s with m := m' }, rc)
  | .print => .ok (s, 0)

def execSs (A : Arith) : List SOp → WState → Py WState
  | [], s => .ok s
  | op :: rest, s => match execS A s op with
    | .error e => .error e
    | .ok (s', _) => execSs A rest s'

/-- Text of the value the chains of the worker compare (`ghe.pipe_type`, `ghe.geom_type`). -/
def subjectLabel (m : Mgr) (subject : String) : Py String :=
  if subject = "ghe.pipe_type" then
    .ok (match m.pipeType with | some t => "BHPipeType." ++ t.name | none => "None")
  else if subject = "ghe.geom_type" then
    .ok (match m.geomType with | some t => "DesignGeomType." ++ t.name | none => "None")
  else unsupported

/-- The worker from `ops` on; `raisesAt step` says whether the run step raises. -/
def execR (A : Arith) (raisesAt : String → Bool) (file : Json) : List ROp → WState → Py (Int × WState)
  | [], s => .ok (0, s)                                   -- falling off the end returns None
  | .simple op :: rest, s =>
      match execS A s op with
      | .error e => .error e
      | .ok (s', _) => execR A raisesAt file rest s'
  | .validateGuard rc :: rest, s =>
      match validateInputFile file with
      | .error e => .error e
      | .ok n => if n ≠ 0 then .ok (rc, s) else execR A raisesAt file rest s
  | .versionCheck :: rest, s => execR A raisesAt file rest s
  | .callGuard op rc :: rest, s =>
      match execS A s op with
      | .error e => .error e
      | .ok (s', r) => if r ≠ 0 then .ok (rc, s') else execR A raisesAt file rest s'
  | .chain subject branches elseOps elseRet :: rest, s =>
      match subjectLabel s.m subject with
      | .error e => .error e
      | .ok lab =>
        match branches.lookup lab with
        | some ops => (match execSs A ops s with
          | .error e => .error e
          | .ok s' => execR A raisesAt file rest s')
        | none => match execSs A elseOps s with
          | .error e => .error e
          | .ok s' => match elseRet with
            | some rc => .ok (rc, s')
            | none => execR A raisesAt file rest s'
  | .run what :: rest, s =>
      let s' := { s with atRun := s.atRun.orElse (fun _ => some s.m), ran := s.ran ++ [what] }
      if raisesAt what then .error .other else execR A raisesAt file rest { s' with ran := s.ran ++ [what] }
  | .ret code :: _, s => .ok (code, s)

/-- `_run_manager_from_cli_worker` on a parsed input file. -/
def worker (A : Arith) (raisesAt : String → Bool) (file : Json) : Py (Int × WState) :=
  execR A raisesAt file Gen.worker { env := [("inputs", file)] }

/-- The manager the command-line loading path hands to `find_design` (`none` when the worker
    returned before reaching it). -/
def load (A : Arith) (file : Json) : Py (Option Mgr) :=
  match worker A (fun _ => false) file with
  | .error e => .error e
  | .ok (_, s) => .ok s.atRun

/-! ## API configurations -/

inductive PipeArgs where
  | single (dIn dOut s rough k rhoCp : Rat)
  | doublePar (dIn dOut s rough k rhoCp : Rat)
  | doubleSer (dIn dOut s rough k rhoCp : Rat)
  | coaxial (a b c d rough kIn kOut rhoCp : Rat)
  deriving Inhabited

inductive GeomArgs where
  | nearSquare (b length : Rat)
  | rectangle (length width bMin bMax : Rat)
  | biRectangle (length width bMin bMaxX bMaxY : Rat)
  | biZoned (length width bMin bMaxX bMaxY : Rat)
  | constrained (bMin bMaxX bMaxY : Rat) (prop : List (List (List Rat))) (nogo : List (List (List Rat)))
  | rowWise (ratio : Option Rat) (maxSp minSp step maxRot minRot rotStep : Rat)
            (prop : List (List Rat)) (nogo : List (List (List Rat)))
  deriving Inhabited

/-- The arguments of the API calls that configure a manager (the call order of
    `harness/ghelib.build_manager`; orders and repetitions are C13's subject). -/
structure Config where
  fluidName : String
  percent : Rat
  temperature : Rat
  groutK : Rat
  groutRhoCp : Rat
  soilK : Rat
  soilRhoCp : Rat
  soilT : Rat
  pipe : PipeArgs
  nominalHeight : Rat
  buriedDepth : Rat
  diameter : Rat
  numMonths : Rat
  maxEft : Rat
  minEft : Rat
  maxHeight : Rat
  minHeight : Rat
  maxBoreholes : Option Rat
  cont : Bool
  loads : List Rat
  geom : GeomArgs
  flowRate : Rat
  flowType : String
  deriving Inhabited

def jNums (l : List Rat) : Json := .arr (l.map Json.num)
def jPoly (p : List (List Rat)) : Json := .arr (p.map jNums)
def jPolys (p : List (List (List Rat))) : Json := .arr (p.map jPoly)

def PipeArgs.call : PipeArgs → String × List (String × Json)
  | .single a b s r k c => ("set_single_u_tube_pipe",
      [("inner_diameter", .num a), ("outer_diameter", .num b), ("shank_spacing", .num s), ("roughness", .num r),
       ("conductivity", .num k), ("rho_cp", .num c)])
  | .doublePar a b s r k c => ("set_double_u_tube_pipe_parallel",
      [("inner_diameter", .num a), ("outer_diameter", .num b), ("shank_spacing", .num s), ("roughness", .num r),
       ("conductivity", .num k), ("rho_cp", .num c)])
  | .doubleSer a b s r k c => ("set_double_u_tube_pipe_series",
      [("inner_diameter", .num a), ("outer_diameter", .num b), ("shank_spacing", .num s), ("roughness", .num r),
       ("conductivity", .num k), ("rho_cp", .num c)])
  | .coaxial a b c d r ki ko rc => ("set_coaxial_pipe",
      [("inner_pipe_d_in", .num a), ("inner_pipe_d_out", .num b), ("outer_pipe_d_in", .num c), ("outer_pipe_d_out", .num d),
       ("roughness", .num r), ("conductivity_inner", .num ki), ("conductivity_outer", .num ko), ("rho_cp", .num rc)])

def GeomArgs.call : GeomArgs → String × List (String × Json)
  | .nearSquare b l => ("set_geometry_constraints_near_square", [("b", .num b), ("length", .num l)])
  | .rectangle l w bmin bmax => ("set_geometry_constraints_rectangle",
      [("length", .num l), ("width", .num w), ("b_min", .num bmin), ("b_max", .num bmax)])
  | .biRectangle l w bmin bx by' => ("set_geometry_constraints_bi_rectangle",
      [("length", .num l), ("width", .num w), ("b_min", .num bmin), ("b_max_x", .num bx), ("b_max_y", .num by')])
  | .biZoned l w bmin bx by' => ("set_geometry_constraints_bi_zoned_rectangle",
      [("length", .num l), ("width", .num w), ("b_min", .num bmin), ("b_max_x", .num bx), ("b_max_y", .num by')])
  | .constrained bmin bx by' pb ng => ("set_geometry_constraints_bi_rectangle_constrained",
      [("b_min", .num bmin), ("b_max_x", .num bx), ("b_max_y", .num by'), ("property_boundary", jPolys pb),
       ("no_go_boundaries", jPolys ng)])
  | .rowWise ratio maxSp minSp step maxRot minRot rotStep pb ng => ("set_geometry_constraints_rowwise",
      [("perimeter_spacing_ratio", optJson ratio), ("max_spacing", .num maxSp), ("min_spacing", .num minSp),
       ("spacing_step", .num step), ("max_rotation", .num maxRot), ("min_rotation", .num minRot),
       ("rotate_step", .num rotStep), ("property_boundary", jPoly pb), ("no_go_boundaries", jPolys ng)])

/-- The API calls of a configuration, in order. -/
def Config.calls (c : Config) : List (String × List (String × Json)) :=
  [ ("set_fluid", [("fluid_name", .str c.fluidName), ("concentration_percent", .num c.percent), ("temperature", .num c.temperature)]),
    ("set_grout", [("conductivity", .num c.groutK), ("rho_cp", .num c.groutRhoCp)]),
    ("set_soil", [("conductivity", .num c.soilK), ("rho_cp", .num c.soilRhoCp), ("undisturbed_temp", .num c.soilT)]),
    c.pipe.call,
    ("set_borehole", [("height", .num c.nominalHeight), ("buried_depth", .num c.buriedDepth), ("diameter", .num c.diameter)]),
    ("set_simulation_parameters",
      [("num_months", .num c.numMonths), ("max_eft", .num c.maxEft), ("min_eft", .num c.minEft),
       ("max_height", .num c.maxHeight), ("min_height", .num c.minHeight), ("max_boreholes", optJson c.maxBoreholes),
       ("continue_if_design_unmet", .bool c.cont)]),
    ("set_ground_loads_from_hourly_list", [("hourly_ground_loads", jNums c.loads)]),
    c.geom.call,
    ("set_design", [("flow_rate", .num c.flowRate), ("flow_type_str", .str c.flowType)]) ]

/-- Run a sequence of API calls (any failing call raises: the API default is `throw=True`). -/
def runCalls (A : Arith) : List (String × List (String × Json)) → Mgr → Py Mgr
  | [], m => .ok m
  | (s, kw) :: rest, m => match applySetter A m s kw with
    | .error e => .error e
    | .ok (m', _) => runCalls A rest m'

def build (A : Arith) (c : Config) : Py Mgr := runCalls A c.calls {}

/-- What reading a written file back changes: the nominal borehole height (not part of the file)
    becomes the maximum height, and the manager's `geom_type` is set (the near-square API setter
    leaves it unset; nothing written depends on it). -/
def normalise (m : Mgr) : Mgr :=
  match m.borehole, m.sim, m.geom with
  | some b, some p, some g => { m with borehole := some { b with H := p.maxHeight }, geomType := some g.type }
  | _, _, _ => m

/-! ## Line protocol -/

section Protocol

def hexDigit (n : Nat) : Char := if n < 10 then Char.ofNat (48 + n) else Char.ofNat (87 + n)

def escStr (s : String) : String :=
  if s = "" then "%" else
  String.join (s.toList.map fun c =>
    if c.isAlphanum || c = '_' || c = '.' || c = '-' then c.toString
    else "%" ++ (hexDigit (c.toNat / 16)).toString ++ (hexDigit (c.toNat % 16)).toString)

def hexVal (c : Char) : Nat :=
  if c.isDigit then c.toNat - 48 else if 'a' ≤ c ∧ c ≤ 'f' then c.toNat - 87 else if 'A' ≤ c ∧ c ≤ 'F' then c.toNat - 55 else 0

def unescChars : List Char → List Char
  | '%' :: a :: b :: rest => Char.ofNat (hexVal a * 16 + hexVal b) :: unescChars rest
  | c :: rest => c :: unescChars rest
  | [] => []

def unescStr (s : String) : String := if s = "%" then "" else String.ofList (unescChars s.toList)

partial def showJson : Json → List String
  | .null => ["z"]
  | .bool true => ["t"]
  | .bool false => ["f"]
  | .num q => ["n", showRat q]
  | .str s => ["s", escStr s]
  | .arr l => ["a", toString l.length] ++ (l.map showJson).flatten
  | .obj kv => ["o", toString kv.length] ++ (kv.map fun p => escStr p.1 :: showJson p.2).flatten

/-- Parse one value from a token stream (`r n v` = an array of `n` copies of `v`). -/
partial def parseJson : List String → Option (Json × List String)
  | "z" :: r => some (.null, r)
  | "t" :: r => some (.bool true, r)
  | "f" :: r => some (.bool false, r)
  | "n" :: q :: r => (parseRat? q).map (fun v => (.num v, r))
  | "s" :: s :: r => some (.str (unescStr s), r)
  | "r" :: n :: r => do
      let k ← n.toNat?
      let (v, r') ← parseJson r
      pure (.arr (List.replicate k v), r')
  | "a" :: n :: r => do
      let k ← n.toNat?
      let rec items (k : Nat) (r : List String) (acc : List Json) : Option (List Json × List String) :=
        match k with
        | 0 => some (acc.reverse, r)
        | k + 1 => do
            let (v, r') ← parseJson r
            items k r' (v :: acc)
      let (l, r') ← items k r []
      pure (.arr l, r')
  | "o" :: n :: r => do
      let k ← n.toNat?
      let rec fields (k : Nat) (r : List String) (acc : Dict) : Option (Dict × List String) :=
        match k with
        | 0 => some (acc.reverse, r)
        | k + 1 =>
          match r with
          | key :: r1 => do
              let (v, r') ← parseJson r1
              -- a later duplicate key overrides an earlier one, as in a Python dict
              fields k r' ((unescStr key, v) :: acc.filter (fun p => p.1 ≠ unescStr key))
          | [] => none
      let (d, r') ← fields k r []
      pure (.obj d, r')
  | _ => none

def optRatJson : Option Rat → Json := optJson

def Geom.toJson : Geom → Json
  | .nearSquare b l => .obj [("class", .str "GeometricConstraintsNearSquare"), ("b", .num b), ("length", .num l)]
  | .rectangle w l bmin bx => .obj [("class", .str "GeometricConstraintsRectangle"), ("width", .num w), ("length", .num l),
      ("b_min", .num bmin), ("b_max_x", .num bx)]
  | .biRectangle w l bmin bx by' => .obj [("class", .str "GeometricConstraintsBiRectangle"), ("width", .num w), ("length", .num l),
      ("b_min", .num bmin), ("b_max_x", .num bx), ("b_max_y", .num by')]
  | .biZoned w l bmin bx by' => .obj [("class", .str "GeometricConstraintsBiZoned"), ("width", .num w), ("length", .num l),
      ("b_min", .num bmin), ("b_max_x", .num bx), ("b_max_y", .num by')]
  | .constrained bmin bx by' pb ng => .obj [("class", .str "GeometricConstraintsBiRectangleConstrained"), ("b_min", .num bmin),
      ("b_max_x", .num bx), ("b_max_y", .num by'), ("property_boundary", pb), ("no_go_boundaries", ng)]
  | .rowWise ratio minSp maxSp step minRot maxRot rotStep pb ng minDeg maxDeg =>
      .obj [("class", .str "GeometricConstraintsRowWise"), ("perimeter_spacing_ratio", optJson ratio),
        ("min_spacing", .num minSp), ("max_spacing", .num maxSp), ("spacing_step", .num step),
        ("min_rotation", .num minRot), ("max_rotation", .num maxRot), ("rotate_step", .num rotStep),
        ("property_boundary", pb), ("no_go_boundaries", ng), ("min_rotation_deg", .num minDeg), ("max_rotation_deg", .num maxDeg)]

def optObj {α} (o : Option α) (f : α → Json) : Json :=
  match o with
  | none => .null
  | some a => f a

/-- The manager's state as one JSON value (attribute names of the real objects). -/
def Mgr.toJson (m : Mgr) : Json :=
  .obj [
    ("fluid", optObj m.fluid fun f => .obj [("fluid_type", .str f.ftype.name), ("concentration_percent", .num f.percent), ("temperature", .num f.temperature)]),
    ("grout", optObj m.grout fun t => .obj [("k", .num t.k), ("rhoCp", .num t.rhoCp)]),
    ("soil", optObj m.soil fun s => .obj [("k", .num s.k), ("rhoCp", .num s.rhoCp), ("ugt", .num s.ugt)]),
    ("pipe", optObj m.pipe fun p => match p.geom with
      | .utube rIn rOut s k => .obj [("r_in", .num rIn), ("r_out", .num rOut), ("s", .num s), ("k", .num k),
          ("roughness", .num p.roughness), ("rhoCp", .num p.rhoCp)]
      | .coax a b c d ki ko => .obj [("r_in", .arr [.num a, .num b]), ("r_out", .arr [.num c, .num d]), ("s", .num 0),
          ("k", .arr [.num ki, .num ko]), ("roughness", .num p.roughness), ("rhoCp", .num p.rhoCp)]),
    ("pipe_type", optObj m.pipeType fun t => .str t.name),
    ("borehole", optObj m.borehole fun b => .obj [("H", .num b.H), ("D", .num b.D), ("r_b", .num b.rb)]),
    ("sim", optObj m.sim fun p => .obj [("end_month", .num p.endMonth), ("max_EFT_allowable", .num p.maxEft),
        ("min_EFT_allowable", .num p.minEft), ("max_height", .num p.maxHeight), ("min_height", .num p.minHeight),
        ("max_boreholes", optJson p.maxBoreholes), ("continue_if_design_unmet", .bool p.cont)]),
    ("loads", optObj m.loads id),
    ("geom_type", optObj m.geomType fun t => .str t.name),
    ("geom", optObj m.geom Geom.toJson),
    ("design", optObj m.design fun d => .obj [("class", .str d.className), ("V_flow", .num d.vFlow), ("flow_type", .str d.flowType.name)]) ]

def decodeCalls : Json → Option (List (String × List (String × Json)))
  | .arr l => l.mapM fun c => match c with
      | .arr [.str s, .obj kw] => some (s, kw)
      | _ => none
  | _ => none

def showPy {α} (f : α → List String) : Py α → String
  | .ok a => " ".intercalate ("ok" :: f a)
  | .error e => "raise " ++ e.name

/-- Commands (one line each; values in the token encoding of `showJson`):
      cfg.api <calls>       run API calls on a fresh manager, then write_input_file:
                            `ok o 5 state … input … sort_keys … indent … ret …`
      cfg.state <calls>     only the state after the calls
      cfg.validate <json>   `ok <error count>` / `raise <Exception>`
      cfg.load <json>       worker up to find_design: `ok o 2 ret <code|z> state <state|z>` -/
def cmd : List String → Option String
  | "cfg.api" :: toks => some <|
      match parseJson toks with
      | some (j, []) => (match decodeCalls j with
        | none => "bad-arg"
        | some calls =>
          showPy showJson (do
            let m ← runCalls exactArith calls {}
            let w ← writeInputFile exactArith m
            pure (Json.obj [("state", m.toJson), ("input", (w.file.getD .null)), ("sort_keys", .bool w.sortKeys),
                            ("indent", .num w.indent), ("ret", .num w.ret)])))
      | _ => "bad-arg"
  | "cfg.state" :: toks => some <|
      match parseJson toks with
      | some (j, []) => (match decodeCalls j with
        | none => "bad-arg"
        | some calls => showPy showJson ((runCalls exactArith calls {}).map Mgr.toJson))
      | _ => "bad-arg"
  | "cfg.validate" :: toks => some <|
      match parseJson toks with
      | some (j, []) => showPy (fun n => [toString n]) (validateInputFile j)
      | _ => "bad-arg"
  | "cfg.load" :: toks => some <|
      match parseJson toks with
      | some (j, []) =>
          showPy showJson ((worker exactArith (fun _ => false) j).map fun r =>
            Json.obj [("ret", .num r.1), ("reached_run", .bool r.2.atRun.isSome),
                      ("state", optObj r.2.atRun Mgr.toJson), ("final", r.2.m.toJson)])
      | _ => "bad-arg"
  | _ => none

end Protocol

end GHEVerif.Config
