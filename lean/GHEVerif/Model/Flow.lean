/-
  Model of the flow bookkeeping of GHEDesigner (property C20), over exact rationals.

  What the code does, in the order it does it (search_routines.py / ground_heat_exchangers.py):

    initialize_ghe(coordinates, h):
      v_flow_system, m_flow_borehole = self.retrieve_flow(coordinates, fluid.rho)      -- (1)
      b = borehole_spacing(borehole, coordinates)        -- coordinates[0]: IndexError on []   (2)
      g_function = calc_g_func_for_multiple_lengths(..., m_flow_borehole, ..., coordinates, ...)  -- (3)
      self.ghe = GHE(v_flow_system, ..., fluid, ..., g_function, ...)                   -- (4)
    BaseGHE.__init__:
      self.nbh = len(g_function.bore_locations)
      self.V_flow_borehole = self.V_flow_system / self.nbh
      m_flow_borehole = self.V_flow_borehole / 1000.0 * fluid.rho
      self.m_flow_borehole = m_flow_borehole ; self.bhe = get_bhe_object(bhe_type, m_flow_borehole, …)

  (1) is `Gen.retrieveFlow1D` / `Gen.retrieveFlowRW` (two textual copies in the source, both
  regenerated from search_routines.py on every check); (4) is `Gen.baseGheFlow`, the program slice
  of `BaseGHE.__init__` regenerated from ground_heat_exchangers.py.  This file only composes them
  (and gives the hand-written closed forms the theorems compare them with).  Only the *number* of
  coordinates matters to the flow; `g_function.bore_locations` is the `coordinates` list
  (`calc_g_func_for_multiple_lengths` stores it unchanged — measured by the correspondence run).
  Core Lean only.
-/
import GHEVerif.Model.Py
import GHEVerif.Gen.Funcs
import GHEVerif.Gen.Flow

namespace GHEVerif.Flow
open GHEVerif

/-- The two textual copies of `retrieve_flow` / `initialize_ghe` in search_routines.py.
    `Bisection2D` and `BisectionZD` inherit the `Bisection1D` copy. -/
inductive Copy where
  | bisection1D | rowWise
  deriving Repr, DecidableEq, Inhabited

def retrieveFlow : Copy → FlowType → Rat → List (Rat × Rat) → Rat → Py (Rat × Rat)
  | .bisection1D => Gen.retrieveFlow1D
  | .rowWise => Gen.retrieveFlowRW

/-- `utilities.borehole_spacing(borehole, coordinates)` as far as the flow path is concerned:
    it evaluates `coordinates[0]` first, which raises `IndexError` on an empty field. -/
def spacingCheck (coordinates : List (Rat × Rat)) : Py Unit :=
  if coordinates.isEmpty then .error .indexError else .ok ()

/-- Everything flow-related that one `initialize_ghe` call leaves behind. -/
structure GheFlow where
  vFlowSystem : Rat    -- `GHE.V_flow_system`
  mFlowG : Rat         -- mass flow handed to `calc_g_func_for_multiple_lengths`
  vFlowBorehole : Rat  -- `GHE.V_flow_borehole`
  mFlowGhe : Rat       -- `GHE.m_flow_borehole`
  mFlowBhe : Rat       -- `GHE.bhe.m_flow_borehole` (used by R_b*, simulate, the summary)
  nbh : Nat            -- `GHE.nbh`
  deriving Repr, DecidableEq

/-- `initialize_ghe` (either copy): flow split, spacing, then the `BaseGHE` recomputation. -/
def initializeGhe (c : Copy) (ft : FlowType) (v : Rat) (coordinates : List (Rat × Rat)) (rho : Rat) : Py GheFlow :=
  retrieveFlow c ft v coordinates rho >>= fun r =>
  spacingCheck coordinates >>= fun _ =>
  Gen.baseGheFlow r.1 coordinates rho >>= fun g =>
  pure { vFlowSystem := r.1, mFlowG := r.2, vFlowBorehole := g.1, mFlowGhe := g.2.1, mFlowBhe := g.2.2,
         nbh := coordinates.length }

/-! ### Hand-written closed forms (the specification side) -/

/-- Per-borehole mass flow (kg/s) of a per-borehole volumetric flow `vb` (L/s) and density `rho`. -/
def massFlow (vb rho : Rat) : Rat := vb / 1000 * rho

/-- Hand model of the `BaseGHE.__init__` recomputation: `(V_flow_borehole, m_flow_borehole)`. -/
def baseGhe (vFlowSystem : Rat) (nbh : Nat) (rho : Rat) : Py (Rat × Rat) :=
  if nbh = 0 then .error .zeroDiv
  else .ok (vFlowSystem / (nbh : Rat), massFlow (vFlowSystem / (nbh : Rat)) rho)

/-- Per-borehole volumetric flow meant by a specification on a field of `n` boreholes. -/
def perBoreholeSpec (ft : FlowType) (v : Rat) (n : Nat) : Rat :=
  match ft with
  | .borehole => v
  | .system => v / (n : Rat)
  | .other => 0

/-- System volumetric flow meant by a specification on a field of `n` boreholes. -/
def systemSpec (ft : FlowType) (v : Rat) (n : Nat) : Rat :=
  match ft with
  | .borehole => v * (n : Rat)
  | .system => v
  | .other => 0

/-! ### `GHEManager.set_design` call histories (manager.py)

  What `set_design(flow_rate, flow_type_str, throw)` does, in order (`Gen.setDesignSkeleton` is the
  skeleton regenerated from the source): upper-case the string; not a `FlowConfigType` name →
  `ValueError` if `throw` else return 1, nothing stored; `self._geometric_constraints.type` (an
  `AttributeError` while no geometry has been set — `_geometric_constraints` is `None`); otherwise
  `self._design = Design<Method>(flow_rate, …, self._geometric_constraints, …, flow_type=flow_type)` — a
  NEW design object on every call, whatever was there before — and return 0.
  `set_geometry_constraints_*` replaces `_geometric_constraints` and leaves `_design` alone. -/

/-- The part of a `GHEManager` the flow specification lives in: `geom` = index of the design method of
    the current geometric constraints (`none`: not set), `design` = (V_flow, flow_type, method) of `_design`. -/
structure Manager where
  geom : Option Nat
  design : Option (Rat × FlowType × Nat)
  deriving Repr, DecidableEq

inductive CallResult where
  | ret (code : Nat) | raised (e : PyErr)
  deriving Repr, DecidableEq

/-- Number of design methods `set_design` knows (`DesignGeomType`). -/
def nMethods : Nat := 6

/-- One `set_design` call; `ft` is the enum member named by the upper-cased string (`.other`: none).
    `AttributeError` is `PyErr.other`. -/
def setDesign (m : Manager) (v : Rat) (ft : FlowType) (throw : Bool) : Manager × CallResult :=
  if ft = .other then (m, if throw then .raised .valueError else .ret 1)
  else match m.geom with
    | none => (m, .raised .other)
    | some k =>
      if k < nMethods then ({ m with design := some (v, ft, k) }, .ret 0)
      else (m, if throw then .raised .valueError else .ret 1)

def setGeometry (m : Manager) (k : Nat) : Manager := { m with geom := some k }

/-- A call of the history: `set_design(v, ft, throw)`. -/
abbrev Call := Rat × FlowType × Bool

def stepCall (m : Manager) (c : Call) : Manager := (setDesign m c.1 c.2.1 c.2.2).1

/-- The manager after a history of `set_design` calls (exceptions caught by the caller). -/
def afterCalls (m : Manager) (calls : List Call) : Manager := calls.foldl stepCall m

/-- A call that names a `FlowConfigType` member (any other string is refused and stores nothing). -/
def validCall (c : Call) : Bool := decide (c.2.1 ≠ FlowType.other)

/-- The flow state `find_design` gives a candidate field: the search is constructed from
    `_design.V_flow`, `_design.flow_type` (`Gen.designFlowWiring`); no design → `find_design` refuses. -/
def designFlow (m : Manager) (c : Copy) (coordinates : List (Rat × Rat)) (rho : Rat) : Py GheFlow :=
  match m.design with
  | some (v, ft, _) => initializeGhe c ft v coordinates rho
  | none => .error .valueError

/-! ### Line protocol -/

def field (n : Nat) : List (Rat × Rat) := List.replicate n (0, 0)

def parseFT : String → Option FlowType
  | "B" => some .borehole | "S" => some .system | "X" => some .other | _ => none

def parseCopy : String → Option Copy
  | "1d" => some .bisection1D | "rw" => some .rowWise | _ => none

def showPy {α} (f : α → String) : Py α → String
  | .ok a => f a
  | .error e => "raise " ++ e.name

/-- Commands:
    `flow.rf <1d|rw> <B|S|X> <v> <n> <rho>`   → `v_flow_system m_flow_borehole`
    `flow.bghe <v_flow_system> <n> <rho>`     → `V_flow_borehole m_flow_borehole bhe_m_flow`
    `flow.init <1d|rw> <B|S|X> <v> <n> <rho>` → `V_flow_system m_g V_flow_borehole m_ghe m_bhe nbh`
    `flow.hist <item;item;…>`  (item = `g<k>` | `<v>,<B|S|X>,<T|F>`) → `<result,…> <V_flow ft k | none>` -/
def cmd : List String → Option String
  | ["flow.rf", c, ft, v, n, rho] => some <|
      match parseCopy c, parseFT ft, parseRat? v, n.toNat?, parseRat? rho with
      | some c, some ft, some v, some n, some rho =>
          showPy (fun (r : Rat × Rat) => s!"{showRat r.1} {showRat r.2}") (retrieveFlow c ft v (field n) rho)
      | _, _, _, _, _ => "bad-arg"
  | ["flow.bghe", vs, n, rho] => some <|
      match parseRat? vs, n.toNat?, parseRat? rho with
      | some vs, some n, some rho =>
          showPy (fun (r : Rat × Rat × Rat) => s!"{showRat r.1} {showRat r.2.1} {showRat r.2.2}") (Gen.baseGheFlow vs (field n) rho)
      | _, _, _ => "bad-arg"
  | ["flow.init", c, ft, v, n, rho] => some <|
      match parseCopy c, parseFT ft, parseRat? v, n.toNat?, parseRat? rho with
      | some c, some ft, some v, some n, some rho =>
          showPy (fun (g : GheFlow) =>
            s!"{showRat g.vFlowSystem} {showRat g.mFlowG} {showRat g.vFlowBorehole} {showRat g.mFlowGhe} {showRat g.mFlowBhe} {g.nbh}")
            (initializeGhe c ft v (field n) rho)
      | _, _, _, _, _ => "bad-arg"
  | ["flow.hist", items] => some <| Id.run do
      -- items: `;`-separated, each `g<k>` (set geometry of method k) or `<v>,<B|S|X>,<T|F>` (set_design)
      let mut m : Manager := { geom := none, design := none }
      let mut outs : List String := []
      for it in items.splitOn ";" do
        if it.startsWith "g" then
          match (it.drop 1).toNat? with
          | some k => m := setGeometry m k; outs := outs ++ ["g"]
          | none => return "bad-arg"
        else
          match it.splitOn "," with
          | [v, ft, t] =>
            match parseRat? v, parseFT ft with
            | some v, some ft =>
              let r := setDesign m v ft (t == "T")
              m := r.1
              outs := outs ++ [match r.2 with | .ret c => toString c | .raised e => e.name]
            | _, _ => return "bad-arg"
          | _ => return "bad-arg"
      let d := match m.design with
        | some (v, ft, k) => s!"{showRat v} {match ft with | .borehole => "B" | .system => "S" | .other => "X"} {k}"
        | none => "none"
      return String.intercalate "," outs ++ " " ++ d
  | _ => none

end GHEVerif.Flow
