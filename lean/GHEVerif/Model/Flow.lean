/-
  Model of the flow bookkeeping of GHEDesigner (property C20), over exact rationals.

  What the code does, in the order it does it (search_routines.py / ground_heat_exchangers.py):

    initialize_ghe(coordinates, h):
      v_flow_system, m_flow_borehole = self.retrieve_flow(coordinates, fluid.rho)      -- (1)
      b = borehole_spacing(borehole, coordinates)        -- coordinates[0]: IndexError on []   (2)
      g_function = calc_g_func_for_multiple_lengths(..., m_flow_borehole, ..., coordinates, ...)  -- (3)
      self.ghe = GHE(v_flow_system, ..., fluid, ..., g_function, ...)                   -- (4)
    BaseGHE.__init__:
      self.nbh = len(g_function.bore_locations)
      self.V_flow_borehole = self.V_flow_system / self.nbh
      m_flow_borehole = self.V_flow_borehole / 1000.0 * fluid.rho
      self.m_flow_borehole = m_flow_borehole ; self.bhe = get_bhe_object(bhe_type, m_flow_borehole, …)

  (1) is `Gen.retrieveFlow1D` / `Gen.retrieveFlowRW` (two textual copies in the source, both
  regenerated from search_routines.py on every check); (4) is `Gen.baseGheFlow`, the program slice
  of `BaseGHE.__init__` regenerated from ground_heat_exchangers.py.  This file only composes them
  (and gives the hand-written closed forms the theorems compare them with).  Only the *number* of
  coordinates matters to the flow; `g_function.bore_locations` is the `coordinates` list
  (`calc_g_func_for_multiple_lengths` stores it unchanged — measured by the correspondence run).
  Core Lean only.
-/
import GHEVerif.Model.Py
import GHEVerif.Gen.Funcs
import GHEVerif.Gen.Flow

namespace GHEVerif.Flow
open GHEVerif

/-- The two textual copies of `retrieve_flow` / `initialize_ghe` in search_routines.py.
    `Bisection2D` and `BisectionZD` inherit the `Bisection1D` copy. -/
inductive Copy where
  | bisection1D | rowWise
  deriving Repr, DecidableEq, Inhabited

def retrieveFlow : Copy → FlowType → Rat → List (Rat × Rat) → Rat → Py (Rat × Rat)
  | .bisection1D => Gen.retrieveFlow1D
  | .rowWise => Gen.retrieveFlowRW

/-- `utilities.borehole_spacing(borehole, coordinates)` as far as the flow path is concerned:
    it evaluates `coordinates[0]` first, which raises `IndexError` on an empty field. -/
def spacingCheck (coordinates : List (Rat × Rat)) : Py Unit :=
  if coordinates.isEmpty then .error .indexError else .ok ()

/-- Everything flow-related that one `initialize_ghe` call leaves behind. -/
structure GheFlow where
  vFlowSystem : Rat    -- `GHE.V_flow_system`
  mFlowG : Rat         -- mass flow handed to `calc_g_func_for_multiple_lengths`
  vFlowBorehole : Rat  -- `GHE.V_flow_borehole`
  mFlowGhe : Rat       -- `GHE.m_flow_borehole`
  mFlowBhe : Rat       -- `GHE.bhe.m_flow_borehole` (used by R_b*, simulate, the summary)
  nbh : Nat            -- `GHE.nbh`
  deriving Repr, DecidableEq

/-- `initialize_ghe` (either copy): flow split, spacing, then the `BaseGHE` recomputation. -/
def initializeGhe (c : Copy) (ft : FlowType) (v : Rat) (coordinates : List (Rat × Rat)) (rho : Rat) : Py GheFlow :=
  retrieveFlow c ft v coordinates rho >>= fun r =>
  spacingCheck coordinates >>= fun _ =>
  Gen.baseGheFlow r.1 coordinates rho >>= fun g =>
  pure { vFlowSystem := r.1, mFlowG := r.2, vFlowBorehole := g.1, mFlowGhe := g.2.1, mFlowBhe := g.2.2,
         nbh := coordinates.length }

/-! ### Hand-written closed forms (the specification side) -/

/-- Per-borehole mass flow (kg/s) of a per-borehole volumetric flow `vb` (L/s) and density `rho`. -/
def massFlow (vb rho : Rat) : Rat := vb / 1000 * rho

/-- Hand model of the `BaseGHE.__init__` recomputation: `(V_flow_borehole, m_flow_borehole)`. -/
def baseGhe (vFlowSystem : Rat) (nbh : Nat) (rho : Rat) : Py (Rat × Rat) :=
  if nbh = 0 then .error .zeroDiv
  else .ok (vFlowSystem / (nbh : Rat), massFlow (vFlowSystem / (nbh : Rat)) rho)

/-- Per-borehole volumetric flow meant by a specification on a field of `n` boreholes. -/
def perBoreholeSpec (ft : FlowType) (v : Rat) (n : Nat) : Rat :=
  match ft with
  | .borehole => v
  | .system => v / (n : Rat)
  | .other => 0

/-- System volumetric flow meant by a specification on a field of `n` boreholes. -/
def systemSpec (ft : FlowType) (v : Rat) (n : Nat) : Rat :=
  match ft with
  | .borehole => v * (n : Rat)
  | .system => v
  | .other => 0

/-! ### Line protocol -/

def field (n : Nat) : List (Rat × Rat) := List.replicate n (0, 0)

def parseFT : String → Option FlowType
  | "B" => some .borehole | "S" => some .system | "X" => some .other | _ => none

def parseCopy : String → Option Copy
  | "1d" => some .bisection1D | "rw" => some .rowWise | _ => none

def showPy {α} (f : α → String) : Py α → String
  | .ok a => f a
  | .error e => "raise " ++ e.name

/-- Commands:
    `flow.rf <1d|rw> <B|S|X> <v> <n> <rho>`   → `v_flow_system m_flow_borehole`
    `flow.bghe <v_flow_system> <n> <rho>`     → `V_flow_borehole m_flow_borehole bhe_m_flow`
    `flow.init <1d|rw> <B|S|X> <v> <n> <rho>` → `V_flow_system m_g V_flow_borehole m_ghe m_bhe nbh` -/
def cmd : List String → Option String
  | ["flow.rf", c, ft, v, n, rho] => some <|
      match parseCopy c, parseFT ft, parseRat? v, n.toNat?, parseRat? rho with
      | some c, some ft, some v, some n, some rho =>
          showPy (fun (r : Rat × Rat) => s!"{showRat r.1} {showRat r.2}") (retrieveFlow c ft v (field n) rho)
      | _, _, _, _, _ => "bad-arg"
  | ["flow.bghe", vs, n, rho] => some <|
      match parseRat? vs, n.toNat?, parseRat? rho with
      | some vs, some n, some rho =>
          showPy (fun (r : Rat × Rat × Rat) => s!"{showRat r.1} {showRat r.2.1} {showRat r.2.2}") (Gen.baseGheFlow vs (field n) rho)
      | _, _, _ => "bad-arg"
  | ["flow.init", c, ft, v, n, rho] => some <|
      match parseCopy c, parseFT ft, parseRat? v, n.toNat?, parseRat? rho with
      | some c, some ft, some v, some n, some rho =>
          showPy (fun (g : GheFlow) =>
            s!"{showRat g.vFlowSystem} {showRat g.mFlowG} {showRat g.vFlowBorehole} {showRat g.mFlowGhe} {showRat g.mFlowBhe} {g.nbh}")
            (initializeGhe c ft v (field n) rho)
      | _, _, _, _, _ => "bad-arg"
  | _ => none

end GHEVerif.Flow
