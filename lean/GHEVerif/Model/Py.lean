/-
  Python-semantics prelude shared by the hand-written models and by the files the
  translator regenerates from /repo (GHEVerif/Gen/*).  Core Lean only: no Mathlib.
-/
namespace GHEVerif

/-- The Python exceptions the models distinguish. -/
inductive PyErr where
  | zeroDiv | indexError | valueError | typeError | keyError | other
  deriving Repr, DecidableEq, Inhabited

def PyErr.name : PyErr → String
  | .zeroDiv => "ZeroDivisionError" | .indexError => "IndexError"
  | .valueError => "ValueError" | .typeError => "TypeError"
  | .keyError => "KeyError" | .other => "Exception"

abbrev Py := Except PyErr

/-- Python `a / b` on numbers (true division). -/
def pyDiv (a b : Rat) : Py Rat := if b = 0 then .error .zeroDiv else .ok (a / b)
/-- Python `int(x)` on a float: truncation toward zero. -/
def pyTrunc (x : Rat) : Int := if 0 ≤ x then x.floor else x.ceil
/-- Python `a // b` on ints. -/
def pyFloorDiv (a b : Int) : Py Int := if b = 0 then .error .zeroDiv else .ok (a.fdiv b)
/-- Python `a % b` on ints (sign of the divisor). -/
def pyMod (a b : Int) : Py Int := if b = 0 then .error .zeroDiv else .ok (a.fmod b)
/-- Python list indexing with negative-index wrap-around. -/
def pyIndex {α} (l : List α) (i : Int) : Py α :=
  let n : Int := l.length
  let j := if i < 0 then i + n else i
  if j < 0 ∨ n ≤ j then .error .indexError
  else match l[j.toNat]? with | some x => .ok x | none => .error .indexError

/-- Python `range(lo, hi)` as a list. -/
def pyRange (lo hi : Int) : List Int := (List.range (hi - lo).toNat).map (fun (k : Nat) => lo + (k : Int))

/-- `FlowConfigType`; `other` stands for any value that is neither member. -/
inductive FlowType where
  | borehole | system | other
  deriving Repr, DecidableEq, Inhabited

/-- The statements of `GHE.size` as operations of the height/temperature state machine
    (generated from the source by translate/gen_report.py, interpreted by Model/Report.lean). -/
inductive SizeOp where
  | setMid        -- self.bhe.b.H = (max_height + min_height) / 2
  | solve         -- returned_height = solve_root(self.bhe.b.H, local_objective, lower=min_height, upper=max_height, …)
  | setReturned   -- self.bhe.b.H = returned_height
  | simulate      -- self.simulate(method=method)
  deriving Repr, DecidableEq, Inhabited

/-- The statements of `GHEManager.find_design` after the "everything is set" guard. -/
inductive MgrOp where
  | startTimer    -- start_time = time()
  | search        -- self._search = self._design.find_design()
  | computeG      -- self._search.ghe.compute_g_functions()
  | stopTimer     -- self._search_time = time() - start_time
  | size          -- self._search.ghe.size(method=TimestepType.HYBRID)
  | ret0          -- return 0
  deriving Repr, DecidableEq, Inhabited

/-- The statements of the nested `local_objective(h)`. -/
inductive ObjOp where
  | setH          -- self.bhe.b.H = h
  | simulate      -- max_hp_eft, min_hp_eft = self.simulate(method=method)
  | cost          -- t_excess = self.cost(max_hp_eft, min_hp_eft)
  | ret           -- return t_excess
  deriving Repr, DecidableEq, Inhabited

def ratAbs (x : Rat) : Rat := if x < 0 then -x else x
def ratMax (a b : Rat) : Rat := if a < b then b else a   -- Python max(a,b): first maximal wins; equal ⇒ a
def ratMin (a b : Rat) : Rat := if b < a then b else a

/-- Parse "n/d", "n" or a plain decimal like "-12.5" into a Rat (line protocol). -/
def parseRat? (s : String) : Option Rat :=
  match s.splitOn "/" with
  | [n, d] => do
      let n ← n.toInt?
      let d ← d.toNat?
      if d = 0 then none else some (mkRat n d)
  | [x] =>
      match x.splitOn "." with
      | [i] => (fun (k : Int) => (k : Rat)) <$> i.toInt?
      | [i, f] =>
          let neg := i.startsWith "-"
          let ip := if i == "-" || i == "" then some (0 : Int) else i.toInt?
          match ip, f.toNat? with
          | some ip, some fp =>
              let frac : Rat := mkRat fp (10 ^ f.length)
              let ipa : Rat := ((if ip < 0 then -ip else ip : Int) : Rat)
              let v := ipa + frac
              some (if neg then -v else v)
          | _, _ => none
      | _ => none
  | _ => none

def showRat (q : Rat) : String := s!"{q.num}/{q.den}"

end GHEVerif
