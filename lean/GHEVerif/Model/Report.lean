/-
  Model of what the summary reports (output.py) and of the height / simulated-temperature state
  of a GHE object through `GHE.size` (ground_heat_exchangers.py).  The statement lists of
  `GHE.size` and of its nested objective are regenerated from the source (Gen.sizeOps,
  Gen.objectiveOps) and *interpreted* here, so removing or reordering a statement changes the
  model the theorems are about.
-/
import GHEVerif.Model.Py
import GHEVerif.Model.Search
import GHEVerif.Gen.Report

namespace GHEVerif.Report
open GHEVerif GHEVerif.Search

/-- The part of a GHE object the report depends on: the (shared) borehole height and the height at
    which `hp_eft` was last computed (`none`: never simulated). -/
structure GState where
  H : Rat
  simAt : Option Rat
  returned : Rat          -- local `returned_height`
  deriving Repr, DecidableEq

/-- One evaluation of `local_objective(h)`, statement by statement. -/
def runObjective (h : Rat) (st : GState) : List ObjOp → GState
  | [] => st
  | .setH :: rest => runObjective h { st with H := h } rest
  | .simulate :: rest => runObjective h { st with simAt := some st.H } rest
  | .cost :: rest => runObjective h st rest
  | .ret :: _ => st

/-- `GHE.size`, statement by statement.  `f` is the excess as a function of the height; Brent's
    iterates `its` (heights it evaluates between the two ends) and its answer `brent` are
    parameters.  `solve_root` evaluates the objective at `lower`, at `upper`, then (only when the
    signs differ) at Brent's iterates. -/
def runSize (f : Rat → Rat) (lo hi : Rat) (its : List Rat) (brent : Rat) (objOps : List ObjOp) :
    GState → List SizeOp → Py GState
  | st, [] => .ok st
  | st, .setMid :: rest => runSize f lo hi its brent objOps { st with H := (hi + lo) / 2 } rest
  | st, .solve :: rest =>
      let st1 := runObjective lo st objOps
      let st2 := runObjective hi st1 objOps
      match solveRoot st.H f lo hi brent with
      | .error e => .error e
      | .ok (.bracketed, r) =>
          let st3 := its.foldl (fun s h => runObjective h s objOps) st2
          runSize f lo hi its brent objOps { st3 with returned := r } rest
      | .ok (_, r) => runSize f lo hi its brent objOps { st2 with returned := r } rest
  | st, .setReturned :: rest => runSize f lo hi its brent objOps { st with H := st.returned } rest
  | st, .simulate :: rest => runSize f lo hi its brent objOps { st with simAt := some st.H } rest

/-- `GHE.size` as the source has it now. -/
def size (f : Rat → Rat) (lo hi : Rat) (its : List Rat) (brent : Rat) (st : GState) : Py GState :=
  runSize f lo hi its brent Gen.objectiveOps st Gen.sizeOps

/-- What the summary object reports, as a function of the live state it reads. -/
structure Summary where
  numberOfBoreholes : Nat
  totalDrilling : Rat
  activeLength : Rat
  boreRows : Nat
  deriving Repr, DecidableEq

def summary (coords : List (Rat × Rat)) (st : GState) : Summary :=
  { numberOfBoreholes := coords.length,          -- len(design.ghe.gFunction.bore_locations)
    totalDrilling := st.H * (coords.length : Nat), -- design.ghe.bhe.b.H * len(...)
    activeLength := st.H,                        -- design.ghe.bhe.b.H
    boreRows := (coords.map (fun c => [c.1, c.2])).length }   -- one row per bore_location

/-- Line protocol: `size <flo> <fhi> <lo> <hi> <brent> <H0> <n_its> its…` → `H simAt kind`. -/
def cmd : List String → Option String
  | "size" :: flo :: fhi :: lo :: hi :: brent :: h0 :: rest => some <| Id.run do
      let some flo := parseRat? flo | return "bad-arg"
      let some fhi := parseRat? fhi | return "bad-arg"
      let some lo := parseRat? lo | return "bad-arg"
      let some hi := parseRat? hi | return "bad-arg"
      let some brent := parseRat? brent | return "bad-arg"
      let some h0 := parseRat? h0 | return "bad-arg"
      let some its := parseRats rest | return "bad-arg"
      let f : Rat → Rat := fun h => if h = lo then flo else if h = hi then fhi else 0
      match size f lo hi its brent { H := h0, simAt := none, returned := 0 } with
      | .error e => return "raise " ++ e.name
      | .ok st => return s!"{showRat st.H} {match st.simAt with | some a => showRat a | none => "none"}"
  | _ => none

end GHEVerif.Report
