/-
  Model of the temporal superposition in ghedesigner/ground_heat_exchangers.py:
  `BaseGHE._simulate_detailed`, the unit handling of `GHE.simulate` for both time-step
  methods (HYBRID, HOURLY), and `BaseGHE.cost` (translated: `Gen.cost`).

  Numbers are `Rat`: every IEEE double is a rational, so the model runs on exactly the
  implementation's inputs; the only difference left is the implementation's rounding.
  The single transcendental part, `g(np.log(_time * SEC_IN_HR / ts))`, is a parameter:
  `G n i` in `simulateDetailed`, `gln : Rat → Rat` (g ∘ ln of the exact dimensionless time)
  in `ghSimulate*`.  The literal constants come from `Gen.SimConsts`, regenerated from the
  source on every check.  Core Lean only.

  What raises in Python is `.error` here.  numpy does *not* raise on a division by zero
  (`H = 0`, `k = 0`, `nbh = 0` as float, `m_dot*cp = 0` give inf/nan and a RuntimeWarning);
  `Params.finite` is the condition under which the implementation's result is finite, and the
  line-protocol handler answers `nonfinite` when it fails.
-/
import GHEVerif.Model.Py
import GHEVerif.Gen.Tables
import GHEVerif.Gen.Funcs
import GHEVerif.Gen.SimConsts

namespace GHEVerif.Superpose
open GHEVerif

/-- What `_simulate_detailed` reads from the object: `H = bhe.b.H`, `twoPiK = TWO_PI*soil.k`,
    `Tg = soil.ugt`, `Rb = bhe.calc_effective_borehole_resistance()`, `mdot = bhe.m_flow_borehole`,
    `cp = fluid.cp`, `N = self.nbh`. -/
structure Params where
  H : Rat
  twoPiK : Rat
  Tg : Rat
  Rb : Rat
  mdot : Rat
  cp : Rat
  N : Nat
  deriving Repr, Inhabited

/-- The divisors of `_simulate_detailed` are all non-zero (otherwise numpy yields inf/nan). -/
def Params.finite (P : Params) : Bool :=
  P.H != 0 && P.twoPiK != 0 && P.N != 0 && Gen.detOutletFactor * P.mdot * P.cp != 0

/-- `q_dot_b = np.hstack((0.0, q_dot / float(self.nbh)))` -/
def qB (q : List Rat) (P : Params) : List Rat :=
  Gen.detLoadPrepend :: q.map (fun x => x / (P.N : Rat))

/-- `a[1:] - a[:-1]` -/
def diffs (a : List Rat) : List Rat := List.zipWith (fun x y => x - y) a.tail a

/-- `u.dot(v)` for equally long vectors. -/
def dot (u v : List Rat) : Rat := (List.zipWith (fun x y => x * y) u v).sum

/-- Row `i` of the g-values: `g(np.log((time_values[i] - time_values[0:i]) * SEC_IN_HR / ts))`,
    entry `j` (0-based) being `G i (j+1)`. -/
def gRow (G : Nat → Nat → Rat) (i : Nat) : List Rat := (List.range i).map (fun j => G i (j + 1))

/-- `delta_tb_i = (q_dot_b_dt[0:i] / h / two_pi_k).dot(g_values)` -/
def deltaTb (q : List Rat) (G : Nat → Nat → Rat) (P : Params) (i : Nat) : Rat :=
  dot (((diffs (qB q P)).take i).map (fun x => x / P.H / P.twoPiK)) (gRow G i)

/-- One pass of the loop body for index `i` (1-based): `tf_out`. -/
def eftStep (q : List Rat) (G : Nat → Nat → Rat) (P : Params) (i : Nat) : Rat :=
  let qi := (qB q P).getD i 0
  let tb := P.Tg + deltaTb q G P i
  let tfBulk := tb + qi / P.H * P.Rb
  tfBulk - qi / (Gen.detOutletFactor * P.mdot * P.cp)

/-- The loop of `_simulate_detailed` restricted to the 1-based indices `steps` (every pass of the
    loop is independent of the others: no state is carried).  `time_values[i]` raises IndexError
    as soon as `i` exceeds the time axis (no partial result). -/
def simulateDetailedAt (steps : List Nat) (q t : List Rat) (G : Nat → Nat → Rat) (P : Params) :
    Py (List Rat × List Rat) :=
  if t.length < q.length then .error .indexError
  else .ok (steps.map (fun i => eftStep q G P i), steps.map (fun i => deltaTb q G P i))

/-- `for i in range(1, n + 1)` with `n = q_dot.size`. -/
def loopIndices (n : Nat) : List Nat := (List.range n).map (fun k => k + 1)

/-- `_simulate_detailed(q_dot, time_values, g)`: `(hp_eft, delta_tb)`. -/
def simulateDetailed (q t : List Rat) (G : Nat → Nat → Rat) (P : Params) : Py (List Rat × List Rat) :=
  simulateDetailedAt (loopIndices q.length) q t G P

/-- `time_values = np.hstack((0.0, time_values))` -/
def timeAxis (t : List Rat) : Array Rat := (Gen.detTimePrepend :: t).toArray

/-- The `G` of a run: `G n i = gln ((tv[n] - tv[i-1]) * SEC_IN_HR / ts)` with `tv = timeAxis t`;
    `gln x` stands for `g(ln x)`. -/
def Gof (gln : Rat → Rat) (ts : Rat) (tv : Array Rat) : Nat → Nat → Rat :=
  fun n i => gln ((tv.getD n 0 - tv.getD (i - 1) 0) * (Gen.SEC_IN_HR : Rat) / ts)

/-- Python `max(list)` / `min(list)` (first extremal element); `none` for the empty list
    (Python raises ValueError). -/
def pyMaxList : List Rat → Option Rat
  | [] => none
  | x :: xs => some (xs.foldl ratMax x)
def pyMinList : List Rat → Option Rat
  | [] => none
  | x :: xs => some (xs.foldl ratMin x)

/-- Result of `GHE.simulate`: the stored lists and the returned pair. -/
structure SimOut where
  hpEft : List Rat
  dTb : List Rat
  maxEft : Rat
  minEft : Rat
  deriving Repr

def finishSim (r : List Rat × List Rat) : Py SimOut :=
  match pyMaxList r.1, pyMinList r.1 with
  | some mx, some mn => .ok ⟨r.1, r.2, mx, mn⟩
  | _, _ => .error .valueError     -- `max([])`

/-- `GHE.simulate(TimestepType.HYBRID)`: `q_dot = hybrid_load.load[2:] * 1000.0` (kW → W),
    `time_values = hybrid_load.hour[2:]` (hours; the conversion to seconds is inside `Gof`). -/
def ghSimulateHybrid (load hour : List Rat) (gln : Rat → Rat) (ts : Rat) (P : Params) : Py SimOut :=
  let q := (load.drop Gen.simHybridLoadDrop).map (fun x => x * Gen.simKwToW)
  let t := hour.drop Gen.simHybridHourDrop
  simulateDetailed q t (Gof gln ts (timeAxis t)) P >>= finishSim

/-- Python `lst * n` (list repetition; `n ≤ 0` gives `[]`). -/
def pyRepeat (l : List Rat) (n : Int) : List Rat := (List.replicate n.toNat l).flatten

/-- Python `lst[:n]` (a negative `n` counts from the end). -/
def pySliceTo (l : List Rat) (n : Int) : List Rat :=
  if 0 ≤ n then l.take n.toNat else l.take (l.length - n.natAbs)

/-- `n_hours = int(n_months / 12.0 * 8760.0)` with `n_months = end_month - start_month + 1`. -/
def nHoursOf (startMonth endMonth : Int) : Int :=
  pyTrunc ((((endMonth - startMonth + Gen.simMonthsPlus : Int) : Rat)) / Gen.simMonthsPerYear * Gen.simHoursPerYear)

/-- The loads and the time axis `GHE.simulate(TimestepType.HOURLY)` hands to
    `_simulate_detailed`.  `loads` = `hourly_extraction_ground_loads` (a Python list, W).
    A list shorter than the horizon (`len // 8760 < n_years`) is repeated `n_years` times and cut at
    `n_hours`; otherwise the list is taken as given and `n_hours = len`.
    The time axis is rebuilt on every call (`self.times = np.arange(1, n_hours + 1, 1)`). -/
def hourlyInputs (loads : List Rat) (startMonth endMonth : Int) : List Rat × List Rat :=
  let nHours0 := nHoursOf startMonth endMonth
  let nYears : Int := (((nHours0 : Rat)) / (Gen.simHoursPerYearCeil : Rat)).ceil
  let len : Int := loads.length
  let rep := decide (Int.fdiv len Gen.simHoursPerYearDiv < nYears)
  let q0 := if rep then pySliceTo (pyRepeat loads nYears) nHours0 else loads   -- `(q_dot * n_years)[:n_hours]`
  let nHours := if rep then nHours0 else len
  let q := q0.map (fun x => Gen.simHourlySign * x)
  let t := (pyRange Gen.simArangeStart (nHours + Gen.simArangeStopPlus)).map (fun (k : Int) => (k : Rat))
  (q, t)

def ghSimulateHourly (loads : List Rat) (startMonth endMonth : Int)
    (gln : Rat → Rat) (ts : Rat) (P : Params) : Py SimOut :=
  let qt := hourlyInputs loads startMonth endMonth
  simulateDetailed qt.1 qt.2 (Gof gln ts (timeAxis qt.2)) P >>= finishSim

/-- The hourly run evaluated at the requested steps only (used by the line protocol: a full
    year is 8760 steps of up to 8760 terms each). -/
def ghSimulateHourlyAt (steps : List Nat) (loads : List Rat) (startMonth endMonth : Int)
    (gln : Rat → Rat) (ts : Rat) (P : Params) : Py (List Rat × List Rat) :=
  let qt := hourlyInputs loads startMonth endMonth
  simulateDetailedAt steps qt.1 qt.2 (Gof gln ts (timeAxis qt.2)) P

/-- `self.cost(max_hp_eft, min_hp_eft)` of a finished simulation. -/
def costOf (maxAllow minAllow : Rat) (s : SimOut) : Rat := Gen.cost maxAllow minAllow s.maxEft s.minEft

/-! ### Line protocol -/

def parseList (s : String) : Option (List Rat) :=
  if s = "-" then some [] else (s.splitOn ",").mapM parseRat?

def parseNats (s : String) : Option (List Nat) :=
  if s = "-" then some [] else (s.splitOn ",").mapM String.toNat?

def showList (l : List Rat) : String := if l.isEmpty then "-" else ",".intercalate (l.map showRat)

/-- Binary search in a strictly increasing key array. -/
def lookupGo (keys vals : Array Rat) (x : Rat) : Nat → Nat → Nat → Option Rat
  | 0, _, _ => none
  | fuel + 1, lo, hi =>
    if lo < hi then
      let mid := (lo + hi) / 2
      let k := keys.getD mid 0
      if x = k then vals[mid]?
      else if x < k then lookupGo keys vals x fuel lo mid
      else lookupGo keys vals x fuel (mid + 1) hi
    else none

def lookup (keys vals : Array Rat) (x : Rat) : Option Rat := lookupGo keys vals x 64 0 keys.size

/-- `gln` from a finite table (the values the harness computed for exactly the arguments the
    run needs); an argument outside the table is recorded by `tableCovers`. -/
def glnOf (keys vals : Array Rat) : Rat → Rat := fun x => (lookup keys vals x).getD 0

/-- Every argument needed for the requested steps is in the table. -/
def tableCovers (keys vals : Array Rat) (ts : Rat) (t : List Rat) (steps : List Nat) : Bool :=
  let tv : Array Rat := timeAxis t
  steps.all (fun n => (List.range n).all (fun j =>
    (lookup keys vals ((tv.getD n 0 - tv.getD j 0) * (Gen.SEC_IN_HR : Rat) / ts)).isSome))

def parseParams : List String → Option Params
  | [n, h, k, tg, rb, md, cp] => do
      let n ← n.toNat?
      let h ← parseRat? h; let k ← parseRat? k; let tg ← parseRat? tg
      let rb ← parseRat? rb; let md ← parseRat? md; let cp ← parseRat? cp
      pure ⟨h, k, tg, rb, md, cp, n⟩
  | _ => none

/-- Triangular list (row `n` has `n` entries, rows `1..`) → `G n i` (0 outside). -/
def Gtri (flat : Array Rat) : Nat → Nat → Rat :=
  fun n i => if 1 ≤ i ∧ i ≤ n then flat.getD (n * (n - 1) / 2 + (i - 1)) 0 else 0

def showErr (e : PyErr) : String := "raise " ++ e.name

/-- Steps requested (1-based) out of a finished run; `-` = all. -/
def pick (l : List Rat) (steps : List Nat) : List Rat :=
  if steps.isEmpty then l else steps.map (fun n => l.getD (n - 1) 0)

/-- Commands (lists are comma separated, `-` is the empty list, numbers `n/d`):
    * `sup.det N H twoPiK Tg Rb mdot cp q t Gtri`            → `eft;dtb`
    * `sup.hyb N H twoPiK Tg Rb mdot cp ts load hour keys vals` → `n;eft;dtb;max;min`
    * `sup.hr  N H twoPiK Tg Rb mdot cp ts m0 m1 loads keys vals steps`
         → `n;eft@steps;dtb@steps` (only the requested steps are evaluated)
    * `sup.hrin m0 m1 len`                                   → `n_q n_t` sizes handed to `_simulate_detailed`
    * `sup.cost maxAllow minAllow maxEft minEft`              → cost -/
def cmd : List String → Option String
  | ["sup.det", n, h, k, tg, rb, md, cp, q, t, g] => some <|
      match parseParams [n, h, k, tg, rb, md, cp], parseList q, parseList t, parseList g with
      | some P, some q, some t, some g =>
        if !P.finite then "nonfinite" else
        if g.length ≠ q.length * (q.length + 1) / 2 then "bad-arg" else
        (match simulateDetailed q t (Gtri g.toArray) P with
         | .ok (e, d) => showList e ++ ";" ++ showList d
         | .error e => showErr e)
      | _, _, _, _ => "bad-arg"
  | ["sup.hyb", n, h, k, tg, rb, md, cp, ts, load, hour, keys, vals] => some <|
      match parseParams [n, h, k, tg, rb, md, cp], parseRat? ts, parseList load, parseList hour,
            parseList keys, parseList vals with
      | some P, some ts, some load, some hour, some keys, some vals =>
        if !P.finite || ts == 0 then "nonfinite" else
        let ka := keys.toArray; let va := vals.toArray
        let t := hour.drop Gen.simHybridHourDrop
        let nq := (load.drop Gen.simHybridLoadDrop).length
        if t.length ≥ nq && !tableCovers ka va ts t ((List.range nq).map (· + 1)) then "bad-table" else
        (match ghSimulateHybrid load hour (glnOf ka va) ts P with
         | .ok s => s!"{s.hpEft.length};" ++ showList s.hpEft ++ ";" ++ showList s.dTb ++ ";" ++
                    showRat s.maxEft ++ ";" ++ showRat s.minEft
         | .error e => showErr e)
      | _, _, _, _, _, _ => "bad-arg"
  | ["sup.hr", n, h, k, tg, rb, md, cp, ts, m0, m1, loads, keys, vals, steps] => some <|
      match parseParams [n, h, k, tg, rb, md, cp], parseRat? ts, m0.toInt?, m1.toInt?, parseList loads,
            parseList keys, parseList vals, parseNats steps with
      | some P, some ts, some m0, some m1, some loads, some keys, some vals, some steps =>
        if !P.finite || ts == 0 then "nonfinite" else
        let ka := keys.toArray; let va := vals.toArray
        let qt := hourlyInputs loads m0 m1
        if qt.1.isEmpty && qt.2.length ≥ qt.1.length then showErr .valueError else
        if steps.any (fun s => s = 0 ∨ s > qt.1.length) then "bad-arg" else
        if qt.2.length ≥ qt.1.length && !tableCovers ka va ts qt.2 steps then "bad-table" else
        (match ghSimulateHourlyAt steps loads m0 m1 (glnOf ka va) ts P with
         | .ok (e, d) => s!"{qt.1.length};" ++ showList e ++ ";" ++ showList d
         | .error e => showErr e)
      | _, _, _, _, _, _, _, _ => "bad-arg"
  | ["sup.hrin", m0, m1, len] => some <|
      match m0.toInt?, m1.toInt?, len.toNat? with
      | some m0, some m1, some len =>
        let qt := hourlyInputs (List.replicate len 0) m0 m1
        s!"{qt.1.length} {qt.2.length}"
      | _, _, _ => "bad-arg"
  | ["sup.cost", a, b, c, d] => some <|
      match parseRat? a, parseRat? b, parseRat? c, parseRat? d with
      | some a, some b, some c, some d => showRat (Gen.cost a b c d)
      | _, _, _, _ => "bad-arg"
  | _ => none

end GHEVerif.Superpose
