/-
  Model of `shape.point_polygon_check(contour, point, on_edge_tolerance)`
  (ghedesigner/shape.py), the point-in-polygon test behind `feature_recognition.remove_cutout`.

  The decisions of the ray loop (`between`, the half-open skip rule, the cross product, `c == 0`,
  the toggle condition), the return values and the default tolerances are the definitions of
  GHEVerif.Gen.Polygon, regenerated from shape.py on every check.  Hand-written here: the
  traversal of the cyclic edge list `(contour[idx-1], contour[idx])`, the control flow of the two
  loops, and the exact decision of the on-edge comparison
      abs(distance(v1,p) + distance(v2,p) - distance(v1,v2)) < on_edge_tolerance
  (three square roots) by a squaring cascade over `Rat`.

  The function has no error branch for well-formed input (a list of (x, y) pairs and a pair):
  an empty contour runs neither loop and returns -1, a one-vertex contour has the single
  degenerate edge (v, v).  Core Lean only.
-/
import GHEVerif.Model.Py
import GHEVerif.Gen.Polygon

namespace GHEVerif.Polygon
open GHEVerif

abbrev Pt := Rat × Rat
abbrev Edge := Pt × Pt

/-- The radicand of `distance(a, b)`. -/
def sqDist (a b : Pt) : Rat := (a.1 - b.1) * (a.1 - b.1) + (a.2 - b.2) * (a.2 - b.2)

/-- Decides `x < c·√d` for `d ≥ 0` (Lemmas: `ltMulSqrt_iff`): sign split, then compare squares. -/
def ltMulSqrt (x c d : Rat) : Bool :=
  if 0 ≤ c then (if x < 0 then true else decide (x * x < c * c * d))
  else (if 0 ≤ x then false else decide (c * c * d < x * x))

/-- Decides `0 < t ∧ √a + √b − √d < t` for `a, b, d ≥ 0` (Lemmas: `ltSumSqrt_iff`).
    With `K = t² + d − a − b`:  `√a+√b < t+√d  ⇔  2√(ab) < K + 2t√d  ⇔  0 < K + 2t√d ∧ 4ab − K² − 4t²d < 4Kt√d`.
    For squared distances of three points `√a+√b−√d ≥ 0`, so this is `|√a+√b−√d| < t`
    (Lemmas: `onBand_iff`). -/
def ltSumSqrt (a b d t : Rat) : Bool :=
  if t ≤ 0 then false else
  let K := t * t + d - a - b
  ltMulSqrt (-K) (2 * t) d && ltMulSqrt (4 * a * b - K * K - 4 * t * t * d) (4 * K * t) d

/-- `[(prev, v₀), (v₀, v₁), …]` -/
def edgesFrom (prev : Pt) : List Pt → List Edge
  | [] => []
  | v :: vs => (prev, v) :: edgesFrom v vs

/-- The pairs `(contour[idx-1], contour[idx])`, `idx = 0 … n-1` (index −1 is the last vertex). -/
def edges (poly : List Pt) : List Edge :=
  match poly.getLast? with
  | none => []
  | some l => edgesFrom l poly

/-- First loop, one edge: `abs(test_dist - v12_dist) < on_edge_tolerance`. -/
def onBand (tol : Rat) (e : Edge) (p : Pt) : Bool :=
  ltSumSqrt (sqDist e.1 p) (sqDist e.2 p) (sqDist e.1 e.2) tol

/-- `c = (v1x - px) * (v2y - py) - (v2x - px) * (v1y - py)` -/
def cross (e : Edge) (p : Pt) : Rat := Gen.ppcCross e.1.1 e.1.2 e.2.1 e.2.2 p.1 p.2

inductive Step where
  | skip | zero | toggle | keep
  deriving Repr, DecidableEq, Inhabited

/-- Second loop, one edge. -/
def edgeStep (e : Edge) (p : Pt) : Step :=
  if Gen.ppcInRange p.2 e.1.2 e.2.2 then
    if Gen.ppcSkip p.2 e.1.2 e.2.2 then .skip
    else if Gen.ppcIsZero (cross e p) then .zero
    else if Gen.ppcToggle e.1.2 e.2.2 (cross e p) then .toggle
    else .keep
  else .skip

/-- Second loop with the state variable `inside`, then `return -1 if inside else 1`. -/
def rayLoop : List Edge → Pt → Bool → Int
  | [], _, inside => if inside then Gen.ppcRetIfInside else Gen.ppcRetIfNotInside
  | e :: es, p, inside =>
    match edgeStep e p with
    | .skip => rayLoop es p inside
    | .keep => rayLoop es p inside
    | .zero => Gen.ppcRetZero
    | .toggle => rayLoop es p (!inside)

/-- `point_polygon_check(poly, p, tol)`: −1 outside, 0 on edge, 1 inside. -/
def classify (tol : Rat) (poly : List (Rat × Rat)) (p : Rat × Rat) : Int :=
  if (edges poly).any (fun e => onBand tol e p) then Gen.ppcRetBand
  else rayLoop (edges poly) p Gen.ppcInitInside

/-! ### The crossing-number definition (specification side; executable so that the driver can
    print it next to `classify`) -/

/-- Half-open vertical range: `min(v1y, v2y) < py ≤ max(v1y, v2y)` (empty for horizontal edges). -/
def counted (e : Edge) (p : Pt) : Bool :=
  decide ((e.1.2 < p.2 ∧ p.2 ≤ e.2.2) ∨ (e.2.2 < p.2 ∧ p.2 ≤ e.1.2))

/-- Abscissa of the edge's supporting line at height `y` (meaningful for `v1y ≠ v2y`). -/
def xAt (e : Edge) (y : Rat) : Rat := e.1.1 + (y - e.1.2) * (e.2.1 - e.1.1) / (e.2.2 - e.1.2)

/-- The rightward horizontal ray from `p` crosses the edge (half-open rule). -/
def crosses (e : Edge) (p : Pt) : Bool := counted e p && decide (p.1 < xAt e p.2)

/-- `p` lies on the edge at a height where the edge is counted. -/
def hitsLine (e : Edge) (p : Pt) : Bool := counted e p && decide (xAt e p.2 = p.1)

def crossings (poly : List Pt) (p : Pt) : Nat := (edges poly).countP (fun e => crosses e p)

/-- Closed form proved equal to `classify` (Lemmas: `classify_eq_spec`). -/
def spec (tol : Rat) (poly : List Pt) (p : Pt) : Int :=
  if (edges poly).any (fun e => onBand tol e p) then 0
  else if (edges poly).any (fun e => hitsLine e p) then 0
  else if crossings poly p % 2 = 1 then 1 else -1

/-! ### line protocol -/

def parseRats (l : List String) : Option (List Rat) := l.mapM parseRat?

def toPts : List Rat → List Pt
  | x :: y :: r => (x, y) :: toPts r
  | _ => []

/-- `tol n x1 y1 … xn yn m px1 py1 … pxm pym` -/
def parseQuery (args : List String) : Option (Rat × List Pt × List Pt) :=
  match args with
  | t :: n :: rest => do
      let tol ← parseRat? t
      let n ← n.toNat?
      if rest.length < 2 * n + 1 then none else
      let vs ← parseRats (rest.take (2 * n))
      let m ← (rest.drop (2 * n)).head? >>= String.toNat?
      let ptoks := rest.drop (2 * n + 1)
      if ptoks.length ≠ 2 * m then none else
      let ps ← parseRats ptoks
      some (tol, toPts vs, toPts ps)
  | _ => none

def kind (tol : Rat) (poly : List Pt) (p : Pt) : String :=
  if (edges poly).any (fun e => onBand tol e p) then "B"
  else match classify tol poly p with
    | 0 => "Z"
    | 1 => "I"
    | _ => "O"

/-- Commands:
    `ppc  <query>`  → the `m` values of `classify`;
    `ppcs <query>`  → the `m` values of `spec` (crossing-number closed form);
    `ppck <query>`  → branch kinds: B band, Z `c == 0` hit, I inside, O outside. -/
def cmd : List String → Option String
  | "ppc" :: args => some <| match parseQuery args with
      | some (tol, poly, ps) => " ".intercalate (ps.map (fun p => toString (classify tol poly p)))
      | none => "bad-arg"
  | "ppcs" :: args => some <| match parseQuery args with
      | some (tol, poly, ps) => " ".intercalate (ps.map (fun p => toString (spec tol poly p)))
      | none => "bad-arg"
  | "ppck" :: args => some <| match parseQuery args with
      | some (tol, poly, ps) => " ".intercalate (ps.map (fun p => kind tol poly p))
      | none => "bad-arg"
  | _ => none

end GHEVerif.Polygon
