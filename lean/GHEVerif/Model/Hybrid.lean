/-
  Model of `ghedesigner/ground_loads.py : HybridLoad` (single-year path, `len(years) <= 1`):

    split_heat_and_cool, split_loads_by_month      → `splitByMonth`
    process_two_day_loads                          → `twoDayWindows`
    simulate_hourly, perform_current_month_simulation,
    find_peak_durations (with scipy `interp1d(..., fill_value="extrapolate")`) → `peakDuration`,
                                                     `findPeakDurations`
    process_month_loads                            → `replicate`, `ipfFlag`, `emitMonth`,
                                                     `processMonthLoads`

  The calendar (`monthdays`, `first_month_hour`, `last_month_hour`) is NOT re-written here: the
  model calls the functions the translator regenerates from the source (`Gen.monthdays`, …), and
  the literal constants (`1.0e-6`, `12`, `0.1`) come from `Gen/HybridConsts.lean`.

  Numbers are exact rationals (every IEEE double is one).  What raises in Python returns
  `.error …` here.  A non-finite duration (numpy `inf`/`nan` from a zero-width interpolation
  interval; numpy does not raise) is the value `Dur.nan`.
  The short-time g-function enters only through `G k` = its value at a lag of `k` hours.
  Core Lean only.
-/
import GHEVerif.Model.Py
import GHEVerif.Gen.Tables
import GHEVerif.Gen.Funcs
import GHEVerif.Gen.HybridConsts

namespace GHEVerif.Hybrid
open GHEVerif

/-! ### split_heat_and_cool / split_loads_by_month -/

/-- `x / 1000.0 if x >= 0.0 else 0.0` -/
def extraction (x : Rat) : Rat := if x ≥ 0 then x / 1000 else 0
/-- `abs(x) / 1000.0 if x < 0.0 else 0.0` -/
def rejection (x : Rat) : Rat := if x < 0 then ratAbs x / 1000 else 0

/-- Python `max(list)`: `ValueError` on an empty list. -/
def pyMax : List Rat → Py Rat
  | [] => .error .valueError
  | x :: xs => .ok (xs.foldl ratMax x)

/-- Python `list.index(v)` (first occurrence); the list length when absent (not reachable here:
    the value searched is the list's own maximum). -/
def firstIdx (v : Rat) : List Rat → Nat
  | [] => 0
  | x :: xs => if x = v then 0 else firstIdx v xs + 1

/-- Gregorian leap year, as used by `calendar.monthrange`. -/
def isLeapGreg (y : Int) : Bool :=
  decide (Int.fmod y 4 = 0) && (decide (Int.fmod y 100 ≠ 0) || decide (Int.fmod y 400 = 0))

/-- `self.days_in_month` for `years = [y]`: `[0] + [monthrange(y, i)[1] for i in 1..12]`. -/
def calDays (y : Int) : List Int :=
  [0, 31, if isLeapGreg y then 29 else 28, 31, 30, 31, 30, 31, 31, 30, 31, 30, 31]

/-- Monthly statistics of `split_loads_by_month` (index 0 of the Python lists is a NULL slot). -/
structure MonthStat where
  cl : Rat      -- monthly_cl       total rejection, kWh
  hl : Rat      -- monthly_hl       total extraction, kWh
  pcl : Rat     -- monthly_peak_cl  kW
  phl : Rat     -- monthly_peak_hl  kW
  avgcl : Rat   -- monthly_avg_cl
  avghl : Rat   -- monthly_avg_hl
  dayc : Int    -- monthly_peak_cl_day (0-based day of the month)
  dayh : Int    -- monthly_peak_hl_day
  deriving Repr, Inhabited, DecidableEq

def MonthStat.null : MonthStat := ⟨0, 0, 0, 0, 0, 0, 0, 0⟩

/-- Python slice `l[prev : prev + n]` (silently truncated). -/
def pySlice (l : List Rat) (prev n : Nat) : List Rat := (l.drop prev).take n

/-- One month of `split_loads_by_month` from the month's two slices. -/
def statOf (rej ext : List Rat) : Py MonthStat := do
  let cl := rej.sum
  let hl := ext.sum
  let pcl ← pyMax rej
  let phl ← pyMax ext
  let avgcl ← pyDiv cl (rej.length : Rat)
  let avghl ← pyDiv hl (ext.length : Rat)
  pure { cl := cl, hl := hl, pcl := pcl, phl := phl, avgcl := avgcl, avghl := avghl,
         dayc := ((firstIdx pcl rej / Gen.HRS_IN_DAY.toNat : Nat) : Int),
         dayh := ((firstIdx phl ext / Gen.HRS_IN_DAY.toNat : Nat) : Int) }

/-- The month loop: `prev` = `hours_in_previous_months`, `days` = remaining `days_in_month[i:]`. -/
def splitAux (rej ext : List Rat) : Nat → List Int → Py (List MonthStat)
  | _, [] => pure []
  | prev, d :: ds => do
      let him := (Gen.HRS_IN_DAY * d).toNat
      let s ← statOf (pySlice rej prev him) (pySlice ext prev him)
      let rest ← splitAux rej ext (prev + him) ds
      pure (s :: rest)

/-- `split_loads_by_month` on the raw hourly profile (W, extraction positive): 13 entries,
    index 0 = NULL. -/
def splitByMonth (year : Int) (raw : List Rat) : Py (List MonthStat) := do
  let ms ← splitAux (raw.map rejection) (raw.map extraction) 0 (calDays year).tail
  pure (MonthStat.null :: ms)

/-! ### process_two_day_loads -/

/-- `l[len(l) - 24:] + l` -/
def withLastDay (l : List Rat) : List Rat := l.drop (l.length - Gen.HRS_IN_DAY.toNat) ++ l

/-- `pref[start : start + 2*24]` with `start = prevHours + (day - 1)*24` (`prevHours` counts the
    24 prepended hours). -/
def twoDayWindow (pref : List Rat) (prevHours : Int) (day : Int) : List Rat :=
  let start := prevHours + (day - 1) * Gen.HRS_IN_DAY
  pySlice pref start.toNat (Gen.twoDayFactor * Gen.HRS_IN_DAY).toNat

/-- The loop of `process_two_day_loads`: for each month the (rejection, extraction) windows. -/
def windowsAux (prej pext : List Rat) : Int → List Int → List MonthStat → List (List Rat × List Rat)
  | prev, d :: ds, s :: ss =>
      (twoDayWindow prej prev s.dayc, twoDayWindow pext prev s.dayh)
        :: windowsAux prej pext (prev + Gen.HRS_IN_DAY * d) ds ss
  | _, _, _ => []

def twoDayWindows (year : Int) (raw : List Rat) (stats : List MonthStat) : List (List Rat × List Rat) :=
  windowsAux (withLastDay (raw.map rejection)) (withLastDay (raw.map extraction))
    Gen.HRS_IN_DAY (calDays year).tail stats.tail

/-! ### simulate_hourly / perform_current_month_simulation / find_peak_durations -/

/-- A duration as the implementation holds it: a finite float, or non-finite (`nan`/`inf`). -/
inductive Dur where
  | val (d : Rat)
  | nan
  deriving Repr, Inhabited, DecidableEq

/-- `q[1:] - q[:-1]` -/
def qdt (q : List Rat) : List Rat := List.zipWith (fun a b => b - a) q q.tail

/-- `simulate_hourly` on the hour grid 0,1,…: entry `n ≥ 1` is
    `Σ_{j<n} q_dt[j]/two_pi_k · G(n-j) + q[n]·R_b`; entry 0 is 0. -/
def responseFrom (G : Nat → Rat) (twoPiK rb : Rat) (d q : List Rat) (n : Nat) : Rat :=
  ((List.range n).map (fun j => d.getD j 0 / twoPiK * G (n - j))).sum + q.getD n 0 * rb

def responseAt (G : Nat → Rat) (twoPiK rb : Rat) (q : List Rat) (n : Nat) : Rat :=
  responseFrom G twoPiK rb (qdt q) q n

def response (G : Nat → Rat) (twoPiK rb : Rat) (q : List Rat) : List Rat :=
  let d := qdt q
  0 :: (List.range (q.length - 1)).map (fun k => responseFrom G twoPiK rb d q (k + 1))

/-- Stable insertion into a list sorted by the first component (numpy mergesort argsort). -/
def insSorted (p : Rat × Rat) : List (Rat × Rat) → List (Rat × Rat)
  | [] => [p]
  | a :: as => if p.1 < a.1 then p :: a :: as else a :: insSorted p as

def stableSort (l : List (Rat × Rat)) : List (Rat × Rat) :=
  l.foldl (fun acc p => insSorted p acc) []

/-- scipy `interp1d(xs, ys, fill_value="extrapolate")(x)` (linear, `assume_sorted=False`):
    sort by `x`, `searchsorted(side="left")`, clip to `[1, n-1]`, straight line through the two
    neighbours; a zero-width interval gives a non-finite value. -/
def interpExtrap (xs ys : List Rat) (x : Rat) : Dur :=
  let pts := stableSort (xs.zip ys)
  let n := pts.length
  let cnt := (pts.filter (fun p => p.1 < x)).length
  let idx := max 1 (min cnt (n - 1))
  let lo := pts.getD (idx - 1) (0, 0)
  let hi := pts.getD idx (0, 0)
  if hi.1 = lo.1 then .nan
  else .val ((hi.2 - lo.2) / (hi.1 - lo.1) * (x - lo.1) + lo.2)

def hourGrid (n : Nat) : List Rat := (List.range n).map (fun (k : Nat) => (k : Rat))

/-- `q_peak = [0.0] + [peak - avg] * 48` -/
def qPeak (peak avg : Rat) : List Rat :=
  0 :: List.replicate (Gen.twoDayFactor * Gen.HRS_IN_DAY).toNat (peak - avg)

/-- `q_nominal = [0.0] + [(td[i] - avg) / peak * td[i] for i in 1..48]`; `td` is the window with a
    leading `0.0`.  `IndexError` when the window is short, `ZeroDivisionError` when `peak == 0`. -/
def qNominal (td : List Rat) (peak avg : Rat) : Py (List Rat) := do
  let body ← (List.range (Gen.twoDayFactor * Gen.HRS_IN_DAY).toNat).mapM (fun (k : Nat) => do
      let v ← pyIndex td ((k : Int) + 1)
      let r ← pyDiv (v - avg) peak
      pure (r * v))
  pure (0 :: body)

/-- `perform_current_month_simulation`: the peak duration. -/
def peakDuration (G : Nat → Rat) (twoPiK rb : Rat) (td : List Rat) (peak avg : Rat) : Py Dur := do
  let qp := qPeak peak avg
  let qn ← qNominal td peak avg
  let tpk := response G twoPiK rb qp
  let tnm := response G twoPiK rb qn
  let m ← pyMax tnm
  if m > 0 then pure (interpExtrap tpk (hourGrid tpk.length) m)
  else pure (.val Gen.hybridDelta)

/-- One direction of `find_peak_durations`: the "two-day maximum replaces the monthly peak
    unless within `tol`" rule, then the simulation or the placeholder. -/
def durationOf (G : Nat → Rat) (twoPiK rb : Rat) (window : List Rat) (peak avg : Rat) : Py Dur := do
  let td := (0 : Rat) :: window
  let m ← pyMax td
  let diff := peak - m
  let cur := if ratAbs diff < Gen.peakTol then peak else m
  if cur ≠ 0 then peakDuration G twoPiK rb td cur avg
  else pure (.val Gen.hybridDelta)

/-- The monthly record `process_month_loads` reads. -/
structure MonthRec where
  cl : Rat
  hl : Rat
  pcl : Rat
  phl : Rat
  dayc : Int
  dayh : Int
  dcl : Rat     -- monthly_peak_cl_duration, h
  dhl : Rat     -- monthly_peak_hl_duration, h
  deriving Repr, Inhabited, DecidableEq

def MonthRec.null : MonthRec := ⟨0, 0, 0, 0, 0, 0, 0, 0⟩

def findPeakDurations (G : Nat → Rat) (twoPiK rb : Rat) :
    List MonthStat → List (List Rat × List Rat) → Py (List (Dur × Dur))
  | s :: ss, w :: ws => do
      let dc ← durationOf G twoPiK rb w.1 s.pcl s.avgcl
      let dh ← durationOf G twoPiK rb w.2 s.phl s.avghl
      let rest ← findPeakDurations G twoPiK rb ss ws
      pure ((dc, dh) :: rest)
  | _, _ => pure []

/-! ### process_month_loads -/

/-- `mi = i % 12; if mi == 0: mi = 12` -/
def monthIndex (i : Int) : Int :=
  let mi := Int.fmod i Gen.monthsInYear
  if mi = 0 then Gen.monthsInYear else mi

/-- One step of the replication loop: months beyond 12 append a copy of month `mi`. -/
def replicateStep (acc : List MonthRec) (i : Int) : Py (List MonthRec) :=
  if i > Gen.monthsInYear then
    pyIndex acc (monthIndex i) >>= fun r => pure (acc ++ [r])
  else pure acc

def replicate (base : List MonthRec) (start end_ : Int) : Py (List MonthRec) :=
  List.foldlM replicateStep base (pyRange start (end_ + 1))

/-- `ipf[i]` for `start ≤ i ≤ end`. -/
def ipfFlag (start end_ i : Int) : Bool :=
  decide (i < start + Gen.peakRetainStart) || decide (i > end_ - Gen.peakRetainEnd)

/-- `first_hour_*_peak`, `last_hour_*_peak` with the two `< 0.0 → 1.0e-6` clamps. -/
def peakHours (fmh : Int) (day : Int) (dur : Rat) : Rat × Rat :=
  let f0 : Rat := (fmh : Rat) + (day : Rat) * (Gen.HRS_IN_DAY : Rat) + (Gen.noonOffset : Rat) - dur / 2
  let f := if f0 < 0 then Gen.hybridDelta else f0
  let l0 := f + dur
  let l := if l0 < 0 then Gen.hybridDelta else l0
  (f, l)

/-- The `(load, hour)` entries one month appends, from its rate and peak hours. -/
def monthSegments (r : MonthRec) (ipf : Bool) (rate : Rat) (fhc lhc fhh lhh : Rat) (lmh : Rat) :
    List (Rat × Rat) :=
  let diff : Int := if ipf then r.dayc - r.dayh else 0
  let cool : List (Rat × Rat) := if r.pcl > 0 ∧ ipf then [(rate, fhc), (r.pcl, lhc)] else []
  let heat : List (Rat × Rat) := if r.phl > 0 ∧ ipf then [(rate, fhh), (-r.phl, lhh)] else []
  if diff < 0 then cool ++ heat ++ [(rate, lmh)]
  else if diff > 0 then heat ++ cool ++ [(rate, lmh)]
  else if ipf then
    let c : List (Rat × Rat) :=
      if r.pcl > 0 then [(rate, fhc - r.dcl / 2), (r.pcl, lhc - r.dcl / 2)] else []
    let h : List (Rat × Rat) :=
      if r.phl > 0 then
        (if ¬ r.pcl > 0 then [(rate, fhh + r.dhl / 2)] else []) ++ [(-r.phl, lhh + r.dhl / 2)]
      else []
    c ++ h ++ [(rate, lmh)]
  else [(rate, lmh)]

/-- The rate of the month's average segments (`month_rate`).  In a retained month the averaging
    period is the month minus the durations of the pulses that are emitted (non-zero monthly peak). -/
def monthRate (r : MonthRec) (ipf : Bool) (hoursInMonth : Int) : Py Rat :=
  if ipf then
    pyDiv (r.cl - r.hl - r.pcl * r.dcl + r.phl * r.dhl)
      ((hoursInMonth : Rat) - (if r.pcl > 0 then r.dcl else 0) - (if r.phl > 0 then r.dhl else 0))
  else
    pyDiv (r.cl - r.hl) (hoursInMonth : Rat)

/-- Everything month `i` contributes to `self.load` / `self.hour`. -/
def emitMonth (year : Int) (r : MonthRec) (ipf : Bool) (i : Int) : Py (List (Rat × Rat)) := do
  let md ← Gen.monthdays i year
  let rate ← monthRate r ipf (md * Gen.HRS_IN_DAY)
  let fmh ← Gen.firstMonthHour i [year]
  let lmh ← Gen.lastMonthHour i [year]
  let (fhh, lhh) := peakHours fmh r.dayh r.dhl
  let (fhc, lhc) := peakHours fmh r.dayc r.dcl
  pure (monthSegments r ipf rate fhc lhc fhh lhh (lmh : Rat))

/-- `process_month_loads`: the whole `(load, hour)` sequence, the two initial entries included. -/
def processMonthLoads (year : Int) (base : List MonthRec) (start end_ : Int) : Py (List (Rat × Rat)) := do
  let fm ← Gen.firstMonthHour start [year]
  let ext ← replicate base start end_
  List.foldlM (fun acc i => do
      let r ← pyIndex ext i
      let segs ← emitMonth year r (ipfFlag start end_ i) i
      pure (acc ++ segs))
    [((0 : Rat), (0 : Rat)), ((0 : Rat), (((fm - 1 : Int)) : Rat))] (pyRange start (end_ + 1))

/-! ### the whole constructor -/

inductive Monthly where
  | ok (recs : List MonthRec)            -- 13 entries, index 0 = NULL
  | nanDuration (month : Nat) (stats : List MonthStat) (durs : List (Dur × Dur))

def toRecs : List MonthStat → List (Dur × Dur) → Option (List MonthRec)
  | s :: ss, (Dur.val a, Dur.val b) :: ds =>
      (toRecs ss ds).map (fun rest => ⟨s.cl, s.hl, s.pcl, s.phl, s.dayc, s.dayh, a, b⟩ :: rest)
  | [], [] => some []
  | _, _ => none

/-- Steps 1–3 of `HybridLoad.__init__`: statistics, windows, durations. -/
def monthlyStage (year : Int) (G : Nat → Rat) (twoPiK rb : Rat) (raw : List Rat) :
    Py (List MonthStat × List (List Rat × List Rat) × List (Dur × Dur)) := do
  let stats ← splitByMonth year raw
  let wins := twoDayWindows year raw stats
  let durs ← findPeakDurations G twoPiK rb stats.tail wins
  pure (stats, wins, durs)

/-! ### line protocol -/

def fixScale : Rat := (2 : Rat) ^ 80
/-- Fixed-point output: `round(q · 2^80)`; ample for a 1e-9 comparison. -/
def showFix (q : Rat) : String := toString ((q * fixScale + 1 / 2).floor)

def parseCsv (s : String) : Option (List Rat) := (s.splitOn ",").mapM parseRat?

def showDur : Dur → String
  | .val d => showFix d
  | .nan => "nan"

def showStat (s : MonthStat) (d : Dur × Dur) : String :=
  s!"{showFix s.cl} {showFix s.hl} {showFix s.pcl} {showFix s.phl} {showFix s.avgcl} {showFix s.avghl} {s.dayc} {s.dayh} {showDur d.1} {showDur d.2}"

def showSeq (l : List (Rat × Rat)) : String :=
  " ".intercalate (l.map (fun p => showFix p.1 ++ " " ++ showFix p.2))

def showPy {α} (f : α → String) : Py α → String
  | .ok v => f v
  | .error e => "raise " ++ e.name

def gOfList (g : List Rat) : Nat → Rat := fun k => g.getD (k - 1) 0

/-- 8 numbers per month → records (index 0 NULL is added here). -/
def recsOfFlat : List Rat → Option (List MonthRec)
  | [] => some []
  | cl :: hl :: pcl :: phl :: dayc :: dayh :: dcl :: dhl :: rest =>
      if dayc.den = 1 ∧ dayh.den = 1 then
        (recsOfFlat rest).map (fun t => ⟨cl, hl, pcl, phl, dayc.num, dayh.num, dcl, dhl⟩ :: t)
      else none
  | _ => none

/-- Commands
    * `hyb.cal <month> <year>` → `monthdays first_month_hour last_month_hour`
    * `hyb.seq <year> <start> <end> <csv of 8·n numbers>` → `process_month_loads` on given monthly
      arrays (`n` months 1..n; the NULL slot is added)
    * `hyb.full <year> <start> <ends csv> <twoPiK> <Rb> <G(1..48) csv> <hourly csv>` →
      `M <12 × 10 fields> | S <seq for end 1> | S <seq …>`
    * `hyb.win <year> <hourly csv>` → the 12 × 2 two-day windows
    * `hyb.dur <twoPiK> <Rb> <G csv> <peak> <avg> <window csv>` → `durationOf`, plus both responses -/
def cmd : List String → Option String
  | ["hyb.cal", m, y] => some <| match m.toInt?, y.toInt? with
      | some m, some y =>
          showPy (fun (v : Int × Int × Int) => s!"{v.1} {v.2.1} {v.2.2}") (do
            let a ← Gen.monthdays m y
            let b ← Gen.firstMonthHour m [y]
            let c ← Gen.lastMonthHour m [y]
            pure (a, b, c))
      | _, _ => "bad-arg"
  | ["hyb.seq", y, s, e, flat] => some <| match y.toInt?, s.toInt?, e.toInt?, (parseCsv flat).bind recsOfFlat with
      | some y, some s, some e, some recs =>
          if s < 1 then "unsupported start<1" else
          showPy showSeq (processMonthLoads y (MonthRec.null :: recs) s e)
      | _, _, _, _ => "bad-arg"
  | ["hyb.full", y, s, ends, tpk, rb, g, hourly] => some <|
      match y.toInt?, s.toInt?, (ends.splitOn ",").mapM String.toInt?, parseRat? tpk, parseRat? rb, parseCsv g, parseCsv hourly with
      | some y, some s, some ends, some tpk, some rb, some g, some raw =>
          if s < 1 then "unsupported start<1" else
          match monthlyStage y (gOfList g) tpk rb raw with
          | .error e => "raise " ++ e.name
          | .ok (stats, _, durs) =>
              let head := "M " ++ " ".intercalate (List.zipWith showStat stats.tail durs)
              match toRecs stats.tail durs with
              | none => head ++ " | nan-duration"
              | some recs =>
                  head ++ String.join (ends.map (fun e =>
                    " | S " ++ showPy showSeq (processMonthLoads y (MonthRec.null :: recs) s e)))
      | _, _, _, _, _, _, _ => "bad-arg"
  | ["hyb.win", y, hourly] => some <| match y.toInt?, parseCsv hourly with
      | some y, some raw =>
          (match splitByMonth y raw with
           | .error e => "raise " ++ e.name
           | .ok stats =>
              " | ".intercalate ((twoDayWindows y raw stats).map (fun w =>
                " ".intercalate (w.1.map showFix) ++ " ; " ++ " ".intercalate (w.2.map showFix))))
      | _, _ => "bad-arg"
  | ["hyb.dur", tpk, rb, g, peak, avg, win] => some <|
      match parseRat? tpk, parseRat? rb, parseCsv g, parseRat? peak, parseRat? avg, parseCsv win with
      | some tpk, some rb, some g, some peak, some avg, some w =>
          let G := gOfList g
          let d := showPy showDur (durationOf G tpk rb w peak avg)
          let td := (0 : Rat) :: w
          let m := match pyMax td with | .ok m => m | .error _ => 0
          let cur := if ratAbs (peak - m) < Gen.peakTol then peak else m
          let pk := response G tpk rb (qPeak cur avg)
          let nm := match qNominal td cur avg with
            | .ok qn => " ".intercalate ((response G tpk rb qn).map showFix)
            | .error e => "raise " ++ e.name
          d ++ " | " ++ " ".intercalate (pk.map showFix) ++ " | " ++ nm
      | _, _, _, _, _, _ => "bad-arg"
  | _ => none

end GHEVerif.Hybrid
