/-
  Model of `OutputManager.ghe_time_convert` and `OutputManager.hours_to_month`
  (ghedesigner/output.py).  The month tables come from GHEVerif.Gen.Tables, which is
  regenerated from output.py on every check.  Core Lean only.
-/
import GHEVerif.Model.Py
import GHEVerif.Gen.Tables

namespace GHEVerif.TimeConv
open GHEVerif

/-- The `for idx … if year_hour_sum + hours_in_year[idx] - 1 >= hours: month = idx; break
    else: year_hour_sum += hours_in_year[idx]` loop.  Returns 0 when the loop runs off the
    end (`month_in_year` keeps its initial value), exactly as the code does. -/
def gtcFind (hours : Int) : Nat → Int → List Int → Nat
  | _, _, [] => 0
  | idx, s, h :: rest => if s + h - 1 ≥ hours then idx else gtcFind hours (idx + 1) (s + h) rest

/-- `ghe_time_convert(hours)` for an arbitrary month table (hours per month). -/
def gheTimeConvertT (hiy : List Int) (hrsInDay : Int) (hours : Int) : Int × Int × Int :=
  let m := gtcFind hours 0 0 hiy
  let hl := hours - (hiy.take m).sum
  ((m : Int) + 1, Int.fdiv hl hrsInDay + 1, Int.fmod hl hrsInDay + 1)

def hoursInYearGTC : List Int := Gen.daysInYearGTC.map (Gen.HRS_IN_DAY * ·)
def hoursInYearHTM : List Int := Gen.daysInYearHTM.map (Gen.HRS_IN_DAY * ·)

def gheTimeConvert (hours : Int) : Int × Int × Int :=
  gheTimeConvertT hoursInYearGTC Gen.HRS_IN_DAY hours

/-- The `for idx … if sum(hours_in_year[0:idx+1]) >= hours_left: month = idx; break` loop. -/
def htmFind (r : Rat) : Nat → Rat → List Int → Nat
  | _, _, [] => 0
  | idx, s, h :: rest => if s + (h : Rat) ≥ r then idx else htmFind r (idx + 1) (s + (h : Rat)) rest

def sumR (l : List Int) : Rat := (l.map (fun (x : Int) => (x : Rat))).sum

/-- `hours_to_month(hours)` for an arbitrary month table.  `hiy[month]` cannot fail: the
    found index is always inside the table (0 when nothing is found). An empty table makes the
    code raise ZeroDivisionError at `hours / sum(...)`. -/
def hoursToMonthT (hiy : List Int) (hours : Rat) : Py Rat :=
  let total := sumR hiy
  if total = 0 then .error .zeroDiv else
  let nYears : Int := (hours / total).floor
  let r := hours - (nYears : Rat) * total
  let m := htmFind r 0 0 hiy
  let hl := r - sumR (hiy.take m)
  match hiy[m]? with
  | none => .error .indexError
  | some t => if t = 0 then .error .zeroDiv else
      .ok ((nYears : Rat) * (hiy.length : Rat) + (m : Rat) + hl / (t : Rat))

def hoursToMonth (hours : Rat) : Py Rat := hoursToMonthT hoursInYearHTM hours

/-- `OutputManager.get_hourly_loading_data`: `for hour, hour_load in enumerate(hourly_loadings)`:
    one row `[month, day_in_month, hour_in_day, hour, hour_load]` per input load, in order (the loop
    and the row expression are pinned from output.py in Gen/Report.lean). -/
def loadingRows (loads : List Rat) : List (Int × Int × Int × Nat × Rat) :=
  loads.zipIdx.map (fun qi => let t := gheTimeConvert (qi.2 : Int); (t.1, t.2.1, t.2.2, qi.2, qi.1))

/-- `OutputManager.get_borehole_location_data`: one row `[x, y]` per selected coordinate, in order. -/
def boreRows (coords : List (Rat × Rat)) : List (List Rat) := coords.map (fun c => [c.1, c.2])

/-- Line-protocol commands:  `gtc <int>`,  `htm <rat>`  and  `loadrows <rat>…`. -/
def cmd : List String → Option String
  | ["gtc", h] => some <| match h.toInt? with
      | some k => let (m, d, hr) := gheTimeConvert k; s!"{m} {d} {hr}"
      | none => "bad-arg"
  | ["htm", h] => some <| match parseRat? h with
      | some q => (match hoursToMonth q with | .ok v => showRat v | .error e => "raise " ++ e.name)
      | none => "bad-arg"
  | "loadrows" :: rest => some <| match rest.mapM parseRat? with
      | some qs => " ; ".intercalate ((loadingRows qs).map (fun r => s!"{r.1} {r.2.1} {r.2.2.1} {r.2.2.2.1} {showRat r.2.2.2.2}"))
      | none => "bad-arg"
  | _ => none

end GHEVerif.TimeConv
