/-
  Model of the command-line entry point (C18): `manager.run_manager_from_cli` under click's
  standalone dispatch, on top of the validation / worker model of Model/Config.lean.

  `Gen.cliPaths` (regenerated from manager.py on every check) lists every path through the
  callback: the guards that hold on it in evaluation order, what it prints, and the argument of
  the `exit(...)` that ends it.  A `return` or falling off the end appears there as
  `<return:…>` / `<fall-through>`; click discards a callback's return value, so those paths
  exit 0 — that is how the pre-repair behaviour (finding F2) would show up here.

  Trusted, checked by the correspondence runs: click's dispatch (`Parse`): usage errors exit 2,
  `--help` / `--version` exit 0 before the callback, `exit(n)` in the callback ends the process
  with status n, an uncaught exception ends it with status 1.
  Core Lean only.
-/
import GHEVerif.Model.Config

namespace GHEVerif.Cli
open GHEVerif GHEVerif.Gen GHEVerif.Config

/-- What click made of the command line. -/
inductive Parse where
  | usageError                       -- unknown option, missing / non-existent INPUT_PATH, surplus argument
  | eager (what : String)            -- `--help`, `--version`: print and exit before the callback
  | call (validateOnly : Bool) (convert : Option String) (outputDir : Bool)
  deriving Repr, Inhabited

/-- What the callback finds outside itself. -/
structure World where
  file : Option Json                 -- the input file as JSON; `none`: it is not JSON
  raisesAt : String → Bool           -- does this step of the design run raise
  idfRaises : Bool                   -- does `write_idf` raise

/-- `loads(path.read_text())` then the function: not-JSON raises (JSONDecodeError is a ValueError). -/
def onFile {α} (w : World) (f : Json → Py α) : Py α :=
  match w.file with
  | none => .error .valueError
  | some j => f j

def validateFile (w : World) : Py Nat := onFile w validateInputFile

def workerFile (w : World) : Py (Int × WState) := onFile w (worker exactArith w.raisesAt)

/-- Python truthiness of the `--convert` value. -/
def convertTruthy : Option String → Bool
  | none => false
  | some s => s ≠ ""

/-- A guard of `Gen.cliPaths` (a condition of the callback as source text). -/
def evalGuard (vo : Bool) (cv : Option String) (od : Bool) (w : World) (g : String) : Py Bool :=
  if g = "validate_only" then .ok vo
  else if g = "validate_input_file(input_path) != 0" then
    match validateFile w with
    | .error e => .error e
    | .ok n => .ok (n ≠ 0)
  else if g = "convert" then .ok (convertTruthy cv)
  else if g = "convert == 'IDF'" then .ok (cv = some "IDF")
  else if g = "raises:write_idf(input_path)" then .ok w.idfRaises
  else if g = "output_directory is None" then .ok (!od)
  else .error .other

/-- Do all guards of a path hold?  Evaluated in order, stopping at the first that does not
    (a guard that raises is only reached when the earlier ones hold). -/
def guardsHold (ev : String → Py Bool) : List (String × Bool) → Py Bool
  | [] => .ok true
  | (g, pol) :: rest =>
    match ev g with
    | .error e => .error e
    | .ok b => if b = pol then guardsHold ev rest else .ok false

def pickPath (ev : String → Py Bool) : List CliPath → Py (Option CliPath)
  | [] => .ok none
  | p :: rest =>
    match guardsHold ev p.guard with
    | .error e => .error e
    | .ok true => .ok (some p)
    | .ok false => pickPath ev rest

/-- Result of one invocation. -/
structure Outcome where
  exit : Int
  outputsWritten : Bool              -- `write_output_files` ran to completion
  effects : List String              -- the messages of the path taken
  deriving Repr, Inhabited

def isWorkerCall (e : String) : Bool := e = "_run_manager_from_cli_worker(input_path, output_path)"

/-- Exit status for the argument of `exit(...)`. -/
def exitOf (w : World) (p : CliPath) : Outcome :=
  if p.exit = "0" then ⟨0, false, p.effects⟩
  else if p.exit = "1" then ⟨1, false, p.effects⟩
  else if isWorkerCall p.exit then
    match workerFile w with
    | .error _ => ⟨1, false, p.effects⟩                      -- uncaught exception
    | .ok (rc, s) => ⟨rc, s.ran.contains "write_output_files", p.effects⟩
  else ⟨0, false, p.effects⟩                                  -- `<return:…>` / `<fall-through>`: click exits 0

/-- The callback. -/
def callback (vo : Bool) (cv : Option String) (od : Bool) (w : World) : Outcome :=
  match pickPath (evalGuard vo cv od w) Gen.cliPaths with
  | .error _ => ⟨1, false, []⟩                               -- uncaught exception in a condition
  | .ok none => ⟨0, false, []⟩                               -- (no path: cannot happen, the paths are exhaustive)
  | .ok (some p) => exitOf w p

/-- The process. -/
def run (inv : Parse) (w : World) : Outcome :=
  match inv with
  | .usageError => ⟨2, false, ["usage"]⟩
  | .eager what => ⟨0, false, [what]⟩
  | .call vo cv od => callback vo cv od w

def processExit (inv : Parse) (w : World) : Int := (run inv w).exit

/-- Line protocol:
      cli usage | cli eager <what> |
      cli call <vo t/f> <convert: z | s text> <outdir t/f> <idfRaises t/f> <raising steps, comma separated or -> <file tokens | ->
    → `exit <code> <outputs t/f> <effect>*` -/
def cmd : List String → Option String
  | ["cli", "usage"] => some (let o := run .usageError ⟨none, fun _ => false, false⟩; s!"exit {o.exit} f usage")
  | ["cli", "eager", what] => some (let o := run (.eager what) ⟨none, fun _ => false, false⟩; s!"exit {o.exit} f eager")
  | "cli" :: "call" :: vo :: rest => some <|
      let (cv, rest) : Option String × List String := match rest with
        | "z" :: r => (none, r)
        | "s" :: s :: r => (some (unescStr s), r)
        | r => (none, r)
      match rest with
      | od :: idf :: raising :: fileToks =>
          let steps := if raising = "-" then [] else raising.splitOn ","
          let file : Option (Option Json) :=
            if fileToks = ["-"] then some none
            else match parseJson fileToks with
              | some (j, []) => some (some j)
              | _ => none
          match file with
          | none => "bad-arg"
          | some f =>
            let o := run (.call (vo = "t") cv (od = "t")) ⟨f, fun s => steps.contains s, idf = "t"⟩
            " ".intercalate (["exit", toString o.exit, if o.outputsWritten then "t" else "f"] ++ o.effects.map escStr)
      | _ => "bad-arg"
  | _ => none

end GHEVerif.Cli
