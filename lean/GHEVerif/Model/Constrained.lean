/-
  Model of the polygon-constrained candidate fields (property C04):

    feature_recognition.remove_cutout / determine_largest_rectangle,
    domains.polygonal_land_constraint / reorder_domain,
    geometry.GeometricConstraintsBiRectangleConstrained.__init__  (the flat-list normalisation),
    design.DesignBiRectangleConstrained.__init__                  (= constructor ∘ polygonal_land_constraint).

  Built ON the two finished models: `Polygon.classify` (shape.point_polygon_check, exact over
  `Rat`) and `Domains.biRectangleNested R` (domains.bi_rectangle_nested with the rounding operator
  `R`; `R = fl64` is what CPython computes, `R = id` exact).  The keep conditions of
  `remove_cutout`, its `inside`/`on_edge` values, the `keep_contour=[True, False]` default and the
  `remove_inside=` / `keep_contour[i]` arguments of the two calls are `GHEVerif.Gen.*`,
  regenerated from the source on every check (translate/gen_constrained.py); everything else of
  the five functions is pinned there by AST.

  What the code DOES, error branches included:
  * a boundary argument is a Python list that is either one polygon `[[x, y], …]` or a list of
    polygons; `remove_cutout` tells them apart with `isinstance(boundaries[0][0], (int, float))`
    (IndexError on `[]` and on `[[], …]`), `determine_largest_rectangle` iterates
    `for x, y in bf_outline` and raises TypeError on the one-polygon form;
  * the bounding rectangle is taken from the MAXIMA only (`length = max(x)`, `width = max(y)`):
    the grid starts at the origin whatever the minima are;
  * with no vertex at all the extrema stay ±inf, `max(x) = +inf`, and `bi_rectangle_nested`
    raises ZeroDivisionError (a zero spacing) or OverflowError (`ceil(inf)`; `.other` here);
  * fields that lose all their boreholes are dropped (`continue`), and `reorder_domain` then zips
    the shortened field list with the ORIGINAL descriptor list: the k-th surviving field is paired
    with the k-th original descriptor (descriptors are mis-aligned and truncated as soon as one
    field was dropped) — modelled as is;
  * `reorder_domain` = `zip(*sorted(zip(domain, descriptors), key=len∘fst))`, unpacked into two
    names: a domain that lost ALL its fields raises ValueError (nothing to unpack);
  * `sorted` is stable: `stableSort` is a structural insertion sort (Lemmas/Constrained.lean:
    permutation, sorted by key, equal keys keep their order — the three facts that determine the
    result of a stable sort).

  Descriptors are abstract (`δ`); the top-level functions use the position of the field in the
  un-cut list (`List.range`), which the harness maps to the real descriptor strings.
  Core Lean only.
-/
import GHEVerif.Model.Polygon
import GHEVerif.Model.Domains
import GHEVerif.Gen.Constrained

namespace GHEVerif.Constrained
open GHEVerif GHEVerif.Coords GHEVerif.Domains

abbrev Poly := List Point

/-- A Python boundary argument: one polygon (flat form) or a list of polygons.
    `single []` and `many []` are the same Python value `[]` and are treated alike everywhere. -/
inductive Bounds where
  | single (p : Poly)
  | many (ps : List Poly)
  deriving Repr, DecidableEq, Inhabited

/-- `len(boundaries)`. -/
def Bounds.len : Bounds → Nat
  | .single p => p.length
  | .many ps => ps.length

/-! ### feature_recognition.remove_cutout -/

/-- `if isinstance(boundaries[0][0], (int, float)): boundaries = [boundaries]`. -/
def wrapBounds : Bounds → Py (List Poly)
  | .single [] => .error .indexError
  | .single (v :: vs) => .ok [v :: vs]
  | .many [] => .error .indexError
  | .many ([] :: _) => .error .indexError
  | .many ((v :: vs) :: rest) => .ok ((v :: vs) :: rest)

/-- `boundary_results` of one coordinate. -/
def results (tol : Rat) (polys : List Poly) (p : Point) : List Int :=
  polys.map (fun b => Polygon.classify tol b p)

/-- The decision of the loop body of `remove_cutout` for one coordinate. -/
def keepPoint (removeInside keepContour : Bool) (tol : Rat) (polys : List Poly) (p : Point) : Bool :=
  let rs := results tol polys p
  if removeInside then Gen.rcKeepIfRemoveInside (rs.contains Gen.rcInside) (rs.contains Gen.rcOnEdge) keepContour
  else Gen.rcKeepIfKeepInside (rs.contains Gen.rcInside) (rs.contains Gen.rcOnEdge) keepContour

/-- `remove_cutout(coordinates, boundaries, remove_inside, keep_contour, on_edge_tolerance)`. -/
def removeCutout (coords : Field) (b : Bounds) (removeInside keepContour : Bool) (tol : Rat) : Py Field :=
  match wrapBounds b with
  | .error e => .error e
  | .ok polys => .ok (coords.filter (keepPoint removeInside keepContour tol polys))

/-! ### feature_recognition.determine_largest_rectangle -/

/-- The four running extrema `(x_min, y_min, x_max, y_max)` after all vertices; `none` while they
    are still `±inf` (no vertex seen).  `max(x, x_max)` keeps `x` unless `x_max` is larger,
    `min(x, x_min)` keeps `x` unless `x_min` is smaller (`ratMax`/`ratMin`). -/
def extrema (polys : List Poly) : Option (Rat × Rat × Rat × Rat) :=
  polys.flatten.foldl (fun acc v =>
    match acc with
    | none => some (v.1, v.2, v.1, v.2)
    | some (x0, y0, x1, y1) => some (ratMin v.1 x0, ratMin v.2 y0, ratMax v.1 x1, ratMax v.2 y1)) none

/-- `[[x_min, y_min], [x_max, y_min], [x_max, y_max], [x_min, y_max], [x_min, y_min]]`. -/
def outerRectangle (b : Rat × Rat × Rat × Rat) : List Point :=
  [(b.1, b.2.1), (b.2.2.1, b.2.1), (b.2.2.1, b.2.2.2), (b.1, b.2.2.2), (b.1, b.2.1)]

/-- Python `max(iterable)` of a non-empty list. -/
def pyMaxList : List Rat → Option Rat
  | [] => none
  | a :: l => some (l.foldl ratMax a)

/-! ### domains.reorder_domain -/

/-- insert `a` in front of the first element whose key is not smaller (elements that came later
    in the input and have the same key stay behind `a`). -/
def insertByKey {α : Type} (key : α → Nat) (a : α) : List α → List α
  | [] => [a]
  | b :: bs => if key b < key a then b :: insertByKey key a bs else a :: b :: bs

/-- Python `sorted(l, key=key)` (stable). -/
def stableSort {α : Type} (key : α → Nat) : List α → List α
  | [] => []
  | a :: l => insertByKey key a (stableSort key l)

/-- `domain_reordered, f_d_reordered = reorder_domain(domain, descriptors)`. -/
def reorderDomain {δ : Type} (domain : List Field) (descs : List δ) : Py (List Field × List δ) :=
  match stableSort (fun x => x.1.length) (List.zip domain descs) with
  | [] => .error .valueError
  | p :: ps => .ok (p :: ps).unzip

/-! ### domains.polygonal_land_constraint -/

/-- The body of `for coordinates in domain:`; `none` = `continue`. -/
def cutField (prop nogo : Bounds) (kc : List Bool) (tol : Rat) (f : Field) : Py (Option Field) :=
  match pyIndex kc Gen.plcPropContourIdx with
  | .error e => .error e
  | .ok k0 =>
    match removeCutout f prop Gen.plcPropRemoveInside k0 tol with
    | .error e => .error e
    | .ok new =>
      if new.length = 0 then .ok none else
      if nogo.len > 0 then
        match pyIndex kc Gen.plcNogoContourIdx with
        | .error e => .error e
        | .ok k1 =>
          match removeCutout new nogo Gen.plcNogoRemoveInside k1 tol with
          | .error e => .error e
          | .ok new2 => if new2.length = 0 then .ok none else .ok (some new2)
      else .ok (some new)

/-- One pass of `for domain in coordinates_domain_nested:`. -/
def cutDomain (prop nogo : Bounds) (kc : List Bool) (tol : Rat) (domain : List Field) : Py (List Field) :=
  match domain.mapM (cutField prop nogo kc tol) with
  | .error e => .error e
  | .ok l => .ok (l.filterMap id)

/-- The reorder loop: `reorder_domain(domain, field_descriptors[idx])` for every `idx`. -/
def reorderAll {δ : Type} (descs : List (List δ)) : Nat → List (List Field) → Py (List (List Field × List δ))
  | _, [] => .ok []
  | idx, d :: ds =>
    match pyIndex descs (idx : Int) with
    | .error e => .error e
    | .ok fd =>
      match reorderDomain d fd with
      | .error e => .error e
      | .ok r =>
        match reorderAll descs (idx + 1) ds with
        | .error e => .error e
        | .ok rs => .ok (r :: rs)

/-- Everything after the call of `bi_rectangle_nested`. -/
def plcCore {δ : Type} (nested : List (List Field)) (descs : List (List δ)) (prop nogo : Bounds) (kc : List Bool)
    (tol : Rat) : Py (List (List Field) × List (List δ)) :=
  match nested.mapM (cutDomain prop nogo kc tol) with
  | .error e => .error e
  | .ok cut =>
    match reorderAll descs 0 cut with
    | .error e => .error e
    | .ok rs => .ok (rs.map (·.1), rs.map (·.2))

/-- `length`, `width` of `polygonal_land_constraint`: the maxima of the outer rectangle's
    coordinate tuples; `none` = `+inf` (no vertex). -/
def landOf (polys : List Poly) : Option (Rat × Rat) :=
  match extrema polys with
  | none => none
  | some b =>
    match pyMaxList ((outerRectangle b).map (·.1)), pyMaxList ((outerRectangle b).map (·.2)) with
    | some l, some w => some (l, w)
    | _, _ => none

/-- The descriptor lists of `bi_rectangle_nested`, abstractly: position in the un-cut list. -/
def positions (nested : List (List Field)) : List (List Nat) := nested.map (fun d => List.range d.length)

/-- `polygonal_land_constraint(b_min, b_max_x, b_max_y, property_boundary, no_go_boundaries, keep_contour)`;
    `nogo = none` is Python `None` (→ `[]`). -/
def polygonalLandConstraint (R : Rat → Rat) (bmin bmaxx bmaxy : Rat) (prop : Bounds) (nogo : Option Bounds)
    (kc : List Bool) : Py (List (List Field) × List (List Nat)) :=
  let nogo := nogo.getD (.many [])
  match prop with
  | .single (_ :: _) => .error .typeError          -- `for x, y in bf_outline` on a vertex
  | _ =>
    let polys := match prop with | .many ps => ps | .single _ => []
    match landOf polys with
    | none =>                                        -- length = width = +inf
      if bmin = 0 ∨ bmaxy = 0 then .error .zeroDiv else .error .other
    | some (length, width) =>
      match biRectangleNested R length width bmin bmaxx bmaxy with
      | .error e => .error e
      | .ok nested => plcCore nested (positions nested) prop nogo kc Gen.cutoutTolDefault

/-! ### geometry.GeometricConstraintsBiRectangleConstrained.__init__, design.DesignBiRectangleConstrained -/

/-- `if len(b) > 0 and isinstance(b[0][0], (int, float)): [b] else: b`. -/
def geomNormalize : Bounds → Py Bounds
  | .single [] => .ok (.many [])
  | .single (v :: vs) => .ok (.many [v :: vs])
  | .many [] => .ok (.many [])
  | .many ([] :: _) => .error .indexError
  | .many ((v :: vs) :: rest) => .ok (.many ((v :: vs) :: rest))

/-- `DesignBiRectangleConstrained(…, GeometricConstraintsBiRectangleConstrained(b_min, b_max_x,
    b_max_y, property_boundary, no_go_boundaries), …, keep_contour)`: the no-go list is normalised
    first, then the property list. -/
def designConstrained (R : Rat → Rat) (bmin bmaxx bmaxy : Rat) (prop nogo : Bounds) (kc : List Bool) :
    Py (List (List Field) × List (List Nat)) :=
  match geomNormalize nogo with
  | .error e => .error e
  | .ok ng =>
    match geomNormalize prop with
    | .error e => .error e
    | .ok pr => polygonalLandConstraint R bmin bmaxx bmaxy pr (some ng) kc

/-! ### line protocol -/

abbrev Parser (α : Type) := List String → Option (α × List String)

def pNat : Parser Nat
  | t :: r => t.toNat?.map (·, r)
  | [] => none

def pRat : Parser Rat
  | t :: r => (parseRat? t).map (·, r)
  | [] => none

def pRats : Nat → Parser (List Rat)
  | 0, r => some ([], r)
  | n + 1, r => do
    let (q, r) ← pRat r
    let (qs, r) ← pRats n r
    some (q :: qs, r)

/-- `<nv> x1 y1 … ` -/
def pPoly : Parser Poly := fun r => do
  let (n, r) ← pNat r
  let (qs, r) ← pRats (2 * n) r
  some (Polygon.toPts qs, r)

def pPolys : Nat → Parser (List Poly)
  | 0, r => some ([], r)
  | n + 1, r => do
    let (p, r) ← pPoly r
    let (ps, r) ← pPolys n r
    some (p :: ps, r)

/-- `S <poly>` | `M <npoly> <poly>…` | `N` (Python None; no-go only). -/
def pBounds : Parser (Option Bounds)
  | "S" :: r => do let (p, r) ← pPoly r; some (some (.single p), r)
  | "M" :: r => do
    let (n, r) ← pNat r
    let (ps, r) ← pPolys n r
    some (some (.many ps), r)
  | "N" :: r => some (none, r)
  | _ => none

def pBools : Nat → Parser (List Bool)
  | 0, r => some ([], r)
  | n + 1, r =>
    match r with
    | t :: r => do
      let (bs, r) ← pBools n r
      some ((t == "1") :: bs, r)
    | [] => none

def showDomainH (fd : List Field × List Nat) : String :=
  ",".intercalate ((List.zip fd.1 fd.2).map (fun x => s!"{x.1.length}:{hashField x.1}:{x.2}"))

def showResultH : Py (List (List Field) × List (List Nat)) → String
  | .error e => "raise:" ++ e.name
  | .ok (doms, descs) =>
    "ok " ++ String.join ((List.zip doms descs).map (fun fd => showDomainH fd ++ "|"))

def showResultP : Py (List (List Field) × List (List Nat)) → String
  | .error e => "raise:" ++ e.name
  | .ok (doms, descs) =>
    "ok " ++ showNested doms ++ " # "
      ++ String.join (descs.map (fun d => ",".intercalate (d.map toString) ++ "|"))

/-- `<bmin> <bx> <by> <nkc> <0|1>… <prop bounds> <nogo bounds>` -/
def pArgs : Parser (Rat × Rat × Rat × List Bool × Option Bounds × Option Bounds) := fun r => do
  let (bmin, r) ← pRat r
  let (bx, r) ← pRat r
  let (by_, r) ← pRat r
  let (nk, r) ← pNat r
  let (kc, r) ← pBools nk r
  let (prop, r) ← pBounds r
  let (nogo, r) ← pBounds r
  some ((bmin, bx, by_, kc, prop, nogo), r)

def runPlc (design : Bool) (R : Rat → Rat) (a : Rat × Rat × Rat × List Bool × Option Bounds × Option Bounds) :
    Option (Py (List (List Field) × List (List Nat))) :=
  let (bmin, bx, by_, kc, prop, nogo) := a
  match prop with
  | none => none
  | some prop =>
    if design then
      match nogo with
      | none => none
      | some ng => some (designConstrained R bmin bx by_ prop ng kc)
    else some (polygonalLandConstraint R bmin bx by_ prop nogo kc)

/-- Commands (mode `E` exact grid / `F` binary64 grid; form `H` sizes+hashes+descriptor positions, `P` every point):
    `plc  <mode> <form> <args>`  → `polygonal_land_constraint`;
    `plcd <mode> <form> <args>`  → the `DesignBiRectangleConstrained` constructor path;
    `rco  <remove_inside 0|1> <keep_contour 0|1> <tol> <bounds> <npts> x y …` → `remove_cutout`;
    `dlr  <npoly> <poly>…` → `determine_largest_rectangle` (`inf` when no vertex);
    `ssort k1 k2 …` → the positions of `sorted(range(n), key=k.__getitem__)`. -/
def cmd : List String → Option String
  | "plc" :: m :: form :: rest => some <|
      match pickR m, pArgs rest with
      | some R, some (a, []) =>
        (match runPlc false R a with
         | some r => if form = "P" then showResultP r else showResultH r
         | none => "bad-arg")
      | _, _ => "bad-arg"
  | "plcd" :: m :: form :: rest => some <|
      match pickR m, pArgs rest with
      | some R, some (a, []) =>
        (match runPlc true R a with
         | some r => if form = "P" then showResultP r else showResultH r
         | none => "bad-arg")
      | _, _ => "bad-arg"
  | "rco" :: ri :: kc :: rest => some <|
      match (do
        let (tol, r) ← pRat rest
        let (b, r) ← pBounds r
        let b ← b
        let (n, r) ← pNat r
        let (qs, r) ← pRats (2 * n) r
        if r ≠ [] then none else
        some (removeCutout (Polygon.toPts qs) b (ri == "1") (kc == "1") tol)) with
      | some (.ok f) => "ok " ++ showField f
      | some (.error e) => "raise:" ++ e.name
      | none => "bad-arg"
  | "dlr" :: rest => some <|
      match (do
        let (n, r) ← pNat rest
        let (ps, r) ← pPolys n r
        if r ≠ [] then none else some ps) with
      | some ps =>
        (match extrema ps with
         | some b => "ok " ++ showField (outerRectangle b)
         | none => "inf")
      | none => "bad-arg"
  | "ssort" :: rest => some <|
      match rest.mapM String.toNat? with
      | some ks =>
        " ".intercalate ((stableSort (fun (x : Nat × Nat) => x.1) (List.zip ks (List.range ks.length))).map
          (fun x => toString x.2))
      | none => "bad-arg"
  | _ => none

end GHEVerif.Constrained
