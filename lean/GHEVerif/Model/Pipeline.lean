/-
  `GHEManager.find_design` as the composition the manager performs, interpreted from the
  regenerated statement list `Gen.findDesignOps` (manager.py):
  `self._search = design.find_design()` (one of the four search classes; abstract here: any
  `SearchRes`), `ghe.compute_g_functions()` (abstract: it replaces the one-height g-function by the
  three-height one, i.e. the search-stage excess `E k ·` by the sizing objective `f k ·`),
  `ghe.size(HYBRID)` (Report.size, interpreted from the regenerated statement list of GHE.size).
  The two timer statements do not touch the design.
-/
import GHEVerif.Model.Search
import GHEVerif.Model.Report
import GHEVerif.Gen.Report

namespace GHEVerif.Pipeline
open GHEVerif GHEVerif.Search GHEVerif.Report

/-- What `design.find_design()` hands back: the selected candidate (identified by `α`: an index, a
    (list, index) pair, a RowWise selection), the height the search left the GHE at, extra
    information `β` (the path of the 1D search), or the exception that escaped. -/
inductive SearchRes (α β : Type) where
  | selected (k : α) (h : Rat) (info : β)
  | valueError
  | pyError (e : PyErr)
  deriving DecidableEq

/-- What the manager ends with: the selected candidate, the search information, and the GHE state. -/
structure DesignG (α β : Type) where
  field : α
  path : β
  st : GState
  deriving DecidableEq

inductive ResultG (α β : Type) where
  | design (d : DesignG α β)
  | valueError
  | pyError (e : PyErr)
  deriving DecidableEq

/-- The manager's state while `find_design` runs: `_search` (none before the search), whether the
    three-height g-function has been computed, and whether `return 0` was reached. -/
structure MState (α β : Type) where
  search : Option (DesignG α β)
  threeHeights : Bool
  returned : Bool

variable {α β : Type}

/-- One statement of `find_design`.  `f k` is the sizing objective of candidate `k` on the
    three-height g-function, `E k` the search-stage excess (one-height g-function): `size` before
    `compute_g_functions` would size on `E`.  `_search.ghe` before the search is an AttributeError. -/
def mgrStep (search : SearchRes α β) (E : α → Rat → Rat) (minH maxH : Rat)
    (f : α → Rat → Rat) (its : α → List Rat) (brent : α → Rat)
    (s : MState α β) : MgrOp → Except (ResultG α β) (MState α β)
  | .startTimer => .ok s
  | .stopTimer => .ok s
  | .ret0 => .ok { s with returned := true }
  | .search =>
    match search with
    | .valueError => .error .valueError
    | .pyError e => .error (.pyError e)
    -- the search leaves the GHE initialised (not simulated) at height h
    | .selected k h p => .ok { s with search := some { field := k, path := p, st := { H := h, simAt := none, returned := 0 } }, threeHeights := false }
  | .computeG =>
    match s.search with
    | none => .error (.pyError .other)
    | some _ => .ok { s with threeHeights := true }
  | .size =>
    match s.search with
    | none => .error (.pyError .other)
    | some d =>
      let obj := if s.threeHeights then f d.field else E d.field
      match size obj minH maxH (its d.field) (brent d.field) d.st with
      | .error e => .error (.pyError e)
      | .ok st => .ok { s with search := some { d with st := st } }

def runMgr (search : SearchRes α β) (E : α → Rat → Rat) (minH maxH : Rat)
    (f : α → Rat → Rat) (its : α → List Rat) (brent : α → Rat) :
    List MgrOp → MState α β → Except (ResultG α β) (MState α β)
  | [], s => .ok s
  | op :: ops, s =>
    if s.returned then .ok s else
    match mgrStep search E minH maxH f its brent s op with
    | .error r => .error r
    | .ok s' => runMgr search E minH maxH f its brent ops s'

/-- `GHEManager.find_design()` (all properties set): the regenerated statements, run in order. -/
def findDesignG (search : SearchRes α β) (E : α → Rat → Rat) (minH maxH : Rat)
    (f : α → Rat → Rat) (its : α → List Rat) (brent : α → Rat) : ResultG α β :=
  match runMgr search E minH maxH f its brent Gen.findDesignOps { search := none, threeHeights := false, returned := false } with
  | .error r => r
  | .ok s =>
    match s.search with
    | none => .pyError .other
    | some d => .design d

/-- The composition the statements amount to (proved equal in Props/C01). -/
def findDesignSpec (search : SearchRes α β) (minH maxH : Rat)
    (f : α → Rat → Rat) (its : α → List Rat) (brent : α → Rat) : ResultG α β :=
  match search with
  | .valueError => .valueError
  | .pyError e => .pyError e
  | .selected k h p =>
    match size (f k) minH maxH (its k) (brent k) { H := h, simAt := none, returned := 0 } with
    | .error e => .pyError e
    | .ok st => .design { field := k, path := p, st := st }

/-! ### The four searches as `SearchRes` -/

def search1D (counts : List Nat) (E : Nat → Rat → Rat) (cfg : Cfg) : SearchRes Nat Path :=
  match (bisect1D counts E cfg).1 with
  | .selected k h p => .selected k h p
  | .valueError => .valueError
  | .pyError e => .pyError e

def searchOf2 (o : Outcome2) : SearchRes (Nat × Nat) Unit :=
  match o with
  | .selected l k h => .selected (l, k) h ()
  | .valueError => .valueError
  | .pyError e => .pyError e

/-- `Bisection2D` (bi-rectangle). -/
def search2D (nc : List (List Nat)) (E2 : Nat → Nat → Rat → Rat) (cfg : Cfg) : SearchRes (Nat × Nat) Unit :=
  searchOf2 (bisect2D nc E2 cfg).1

/-- `BisectionZD` (bi-zoned and polygon-constrained): it returns with the GHE re-initialised at
    maximum height (the per-list sized heights `sz` only rank the lists). -/
def searchZD (nc : List (List Nat)) (E2 : Nat → Nat → Rat → Rat) (sz : Nat → Nat → Rat) (cfg : Cfg) :
    SearchRes (Nat × Nat) Unit :=
  match (bisectZD nc E2 sz cfg).1 with
  | .selected l k _ => .selected (l, k) cfg.maxH ()
  | .valueError => .valueError
  | .pyError e => .pyError e

/-- `RowWiseModifiedBisectionSearch`: the GHE of the returned field is initialised at maximum height. -/
def searchRW (Es : Rat → Rat) (nb : Rat → Nat) (szs : Rat → Rat) (E1 : Rat) (Esub : Nat → Rat) (c : RWCfg) (maxH : Rat) :
    SearchRes RWSel Bool :=
  match (rowwiseSearch Es nb szs E1 Esub c).1 with
  | .selected fld esc => .selected fld maxH esc
  | .valueError => .valueError

/-! ### The flat searches, as before -/

abbrev Design := DesignG Nat Path
abbrev Result := ResultG Nat Path

def findDesign1D (counts : List Nat) (E : Nat → Rat → Rat) (cfg : Cfg)
    (f : Nat → Rat → Rat) (its : Nat → List Rat) (brent : Nat → Rat) : Result :=
  findDesignG (search1D counts E cfg) E cfg.minH cfg.maxH f its brent

end GHEVerif.Pipeline
