/-
  `GHEManager.find_design` for the flat searches as the composition the manager performs, interpreted
  from the regenerated statement list `Gen.findDesignOps` (manager.py):
  `self._search = design.find_design()` (Bisection1D.search), `ghe.compute_g_functions()` (abstract:
  it replaces the one-height g-function by the three-height one, i.e. the search-stage excess
  `E k ·` by the sizing objective `f k ·`), `ghe.size(HYBRID)` (Report.size, interpreted from the
  regenerated statement list of GHE.size).  The two timer statements do not touch the design.
-/
import GHEVerif.Model.Search
import GHEVerif.Model.Report
import GHEVerif.Gen.Report

namespace GHEVerif.Pipeline
open GHEVerif GHEVerif.Search GHEVerif.Report

/-- What the manager ends with: the selected candidate, the search path, and the GHE state. -/
structure Design where
  field : Nat
  path : Path
  st : GState
  deriving Repr, DecidableEq

inductive Result where
  | design (d : Design)
  | valueError
  | pyError (e : PyErr)
  deriving Repr, DecidableEq

/-- The manager's state while `find_design` runs: `_search` (none before the search), whether the
    three-height g-function has been computed, and whether `return 0` was reached. -/
structure MState where
  search : Option Design
  threeHeights : Bool
  returned : Bool
  deriving Repr, DecidableEq

/-- One statement of `find_design`.  `f k` is the sizing objective of candidate `k` on the
    three-height g-function, `E k` the search-stage excess (one-height g-function): `size` before
    `compute_g_functions` would size on `E`.  `_search.ghe` before the search is an AttributeError. -/
def mgrStep (counts : List Nat) (E : Nat → Rat → Rat) (cfg : Cfg)
    (f : Nat → Rat → Rat) (its : Nat → List Rat) (brent : Nat → Rat)
    (s : MState) : MgrOp → Except Result MState
  | .startTimer => .ok s
  | .stopTimer => .ok s
  | .ret0 => .ok { s with returned := true }
  | .search =>
    match (bisect1D counts E cfg).1 with
    | .valueError => .error .valueError
    | .pyError e => .error (.pyError e)
    -- the search leaves the GHE initialised (not simulated) at height h
    | .selected k h p => .ok { s with search := some { field := k, path := p, st := { H := h, simAt := none, returned := 0 } }, threeHeights := false }
  | .computeG =>
    match s.search with
    | none => .error (.pyError .other)
    | some _ => .ok { s with threeHeights := true }
  | .size =>
    match s.search with
    | none => .error (.pyError .other)
    | some d =>
      let obj := if s.threeHeights then f d.field else E d.field
      match size obj cfg.minH cfg.maxH (its d.field) (brent d.field) d.st with
      | .error e => .error (.pyError e)
      | .ok st => .ok { s with search := some { d with st := st } }

def runMgr (counts : List Nat) (E : Nat → Rat → Rat) (cfg : Cfg)
    (f : Nat → Rat → Rat) (its : Nat → List Rat) (brent : Nat → Rat) :
    List MgrOp → MState → Except Result MState
  | [], s => .ok s
  | op :: ops, s =>
    if s.returned then .ok s else
    match mgrStep counts E cfg f its brent s op with
    | .error r => .error r
    | .ok s' => runMgr counts E cfg f its brent ops s'

/-- `GHEManager.find_design()` (all properties set): the regenerated statements, run in order. -/
def findDesign1D (counts : List Nat) (E : Nat → Rat → Rat) (cfg : Cfg)
    (f : Nat → Rat → Rat) (its : Nat → List Rat) (brent : Nat → Rat) : Result :=
  match runMgr counts E cfg f its brent Gen.findDesignOps { search := none, threeHeights := false, returned := false } with
  | .error r => r
  | .ok s =>
    match s.search with
    | none => .pyError .other
    | some d => .design d

/-- The composition the statements amount to (proved equal in Lemmas/Report). -/
def findDesign1DSpec (counts : List Nat) (E : Nat → Rat → Rat) (cfg : Cfg)
    (f : Nat → Rat → Rat) (its : Nat → List Rat) (brent : Nat → Rat) : Result :=
  match (bisect1D counts E cfg).1 with
  | .valueError => .valueError
  | .pyError e => .pyError e
  | .selected k h p =>
    match size (f k) cfg.minH cfg.maxH (its k) (brent k) { H := h, simAt := none, returned := 0 } with
    | .error e => .pyError e
    | .ok st => .design { field := k, path := p, st := st }

end GHEVerif.Pipeline
