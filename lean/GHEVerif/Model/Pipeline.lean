/-
  `GHEManager.find_design` for the flat searches as the composition the manager performs:
  `self._search = design.find_design()` (Bisection1D.search), `ghe.compute_g_functions()` (abstract:
  it replaces the one-height g-function by the three-height one, i.e. the search-stage excess
  `E k ·` by the sizing objective `f k ·`), `ghe.size(HYBRID)` (Report.size, interpreted from the
  regenerated statement list of GHE.size).
-/
import GHEVerif.Model.Search
import GHEVerif.Model.Report

namespace GHEVerif.Pipeline
open GHEVerif GHEVerif.Search GHEVerif.Report

/-- What the manager ends with: the selected candidate, the search path, and the GHE state. -/
structure Design where
  field : Nat
  path : Path
  st : GState
  deriving Repr, DecidableEq

inductive Result where
  | design (d : Design)
  | valueError
  | pyError (e : PyErr)
  deriving Repr, DecidableEq

/-- `f k` is the sizing objective of candidate `k` (excess as a function of the height with the
    three-height g-function); `its k`, `brent k` are Brent's iterates and answer on it. -/
def findDesign1D (counts : List Nat) (E : Nat → Rat → Rat) (cfg : Cfg)
    (f : Nat → Rat → Rat) (its : Nat → List Rat) (brent : Nat → Rat) : Result :=
  match (bisect1D counts E cfg).1 with
  | .valueError => .valueError
  | .pyError e => .pyError e
  | .selected k h p =>
    -- the search leaves the GHE initialised (not simulated) at height h
    match size (f k) cfg.minH cfg.maxH (its k) (brent k) { H := h, simAt := none, returned := 0 } with
    | .error e => .pyError e
    | .ok st => .design { field := k, path := p, st := st }

end GHEVerif.Pipeline
