/-
  Model of the combined g-function (property C11):

  * `BaseGHE.combine_sts_lts`            (ghedesigner/ground_heat_exchangers.py)
  * `GFunction.g_function_interpolation` (ghedesigner/gfunction.py), all interpolation kinds,
    the `close_tolerance` snapping, the extrapolation flag, the cached interpolation table
  * `GFunction.borehole_radius_correction`, `BaseGHE.grab_g_function`
  * the analytical finite-line-source g-function (uniform heat rate), as a `Float` evaluator that
    the harness runs against pygfunction (differential run, not a theorem).

  Exact rationals (`Rat`) for the list logic; `log` is a parameter (the harness supplies the value
  of `math.log`).  What raises in Python returns `.error …` here.  Core Lean only.
-/
import GHEVerif.Model.Py
import GHEVerif.Gen.Tables
import GHEVerif.Gen.GJoinConsts

namespace GHEVerif.GJoin
open GHEVerif

/-! ## 1. `combine_sts_lts` -/

/-- Python `max(list)`: `ValueError` on an empty list. -/
def pyMaxL : List Rat → Py Rat
  | [] => .error .valueError
  | x :: xs => .ok (xs.foldl ratMax x)

/-- Python `min(list)`. -/
def pyMinL : List Rat → Py Rat
  | [] => .error .valueError
  | x :: xs => .ok (xs.foldl ratMin x)

/-- `i = 0; value = sts[0]; while value <= m: i += 1; value = sts[i]` — index of the first
    element that is `> m`; running off the end is the `IndexError` of `sts[i]`.  The comparison
    operator is read from the source on every check (`Gen.GJoinConsts.scanOp`). -/
def scanStop (m : Rat) : List Rat → Nat → Py Nat
  | [], _ => .error .indexError
  | v :: rest, i => if Gen.GJoinConsts.scanOp.eval v m then scanStop m rest (i + 1) else .ok i

/-- Order used by `interp1d(x, y)` (`assume_sorted=False`): `argsort` of the abscissae. -/
def sortPairs (l : List (Rat × Rat)) : List (Rat × Rat) :=
  l.mergeSort (fun a b => decide (a.1 ≤ b.1))

/-- The constructor `interp1d(log_time, g)`: `ValueError` when the two lists differ in length or
    are empty, otherwise the table sorted by abscissa (`f.x`, `f.y`). -/
def interp1dCtor (t g : List Rat) : Py (List (Rat × Rat)) :=
  if t.length ≠ g.length then .error .valueError
  else if t.length = 0 then .error .valueError
  else .ok (sortPairs (t.zip g))

/-- The joined lists before `interp1d` is applied: `(log_time, g)`. -/
def joinLists (ltsT ltsG stsT stsG : List Rat) : Py (List Rat × List Rat) := do
  let mx ← pyMaxL stsT
  let mn ← pyMinL ltsT
  if Gen.GJoinConsts.branchOp.eval mx mn then
    pure (stsT ++ ltsT, stsG ++ ltsG)
  else do
    let i ← scanStop mn stsT 0
    pure (stsT.take i ++ ltsT, stsG.take i ++ ltsG)

/-- `BaseGHE.combine_sts_lts`: the table of the returned `interp1d`. -/
def combineStsLts (ltsT ltsG stsT stsG : List Rat) : Py (List (Rat × Rat)) := do
  let (t, g) ← joinLists ltsT ltsG stsT stsG
  interp1dCtor t g

/-- Which branch of `combine_sts_lts` runs (for the histogram). -/
def joinBranch (ltsT stsT : List Rat) : String :=
  match pyMaxL stsT, pyMinL ltsT with
  | .ok mx, .ok mn => if Gen.GJoinConsts.branchOp.eval mx mn then "concat" else "truncate"
  | _, _ => "raise"

/-! ## 2. Evaluating an interpolant -/

def linSeg (x0 y0 x1 y1 q : Rat) : Rat := (y1 - y0) / (x1 - x0) * (q - x0) + y0

/-- Piecewise-linear evaluation on a sorted table (`searchsorted` left, clipped to
    `[1, n-1]`, segment `(idx-1, idx)`); outside the table the end segments are extended. -/
def linEval : List (Rat × Rat) → Rat → Rat
  | [], _ => 0
  | [(_, y0)], _ => y0
  | [(x0, y0), (x1, y1)], q => linSeg x0 y0 x1 y1 q
  | (x0, y0) :: (x1, y1) :: r :: rest, q =>
      if q ≤ x1 then linSeg x0 y0 x1 y1 q else linEval ((x1, y1) :: r :: rest) q

/-- `x_new < x[0]` or `x_new > x[-1]`. -/
def outOfBounds (nodes : List (Rat × Rat)) (q : Rat) : Bool :=
  match nodes.head?, nodes.getLast? with
  | some a, some b => decide (q < a.1) || decide (b.1 < q)
  | _, _ => true

/-- Calling the linear `interp1d` returned by `combine_sts_lts` (bounds_error is on). -/
def callInterp (nodes : List (Rat × Rat)) (q : Rat) : Py Rat :=
  if outOfBounds nodes q then .error .valueError else .ok (linEval nodes q)

/-- Lagrange basis factor product `∏ (q - xj)/(xi - xj)` over the other abscissae. -/
def lagBasis (xi : Rat) (others : List Rat) (q : Rat) : Rat :=
  others.foldr (fun xj acc => (q - xj) / (xi - xj) * acc) 1

def lagAux (pre : List (Rat × Rat)) : List (Rat × Rat) → Rat → Rat
  | [], _ => 0
  | (x, y) :: post, q =>
      y * lagBasis x ((pre ++ post).map Prod.fst) q + lagAux (pre ++ [(x, y)]) post q

/-- The interpolating polynomial through the nodes (`scipy.interpolate.lagrange`; also what
    `interp1d(kind="quadratic")` is for three nodes and `kind="cubic"` for four). -/
def lagrangeEval (nodes : List (Rat × Rat)) (q : Rat) : Rat := lagAux [] nodes q

/-- Gauss–Jordan elimination over `Rat` on an augmented matrix (rows `[a₁ … aₙ | b]`). -/
def solveLin (rows : Array (Array Rat)) : Option (Array Rat) := Id.run do
  let n := rows.size
  let mut a := rows
  for c in [0:n] do
    let mut p := n
    for r in [c:n] do
      if p = n && a[r]![c]! ≠ 0 then p := r
    if p = n then return none
    let rp := a[p]!
    let rc := a[c]!
    a := (a.set! p rc).set! c rp
    let piv := a[c]![c]!
    let rowc := a[c]!.map (· / piv)
    a := a.set! c rowc
    for r in [0:n] do
      if r ≠ c then
        let f := a[r]![c]!
        if f ≠ 0 then
          let rr := a[r]!
          a := a.set! r ((List.range (n + 1)).toArray.map (fun j => rr[j]! - f * rowc[j]!))
  return some (a.map (fun r => r[n]!))

def ratPow (x : Rat) : Nat → Rat
  | 0 => 1
  | n + 1 => x * ratPow x n

def tpow (x : Rat) (k : Nat) : Rat := if x ≤ 0 then 0 else ratPow x k

/-- Interior knots of scipy's `_not_a_knot(x, k)` for `k = 2` (mid-points, first and last
    dropped) and `k = 3` (the nodes without the two outermost on each side). -/
def interiorKnots (xs : List Rat) (k : Nat) : List Rat :=
  if k % 2 = 1 then
    let k2 := (k + 1) / 2
    (xs.drop k2).take (xs.length - 2 * k2)
  else
    let k2 := k / 2
    let mids := (xs.zip (xs.drop 1)).map (fun p => (p.1 + p.2) / 2)
    (mids.drop k2).take (mids.length - 2 * k2)

/-- `interp1d(kind="quadratic"/"cubic")` = `make_interp_spline(x, y, k)` with not-a-knot knots:
    the spline in the truncated-power basis, collocated at the nodes (extends as a polynomial
    outside the table, which is what `fill_value="extrapolate"` gives). `none`: singular. -/
def splineEval (k : Nat) (nodes : List (Rat × Rat)) (q : Rat) : Option Rat :=
  match nodes with
  | [] => none
  | (x0, _) :: _ =>
    let xs := nodes.map Prod.fst
    let ts := interiorKnots xs k
    let basis (x : Rat) : List Rat :=
      ((List.range (k + 1)).map (fun m => ratPow (x - x0) m)) ++ ts.map (fun t => tpow (x - t) k)
    if nodes.length ≠ k + 1 + ts.length then none else
    let rows := (nodes.map (fun p => (basis p.1 ++ [p.2]).toArray)).toArray
    match solveLin rows with
    | none => none
    | some c => some (((basis q).zip c.toList).foldl (fun acc p => acc + p.1 * p.2) 0)

/-! ## 3. `GFunction.g_function_interpolation` -/

structure Curve where
  h : Rat          -- key of g_lts / r_b_values (insertion order = list order)
  rb : Rat
  g : List Rat
  deriving Repr, Inhabited

structure GF where
  B : Rat
  d : Rat
  curves : List Curve
  logTime : List Rat
  deriving Repr, Inhabited

/-- The `kind` argument; `bad` is any other string (`KeyError` at `interpolation_kinds[kind]`). -/
inductive Kind where
  | default | linear | quadratic | cubic | lagrange | bad
  deriving Repr, DecidableEq, Inhabited

/-- What the table is built with. -/
inductive RKind where
  | linear | quadratic | cubic | lagrange
  deriving Repr, DecidableEq, Inhabited

def RKind.required : RKind → Nat
  | .linear => Gen.GJoinConsts.reqLinear | .quadratic => Gen.GJoinConsts.reqQuadratic
  | .cubic => Gen.GJoinConsts.reqCubic | .lagrange => Gen.GJoinConsts.reqLagrange

def RKind.name : RKind → String
  | .linear => "linear" | .quadratic => "quadratic" | .cubic => "cubic" | .lagrange => "lagrange"

/-- State of `self.interpolation_table`: empty, or built for a kind and a fill value
    (`true` = "extrapolate") — the `built_for` entry. -/
abbrev Cache := Option (RKind × Bool)

structure InterpOut where
  g : List Rat
  rb : Rat
  d : Rat
  hEq : Rat
  warned : Bool        -- "Extrapolation is being used."
  single : Bool        -- returned through the one-curve branch (no table involved)
  cache : Cache        -- table state after the call
  deriving Repr, Inhabited

/-- `h_eq = 1 / b_over_h * B`, then the two `close_tolerance` snaps (max first, then min). -/
def hEqOf (B bOverH : Rat) (hs : List Rat) : Py Rat := do
  if bOverH = 0 then throw .zeroDiv
  let h0 := 1 / bOverH * B
  let mx ← pyMaxL hs
  let mn ← pyMinL hs
  let h1 := if ratAbs (h0 - mx) < Gen.GJoinConsts.closeTolerance then mx else h0
  let h2 := if ratAbs (h1 - mn) < Gen.GJoinConsts.closeTolerance then mn else h1
  pure h2

/-- `fill_value = "extrapolate"` (and the warning) unless
    `min <= h_eq <= max or abs(min - h_eq) < tolerance`. -/
def needsExtrap (hEq mn mx : Rat) : Bool :=
  !((decide (mn ≤ hEq) && decide (hEq ≤ mx)) || decide (ratAbs (mn - hEq) < Gen.GJoinConsts.tolerance))

/-- Resolution of `kind` for two or more curves (the `default` ladder, then the
    "reduce if not enough curves" rule). `none` = the one-curve branch of `default`. -/
def resolveKind (kind : Kind) (n : Nat) : Py (Option RKind) :=
  let reduce (k : RKind) : Py (Option RKind) :=
    if n < 2 then .error .valueError
    else if k.required > n then
      (if n = 2 then .ok (some .linear) else if n = 3 then .ok (some .quadratic)
       else if n = 4 then .ok (some .cubic) else .error .keyError)
    else .ok (some k)
  match kind with
  | .default =>
      if n ≥ Gen.GJoinConsts.nCubic then reduce .cubic
      else if n ≥ Gen.GJoinConsts.nQuadratic then reduce .quadratic
      else if n = Gen.GJoinConsts.nLinear then reduce .linear
      else .ok none
  | .linear => reduce .linear
  | .quadratic => reduce .quadratic
  | .cubic => reduce .cubic
  | .lagrange => reduce .lagrange
  | .bad => if n < 2 then .error .valueError else .error .keyError

/-- One interpolant of the table evaluated at `q`.  `nodes` are in dictionary order. -/
def evalTable (k : RKind) (extrap : Bool) (nodes : List (Rat × Rat)) (q : Rat) : Py Rat :=
  match k with
  | .lagrange => .ok (lagrangeEval nodes q)
  | _ =>
    let s := sortPairs nodes
    if !extrap && outOfBounds s q then .error .valueError
    else match k with
      | .linear => .ok (linEval s q)
      | .quadratic =>
          if s.length = 3 then .ok (lagrangeEval s q)
          else (match splineEval 2 s q with | some v => .ok v | none => .error .other)
      | _ =>
          if s.length = 4 then .ok (lagrangeEval s q)
          else (match splineEval 3 s q with | some v => .ok v | none => .error .other)

/-- Column `i` of the family: `[(h, g_lts[h][i]) for h in g_lts]`; `IndexError` for a short curve. -/
def column (curves : List Curve) (i : Nat) : Py (List (Rat × Rat)) :=
  curves.mapM (fun c => match c.g[i]? with
    | some v => .ok (c.h, v)
    | none => .error .indexError)

/-- Build-and-evaluate of the interpolation table: all columns first (a short curve raises
    `IndexError` before any evaluation), then `rb`, then every time point. -/
def interpTable (gf : GF) (tk : RKind) (tex : Bool) (hEq : Rat) : Py (List Rat × Rat) := do
  let cols ← (List.range gf.logTime.length).mapM (column gf.curves)
  let rb ← evalTable tk tex (gf.curves.map (fun c => (c.h, c.rb))) hEq
  let g ← cols.mapM (fun nodes => evalTable tk tex nodes hEq)
  pure (g, rb)

/-- The one-curve branch of `kind="default"`. -/
def singleCurve (gf : GF) (hEq mn : Rat) (ex : Bool) (cache : Cache) : Py InterpOut :=
  match gf.curves with
  | [] => .error .valueError
  | c :: _ =>
    if c.h = 0 then .error .zeroDiv
    else if (hEq - c.h) / c.h < Gen.GJoinConsts.tolerance ∨ mn - hEq < Gen.GJoinConsts.tolerance then
      .ok { g := c.g, rb := c.rb, d := gf.d, hEq := hEq, warned := ex, single := true, cache := cache }
    else .error .valueError

/-- `if len(table) == 0 or table["built_for"] != (kind, fill_value)`: rebuild for the present call,
    otherwise reuse what is there. -/
def tableFor (cache : Cache) (k : RKind) (ex : Bool) : RKind × Bool :=
  match cache with
  | some ce => if ce = (k, ex) then ce else (k, ex)
  | none => (k, ex)

/-- `GFunction.g_function_interpolation(b_over_h, kind)` with the table state `cache` before
    the call.  Since /repo commit 5ab5ff6 the table remembers what it was built for
    (`built_for = (kind, fill_value)`) and is rebuilt whenever the present call needs another kind
    or fill mode, so the interpolant used is always the one of the *present* call; `cache` only
    records the state (and is returned unchanged by the one-curve branch). -/
def gFunctionInterpolation (gf : GF) (bOverH : Rat) (kind : Kind) (cache : Cache) : Py InterpOut := do
  let hs := gf.curves.map (·.h)
  let hEq ← hEqOf gf.B bOverH hs
  let mx ← pyMaxL hs
  let mn ← pyMinL hs
  let ex := needsExtrap hEq mn mx
  match ← resolveKind kind gf.curves.length with
  | none => singleCurve gf hEq mn ex cache
  | some k =>
      let t := tableFor cache k ex
      let (g, rb) ← interpTable gf t.1 t.2 hEq
      pure { g := g, rb := rb, d := gf.d, hEq := hEq, warned := ex, single := false, cache := some t }

/-- State of `self.interpolation_table` after the call, also when the call raises after the
    table was (re)built (an out-of-range `ValueError` can no longer come from a stale table, but the
    state is still what the next call sees).  A build interrupted by the `IndexError` of a short
    curve leaves a half-built table; that state is not modelled — the previous state is returned
    and the harness stops the sequence. -/
def tableAfter (gf : GF) (bOverH : Rat) (kind : Kind) (cache : Cache) : Cache :=
  let hs := gf.curves.map (·.h)
  match hEqOf gf.B bOverH hs, pyMaxL hs, pyMinL hs, resolveKind kind gf.curves.length with
  | .ok hEq, .ok mx, .ok mn, .ok (some k) =>
      match (List.range gf.logTime.length).mapM (column gf.curves) with
      | .ok _ => some (k, needsExtrap hEq mn mx)
      | .error _ => cache
  | _, _, _, _ => cache

/-! ## 4. Radius correction and `grab_g_function` -/

/-- `[g - log(rb_star / rb) for g in g_function]`, any scalar type, `log` a parameter. -/
def radiusCorrectionG {K : Type} [Sub K] [Div K] (log : K → K) (g : List K) (rb rbStar : K) : List K :=
  g.map (fun v => v - log (rbStar / rb))

/-- With Python's error branches: `rb = 0` → ZeroDivisionError, ratio `≤ 0` → `math.log`'s
    ValueError.  An empty list never evaluates the logarithm. -/
def radiusCorrection (log : Rat → Rat) (g : List Rat) (rb rbStar : Rat) : Py (List Rat) :=
  match g with
  | [] => .ok []
  | _ =>
    if rb = 0 then .error .zeroDiv
    else if rbStar / rb ≤ 0 then .error .valueError
    else .ok (radiusCorrectionG log g rb rbStar)

structure GrabOut where
  g : List (Rat × Rat)
  gBhw : List (Rat × Rat)
  rb : Rat
  hEq : Rat
  cache : Cache
  deriving Repr, Inhabited

/-- `BaseGHE.grab_g_function(b_over_h)`. -/
def grabGFunction (log : Rat → Rat) (gf : GF) (rbStar : Rat) (stsT stsG stsGbhw : List Rat)
    (bOverH : Rat) (cache : Cache) : Py GrabOut := do
  let o ← gFunctionInterpolation gf bOverH .default cache
  let gc ← radiusCorrection log o.g o.rb rbStar
  let g ← combineStsLts gf.logTime gc stsT stsG
  let gb ← combineStsLts gf.logTime gc stsT stsGbhw
  pure { g := g, gBhw := gb, rb := o.rb, hEq := o.hEq, cache := o.cache }

/-! ## 5. Finite-line-source g-function (uniform heat rate), `Float` — differential run only -/

namespace FLS

def sqrtPi : Float := Float.sqrt 3.141592653589793

/-- `erf x` for `x ≥ 0` by the all-positive series `2/√π · e^{-x²} Σ 2ⁿ x^{2n+1}/(2n+1)!!`. -/
def erfPos (x : Float) : Float :=
  if x > 6.0 then 1.0 else Id.run do
    let x2 := 2.0 * x * x
    let mut term := x
    let mut sum := x
    let mut n : Float := 0.0
    for _ in [0:400] do
      term := term * x2 / (2.0 * n + 3.0)
      sum := sum + term
      n := n + 1.0
      if term < 1.0e-18 * sum then break
    return 2.0 / sqrtPi * Float.exp (-(x * x)) * sum

def erf (x : Float) : Float := if x < 0.0 then -(erfPos (-x)) else erfPos x

/-- `∫₀ˣ erf = x·erf x − (1 − e^{−x²})/√π`. -/
def erfint (x : Float) : Float :=
  let x := Float.abs x
  x * erfPos x - (1.0 - Float.exp (-(x * x))) / sqrtPi

/-- Legendre `P_n(x)` and its derivative. -/
def legendre (n : Nat) (x : Float) : Float × Float := Id.run do
  let mut p0 := 1.0
  let mut p1 := x
  for k in [2:n + 1] do
    let kf := k.toFloat
    let p2 := ((2.0 * kf - 1.0) * x * p1 - (kf - 1.0) * p0) / kf
    p0 := p1
    p1 := p2
  let nf := n.toFloat
  return (p1, nf * (x * p1 - p0) / (x * x - 1.0))

/-- Gauss–Legendre nodes and weights on `[-1, 1]` (Newton iteration on `P_n`). -/
def gaussLegendre (n : Nat) : Array (Float × Float) := Id.run do
  let mut out := #[]
  for i in [0:n] do
    let mut x := Float.cos (3.141592653589793 * (i.toFloat + 0.75) / (n.toFloat + 0.5))
    for _ in [0:100] do
      let (p, dp) := legendre n x
      let dx := p / dp
      x := x - dx
      if Float.abs dx < 1.0e-16 then break
    let (_, dp) := legendre n x
    out := out.push (x, 2.0 / ((1.0 - x * x) * dp * dp))
  return out

def glRule : Array (Float × Float) := gaussLegendre 12

/-- Integrand in `u = ln s`: `e^{−d²s²}·I(s)/s` for two equal parallel boreholes at distance `d`
    (real + image sources). -/
def integrand (d H D : Float) (u : Float) : Float :=
  let s := Float.exp u
  let i := 2.0 * erfint (H * s) + 2.0 * erfint ((2.0 * D + H) * s) - erfint (2.0 * D * s)
            - erfint ((2.0 * D + 2.0 * H) * s)
  Float.exp (-(d * d * s * s)) * i / s

/-- Composite Gauss–Legendre on `[lo, hi]` with panels of width ≤ `w`. -/
def integrate (f : Float → Float) (lo hi w : Float) : Float :=
  if hi ≤ lo then 0.0 else Id.run do
    let np := (Float.ceil ((hi - lo) / w)).toUInt64.toNat
    let np := if np = 0 then 1 else np
    let hw := (hi - lo) / np.toFloat / 2.0
    let mut tot := 0.0
    for p in [0:np] do
      let c := lo + (2.0 * p.toFloat + 1.0) * hw
      for (x, wt) in glRule do
        tot := tot + wt * f (c + hw * x)
    return tot * hw

/-- Segment-to-segment response `h(d, t_k)` for all the times at once: `lnA` are the lower limits
    `ln(1/√(4αt_k))`, decreasing in `k`; the integral is accumulated from the top. -/
def hAll (d H D : Float) (lnA : Array Float) : Array Float := Id.run do
  let uTop := Float.log (8.0 / d)
  let mut out := #[]
  let mut acc := 0.0
  let mut prev := uTop
  for la in lnA do
    let lo := if la < uTop then la else uTop
    if lo < prev then
      acc := acc + integrate (integrand d H D) lo prev 0.25
      prev := lo
    out := out.push (acc / (2.0 * H))
  return out

/-- g-function of a field of equal vertical boreholes under uniform heat rate: the mean over
    boreholes of the summed pairwise responses (`d_ii = r_b`).  Equal distances are integrated
    once. -/
def gField (coords : Array (Float × Float)) (H D rb : Float) (lnt : Array Float) : Array Float := Id.run do
  let n := coords.size
  let lnA := lnt.map (fun l => Float.log (3.0 / (2.0 * H)) - l / 2.0)
  -- squared distances with multiplicity
  let mut d2s : Array Float := #[]
  for i in [0:n] do
    for j in [i + 1:n] do
      let (xi, yi) := coords[i]!
      let (xj, yj) := coords[j]!
      d2s := d2s.push ((xi - xj) * (xi - xj) + (yi - yj) * (yi - yj))
  let sorted := d2s.qsort (· < ·)
  let mut tot : Array Float := (hAll rb H D lnA).map (· * n.toFloat)
  let mut i := 0
  while i < sorted.size do
    let v := sorted[i]!
    let mut j := i
    while j < sorted.size && sorted[j]! == v do
      j := j + 1
    let mult := (2 * (j - i)).toFloat
    let hv := hAll (Float.sqrt v) H D lnA
    tot := (tot.zip hv).map (fun (a, b) => a + mult * b)
    i := j
  return tot.map (· / n.toFloat)

end FLS

/-! ## 6. Line protocol -/

def showPy {α} (f : α → String) : Py α → String
  | .ok v => f v
  | .error e => "raise " ++ e.name

def showList (l : List Rat) : String := ",".intercalate (l.map showRat)

def showPairs (l : List (Rat × Rat)) : String :=
  showList (l.map Prod.fst) ++ " " ++ showList (l.map Prod.snd)

/-- "a,b,c" → list of rationals; "-" is the empty list. -/
def parseList? (s : String) : Option (List Rat) :=
  if s = "-" then some [] else (s.splitOn ",").mapM parseRat?

def parseKind? : String → Option Kind
  | "default" => some .default | "linear" => some .linear | "quadratic" => some .quadratic
  | "cubic" => some .cubic | "lagrange" => some .lagrange | "bad" => some .bad | _ => none

def parseCache? : String → Option Cache
  | "none" => some none
  | "linear:0" => some (some (.linear, false)) | "linear:1" => some (some (.linear, true))
  | "quadratic:0" => some (some (.quadratic, false)) | "quadratic:1" => some (some (.quadratic, true))
  | "cubic:0" => some (some (.cubic, false)) | "cubic:1" => some (some (.cubic, true))
  | "lagrange:0" => some (some (.lagrange, false)) | "lagrange:1" => some (some (.lagrange, true))
  | _ => none

def showCache : Cache → String
  | none => "none"
  | some (k, e) => k.name ++ ":" ++ (if e then "1" else "0")

/-- Curves on the wire: `h;rb;g0,g1,…` joined by `|`. -/
def parseCurves? (s : String) : Option (List Curve) :=
  if s = "-" then some [] else
  (s.splitOn "|").mapM (fun c => match c.splitOn ";" with
    | [h, rb, g] => do
        let h ← parseRat? h
        let rb ← parseRat? rb
        let g ← parseList? g
        pure { h := h, rb := rb, g := g }
    | _ => none)

def showBool (b : Bool) : String := if b then "1" else "0"

def bitsToFloat? (s : String) : Option Float := (fun (n : Nat) => Float.ofBits n.toUInt64) <$> s.toNat?
def floatBits (f : Float) : String := toString f.toBits.toNat

/--
  Commands
  * `gj_join <ltsT> <ltsG> <stsT> <stsG>` → `<branch> <x-list> <y-list>` | `raise E`
  * `gj_call <x-list> <y-list> <q>` → value of the linear interp1d on that (sorted) table
  * `gj_interp <B> <d> <logTime> <curves> <bOverH> <kind> <cache>` →
      `<g-list> <rb> <hEq> <warned> <single> <cache'>` | `raise E <cache'>`
  * `gj_grab <B> <d> <logTime> <curves> <bOverH> <cache> <rbStar> <L> <stsT> <stsG> <stsGbhw>`
      (`L` = the harness' value of `log(rbStar / rb)`), → `<gx> <gy> <bx> <by> <rb> <hEq> <cache'>`
  * `gj_rcorr <L> <g-list> <rb> <rbStar>` → corrected list
  * `gj_erf <bits>` → bits;  `gj_fls <H> <D> <rb> <lnt bits,…> <x:y bits,…>` → g bits list
-/
def cmd : List String → Option String
  | ["gj_join", a, b, c, d] => some <|
      match parseList? a, parseList? b, parseList? c, parseList? d with
      | some a, some b, some c, some d =>
          showPy (fun r => joinBranch a c ++ " " ++ showPairs r) (combineStsLts a b c d)
      | _, _, _, _ => "bad-arg"
  | ["gj_call", xs, ys, q] => some <|
      match parseList? xs, parseList? ys, parseRat? q with
      | some xs, some ys, some q => showPy showRat (callInterp (xs.zip ys) q)
      | _, _, _ => "bad-arg"
  | ["gj_interp", b, d, lt, cs, boh, kind, cache] => some <|
      match parseRat? b, parseRat? d, parseList? lt, parseCurves? cs, parseRat? boh, parseKind? kind,
            parseCache? cache with
      | some b, some d, some lt, some cs, some boh, some kind, some cache =>
          let gf : GF := { B := b, d := d, curves := cs, logTime := lt }
          match gFunctionInterpolation gf boh kind cache with
          | .ok o => (if o.g.isEmpty then "-" else showList o.g) ++ " " ++ showRat o.rb ++ " "
              ++ showRat o.hEq ++ " " ++ showBool o.warned ++ " " ++ showBool o.single ++ " " ++ showCache o.cache
          | .error e => "raise " ++ e.name ++ " " ++ showCache (tableAfter gf boh kind cache)
      | _, _, _, _, _, _, _ => "bad-arg"
  | ["gj_grab", b, d, lt, cs, boh, cache, rbs, l, st, sg, sb] => some <|
      match parseRat? b, parseRat? d, parseList? lt, parseCurves? cs, parseRat? boh, parseCache? cache,
            parseRat? rbs, parseRat? l, parseList? st, parseList? sg, parseList? sb with
      | some b, some d, some lt, some cs, some boh, some cache, some rbs, some l, some st, some sg, some sb =>
          showPy (fun o => showPairs o.g ++ " " ++ showPairs o.gBhw ++ " " ++ showRat o.rb ++ " "
              ++ showRat o.hEq ++ " " ++ showCache o.cache)
            (grabGFunction (fun _ => l) { B := b, d := d, curves := cs, logTime := lt } rbs st sg sb boh cache)
      | _, _, _, _, _, _, _, _, _, _, _ => "bad-arg"
  | ["gj_rcorr", l, g, rb, rbs] => some <|
      match parseRat? l, parseList? g, parseRat? rb, parseRat? rbs with
      | some l, some g, some rb, some rbs =>
          showPy (fun r => if r.isEmpty then "-" else showList r) (radiusCorrection (fun _ => l) g rb rbs)
      | _, _, _, _ => "bad-arg"
  | ["gj_erf", x] => some <| match bitsToFloat? x with
      | some x => floatBits (FLS.erf x)
      | none => "bad-arg"
  | ["gj_fls", h, d, rb, lnt, coords] => some <|
      match bitsToFloat? h, bitsToFloat? d, bitsToFloat? rb, (lnt.splitOn ",").mapM bitsToFloat?,
            (coords.splitOn ",").mapM (fun c => match c.splitOn ":" with
              | [x, y] => do pure ((← bitsToFloat? x), (← bitsToFloat? y))
              | _ => none) with
      | some h, some d, some rb, some lnt, some coords =>
          ",".intercalate ((FLS.gField coords.toArray h d rb lnt.toArray).toList.map floatBits)
      | _, _, _, _, _ => "bad-arg"
  | _ => none

end GHEVerif.GJoin
