"""Plug-in of translate/gen.py for C09 (temporal superposition).

Extracts from the *current* source the literal constants and slice bounds of the unit handling
in `GHE.simulate` and of `BaseGHE._simulate_detailed` and writes them to
`lean/GHEVerif/Gen/SimConsts.lean`.  The model (Model/Superpose.lean) uses these definitions and
Props/C09.lean states their values, so an edited constant (kW->W factor, rejection sign, the
`[2:]` slices, 8760, 12, the `2` of `2*m_dot*cp`, the prepended `0.0`s, the loop start) breaks a
proof.  Each statement is matched against a template; a statement that no longer has the shape of
the template stops the translator with `translator-unsupported: <file>:<line>`.
"""
from __future__ import annotations

import ast
from fractions import Fraction

from py2lean import Unsupported, find_function

FILE = "ground_heat_exchangers.py"


def _const(node):
    """Numeric literal (optionally with unary minus) -> python number, else None."""
    if isinstance(node, ast.Constant) and isinstance(node.value, (int, float)) and not isinstance(node.value, bool):
        return node.value
    if isinstance(node, ast.UnaryOp) and isinstance(node.op, ast.USub):
        v = _const(node.operand)
        return None if v is None else -v
    return None


def _match(node, tmpl, caps):
    """Structural equality of `node` with `tmpl`; template names `_C<k>` capture numeric literals."""
    if isinstance(tmpl, ast.Name) and tmpl.id.startswith("_C"):
        v = _const(node)
        if v is None:
            return False
        caps[tmpl.id] = v
        return True
    if type(node) is not type(tmpl):
        return False
    for f in tmpl._fields:
        if f in ("ctx", "lineno", "col_offset", "end_lineno", "end_col_offset", "kind", "type_comment"):
            continue
        a, b = getattr(node, f, None), getattr(tmpl, f, None)
        if isinstance(b, list):
            if not isinstance(a, list) or len(a) != len(b):
                return False
            if not all(_match(x, y, caps) if isinstance(y, ast.AST) else x == y for x, y in zip(a, b)):
                return False
        elif isinstance(b, ast.AST):
            if not isinstance(a, ast.AST) or not _match(a, b, caps):
                return False
        elif a != b:
            return False
    return True


def _stmts(body):
    """All statements of a body, descending into if/for/else blocks, in source order."""
    for s in body:
        yield s
        for f in ("body", "orelse"):
            sub = getattr(s, f, None)
            if isinstance(sub, list):
                yield from _stmts(sub)


def _find(fn, template, what):
    """The first statement of fn matching the statement template; returns captured constants."""
    tmpl = ast.parse(template).body[0]
    for s in _stmts(fn.body):
        caps = {}
        if _match(s, tmpl, caps):
            return caps
    raise Unsupported(FILE, fn, f"statement `{what}` of {fn.name} no longer has the transcribed shape: {template}")


def _rat(v):
    f = Fraction(str(v)) if isinstance(v, float) else Fraction(v)
    return f"({f.numerator} : Rat)" if f.denominator == 1 else f"(({f.numerator} : Rat) / {f.denominator})"


def _nat(v, fn, what):
    if isinstance(v, float) or v < 0:
        raise Unsupported(FILE, fn, f"{what}: expected a non-negative int literal, found {v!r}")
    return f"({int(v)} : Nat)"


def _int(v, fn, what):
    if isinstance(v, float):
        raise Unsupported(FILE, fn, f"{what}: expected an int literal, found {v!r}")
    return f"({int(v)} : Int)"


def main(write, HEADER, parse, PKG):
    tree = parse(FILE)
    sim = find_function(tree, "GHE.simulate")
    det = find_function(tree, "BaseGHE._simulate_detailed")
    if sim is None or det is None:
        raise Unsupported(FILE, tree, "GHE.simulate / BaseGHE._simulate_detailed not found")
    out = [HEADER.format(src=FILE + " (GHE.simulate, BaseGHE._simulate_detailed)"), "namespace GHEVerif.Gen\n"]

    c = _find(sim, "q_dot = self.hybrid_load.load[_C0:] * _C1", "hybrid load slice and kW->W")
    out.append(f"/-- `self.hybrid_load.load[{c['_C0']}:] * {c['_C1']}` -/")
    out.append(f"def simHybridLoadDrop : Nat := {_nat(c['_C0'], sim, 'load slice')}")
    out.append(f"def simKwToW : Rat := {_rat(c['_C1'])}")
    c = _find(sim, "time_values = self.hybrid_load.hour[_C0:]", "hybrid hour slice")
    out.append(f"def simHybridHourDrop : Nat := {_nat(c['_C0'], sim, 'hour slice')}")
    c = _find(sim, "n_months = self.sim_params.end_month - self.sim_params.start_month + _C0", "n_months")
    out.append(f"def simMonthsPlus : Int := {_int(c['_C0'], sim, 'n_months')}")
    c = _find(sim, "n_hours = int(n_months / _C0 * _C1)", "n_hours")
    out.append(f"/-- `int(n_months / {c['_C0']} * {c['_C1']})` -/")
    out.append(f"def simMonthsPerYear : Rat := {_rat(c['_C0'])}")
    out.append(f"def simHoursPerYear : Rat := {_rat(c['_C1'])}")
    c = _find(sim, "n_years = ceil(n_hours / _C0)", "n_years")
    out.append(f"def simHoursPerYearCeil : Int := {_int(c['_C0'], sim, 'n_years')}")
    # `if len(q_dot) // 8760 < n_years: q_dot = (q_dot * n_years)[:n_hours]  else: n_hours = len(q_dot)`
    tmpl = ast.parse("if len(q_dot) // _C0 < n_years:\n    q_dot = (q_dot * n_years)[:n_hours]\nelse:\n    n_hours = len(q_dot)").body[0]
    caps = {}
    if not any(_match(s, tmpl, caps) for s in _stmts(sim.body)):
        raise Unsupported(FILE, sim, "the load replication `if len(q_dot) // 8760 < n_years` no longer has the transcribed shape")
    out.append(f"def simHoursPerYearDiv : Int := {_int(caps['_C0'], sim, 'replication')}")
    c = _find(sim, "q_dot = _C0 * np.array(q_dot)", "rejection sign")
    out.append(f"/-- `{c['_C0']} * np.array(q_dot)` (extraction loads -> rejection) -/")
    out.append(f"def simHourlySign : Rat := {_rat(c['_C0'])}")
    c = _find(sim, "self.times = np.arange(_C1, n_hours + _C2, _C3)", "hourly time axis")
    out.append(f"/-- `self.times = np.arange({c['_C1']}, n_hours + {c['_C2']}, {c['_C3']})` (rebuilt on every hourly run) -/")
    out.append(f"def simArangeStart : Int := {_int(c['_C1'], sim, 'arange')}")
    out.append(f"def simArangeStopPlus : Int := {_int(c['_C2'], sim, 'arange')}")
    out.append(f"def simArangeStep : Int := {_int(c['_C3'], sim, 'arange')}")
    _find(sim, "t = self.times", "hourly time axis handed on")
    _find(sim, "hp_eft, d_tb = self._simulate_detailed(q_dot, t, g)", "hourly call")
    _find(sim, "hp_eft, d_tb = self._simulate_detailed(q_dot, time_values, g)", "hybrid call")
    _find(sim, "return max(hp_eft), min(hp_eft)", "returned pair")

    c = _find(det, "q_dot_b = np.hstack((_C0, q_dot / float(self.nbh)))", "per-borehole load with leading zero")
    out.append(f"def detLoadPrepend : Rat := {_rat(c['_C0'])}")
    c = _find(det, "time_values = np.hstack((_C0, time_values))", "time axis with leading zero")
    out.append(f"def detTimePrepend : Rat := {_rat(c['_C0'])}")
    c = _find(det, "q_dot_b_dt = np.hstack(q_dot_b[_C0:] - q_dot_b[:_C1])", "load differences")
    out.append(f"def detDiffLo : Int := {_int(c['_C0'], det, 'diff')}")
    out.append(f"def detDiffHi : Int := {_int(c['_C1'], det, 'diff')}")
    tmpl = ast.parse("for i in range(_C0, n + _C1):\n    pass").body[0]
    caps = {}
    ok = False
    for s in _stmts(det.body):
        if isinstance(s, ast.For) and _match(s.iter, tmpl.iter, caps) and _match(s.target, tmpl.target, caps):
            ok = True
            break
    if not ok:
        raise Unsupported(FILE, det, "`for i in range(1, n + 1)` no longer has the transcribed shape")
    out.append(f"def detLoopStart : Int := {_int(caps['_C0'], det, 'loop')}")
    out.append(f"def detLoopStopPlus : Int := {_int(caps['_C1'], det, 'loop')}")
    _find(det, "_time = time_values[i] - time_values[0:i]", "lags")
    _find(det, "g_values = g(np.log((_time * SEC_IN_HR) / ts))", "g of log time")
    _find(det, "delta_tb_i = (q_dot_b_dt[0:i] / h / two_pi_k).dot(g_values)", "superposition dot product")
    _find(det, "tb = tg + delta_tb_i", "borehole wall temperature")
    _find(det, "tf_bulk = tb + q_dot_b[i] / h * rb", "bulk fluid temperature")
    c = _find(det, "tf_out = tf_bulk - q_dot_b[i] / (_C0 * m_dot * cp)", "outlet temperature")
    out.append(f"/-- `tf_bulk - q_dot_b[i] / ({c['_C0']} * m_dot * cp)` -/")
    out.append(f"def detOutletFactor : Rat := {_rat(c['_C0'])}")
    _find(det, "two_pi_k = TWO_PI * self.bhe.soil.k", "2 pi k")
    _find(det, "hp_eft.append(tf_out)", "result list")
    _find(det, "delta_tb.append(delta_tb_i)", "result list")
    out.append("\nend GHEVerif.Gen\n")
    write("SimConsts.lean", "\n".join(out))
