"""Canonical form of a Python function, used to recognise HARMLESS rewrites of the source.

The translator plug-ins (`gen_*.py`) were written against the source as it was when the model was
built; a copy of that source is kept in `translate/expected_src/`.  `gen.parse` compares, function by
function, the canonical form of the current source with the canonical form of the expected one.
When they are equal the plug-ins are handed the expected function (whose shape they know) in place
of the rewritten one; when they differ the plug-ins see the current function and either translate
it or report `translator-unsupported`, exactly as before.  So the canonicalisation can only make a
plug-in accept a function — it must therefore identify two functions only when they compute the
same thing, and every rule below is restricted to what is semantics-preserving for arbitrary
Python values:

  * docstrings, annotations (`x: T = e` -> `x = e`), `pass` in a non-empty block and `else: pass`
    are dropped;
  * `T = []` directly followed by `for t in it: T.append(e)` (T not mentioned in `it`/`e`) is
    `T = [e for t in it]`; `T.extend(e for t in it)` / `T.extend([e for t in it])` as a statement is
    the `for`/`append` loop;
  * a local assigned once, `x = e`, and read once, in the statement that directly follows in the
    same block, is inlined when moving the evaluation of `e` to the place of the read cannot be
    observed: the read is evaluated unconditionally and exactly once by that statement (not in a
    `while` test, a loop body, the right operand of `and`/`or`, a conditional expression branch, a
    comprehension or a lambda), and nothing with an effect is evaluated between (if `e` contains a
    call: nothing but constants and the callee expression of the enclosing calls; otherwise: no
    completed call);
  * a local assigned once to a constant expression (numbers combined by + - * and unary minus) or
    to another such local / a parameter that is never re-assigned (a plain alias) is inlined
    everywhere (hoisted constants, renamed aliases);
  * parameters (except `self`/`cls`), locals, nested function names, comprehension and loop
    variables are renamed v0, v1, ... in order of first appearance.

Names declared `global`/`nonlocal`, names also used inside a nested function or lambda, and
functions using `locals()`/`vars()`/`exec`/`eval` are never touched.
"""
from __future__ import annotations

import ast
import copy


class _Bail(Exception):
    pass


# ----------------------------------------------------------------------------- helpers
def _names(node, ctx=None):
    return [n for n in ast.walk(node) if isinstance(n, ast.Name) and (ctx is None or isinstance(n.ctx, ctx))]


def _has_call(node):
    return any(isinstance(n, (ast.Call, ast.Await, ast.Yield, ast.YieldFrom, ast.NamedExpr)) for n in ast.walk(node))


def _nested_scopes(fn):
    out = []
    for n in ast.walk(fn):
        if n is not fn and isinstance(n, (ast.FunctionDef, ast.AsyncFunctionDef, ast.Lambda, ast.ClassDef)):
            out.append(n)
    return out


def _blocks(node):
    """Every statement list under `node` (not descending into nested function/class definitions)."""
    for field in ("body", "orelse", "finalbody"):
        b = getattr(node, field, None)
        if isinstance(b, list) and b and isinstance(b[0], ast.stmt):
            yield b
            for s in b:
                if not isinstance(s, (ast.FunctionDef, ast.AsyncFunctionDef, ast.ClassDef)):
                    yield from _blocks(s)
    for h in getattr(node, "handlers", []) or []:
        yield from _blocks(h)


# ----------------------------------------------------------------------------- step 1: noise
def _strip_noise(fn):
    for n in ast.walk(fn):
        if isinstance(n, (ast.FunctionDef, ast.AsyncFunctionDef)):
            n.returns = None
            n.type_comment = None
            for a in n.args.posonlyargs + n.args.args + n.args.kwonlyargs + [x for x in (n.args.vararg, n.args.kwarg) if x]:
                a.annotation = None
            if n.body and isinstance(n.body[0], ast.Expr) and isinstance(n.body[0].value, ast.Constant) and isinstance(n.body[0].value.value, str) \
                    and len(n.body) > 1:
                n.body = n.body[1:]
    for owner in ast.walk(fn):
        for field in ("body", "orelse", "finalbody"):
            b = getattr(owner, field, None)
            if not (isinstance(b, list) and b and isinstance(b[0], ast.stmt)):
                continue
            new = []
            for s in b:
                if isinstance(s, ast.AnnAssign):
                    if s.value is None:
                        continue
                    s = ast.Assign(targets=[s.target], value=s.value)
                new.append(s)
            if len(new) > 1:
                new = [s for s in new if not isinstance(s, ast.Pass)] or [ast.Pass()]
            if field == "orelse" and all(isinstance(s, ast.Pass) for s in new):
                new = []
            setattr(owner, field, new)


def _terminates(block):
    return bool(block) and isinstance(block[-1], (ast.Return, ast.Raise, ast.Continue, ast.Break))


def _flatten_else(fn):
    """`if c: ...; return/raise/continue/break  else: REST`  ==  `if c: ...; return`  followed by REST;
    `x in [a, b]` == `x in (a, b)`."""
    for n in ast.walk(fn):
        if isinstance(n, ast.Compare):
            for k, (op, c) in enumerate(zip(n.ops, n.comparators)):
                if isinstance(op, (ast.In, ast.NotIn)) and isinstance(c, ast.List) and isinstance(c.ctx, ast.Load):
                    n.comparators[k] = ast.Tuple(elts=c.elts, ctx=ast.Load())
    changed = True
    while changed:
        changed = False
        for block in list(_blocks(fn)):
            for i, st in enumerate(block):
                if isinstance(st, ast.If) and st.orelse and _terminates(st.body):
                    rest = st.orelse
                    st.orelse = []
                    block[i + 1:i + 1] = rest
                    changed = True
                    break
            if changed:
                break


# ----------------------------------------------------------------------------- step 2: loops and comprehensions
def _single_gen(node):
    """(elt, target, iter) of `[elt for target in iter]` / generator with one `for`, no `if`, not async."""
    if isinstance(node, (ast.ListComp, ast.GeneratorExp)) and len(node.generators) == 1:
        g = node.generators[0]
        if not g.ifs and not g.is_async:
            return node.elt, g.target, g.iter
    return None


def _norm_loops(fn):
    for block in list(_blocks(fn)):
        # T.extend(<single generator>)  ->  for t in it: T.append(e)
        for i, s in enumerate(block):
            if isinstance(s, ast.Expr) and isinstance(s.value, ast.Call) and isinstance(s.value.func, ast.Attribute) \
                    and s.value.func.attr == "extend" and isinstance(s.value.func.value, ast.Name) \
                    and len(s.value.args) == 1 and not s.value.keywords:
                g = _single_gen(s.value.args[0])
                if g is not None:
                    elt, tgt, it = g
                    t = s.value.func.value.id
                    if all(n.id != t for n in _names(elt) + _names(it) + _names(tgt)):
                        call = ast.Call(func=ast.Attribute(value=ast.Name(id=t, ctx=ast.Load()), attr="append", ctx=ast.Load()), args=[elt], keywords=[])
                        block[i] = ast.For(target=tgt, iter=it, body=[ast.Expr(value=call)], orelse=[])
        # T = [] ; for t in it: T.append(e)   ->   T = [e for t in it]
        i = 0
        while i + 1 < len(block):
            a, b = block[i], block[i + 1]
            if isinstance(a, ast.Assign) and len(a.targets) == 1 and isinstance(a.targets[0], ast.Name) \
                    and isinstance(a.value, ast.List) and not a.value.elts \
                    and isinstance(b, ast.For) and not b.orelse and len(b.body) == 1 and isinstance(b.body[0], ast.Expr) \
                    and isinstance(b.body[0].value, ast.Call) and isinstance(b.body[0].value.func, ast.Attribute) \
                    and b.body[0].value.func.attr == "append" and isinstance(b.body[0].value.func.value, ast.Name) \
                    and b.body[0].value.func.value.id == a.targets[0].id and len(b.body[0].value.args) == 1 and not b.body[0].value.keywords:
                t = a.targets[0].id
                elt = b.body[0].value.args[0]
                if all(n.id != t for n in _names(elt) + _names(b.iter) + _names(b.target)):
                    comp = ast.ListComp(elt=elt, generators=[ast.comprehension(target=b.target, iter=b.iter, ifs=[], is_async=0)])
                    block[i] = ast.Assign(targets=[ast.Name(id=t, ctx=ast.Store())], value=comp)
                    del block[i + 1]
                    continue
            i += 1


# ----------------------------------------------------------------------------- step 3: temporaries
def _eval_order(node):
    """Sub-expressions of an expression in evaluation order, as (node, phase): phase 'pre' for an
    operand about to be evaluated unconditionally; raises _Bail where evaluation becomes conditional
    or repeated."""
    if isinstance(node, (ast.Constant, ast.Name)):
        yield node
    elif isinstance(node, ast.Attribute):
        yield from _eval_order(node.value)
        yield node
    elif isinstance(node, ast.Subscript):
        yield from _eval_order(node.value)
        yield from _eval_order(node.slice)
        yield node
    elif isinstance(node, ast.Slice):
        for p in (node.lower, node.upper, node.step):
            if p is not None:
                yield from _eval_order(p)
    elif isinstance(node, ast.BinOp):
        yield from _eval_order(node.left)
        yield from _eval_order(node.right)
        yield node
    elif isinstance(node, ast.UnaryOp):
        yield from _eval_order(node.operand)
        yield node
    elif isinstance(node, ast.Compare) and len(node.comparators) == 1:
        yield from _eval_order(node.left)
        yield from _eval_order(node.comparators[0])
        yield node
    elif isinstance(node, ast.BoolOp):
        yield from _eval_order(node.values[0])
        yield _Stop
    elif isinstance(node, ast.IfExp):
        yield from _eval_order(node.test)
        yield _Stop
    elif isinstance(node, ast.Call):
        yield ("callee", node.func)
        yield from _eval_order(node.func)
        for a in node.args:
            if isinstance(a, ast.Starred):
                yield from _eval_order(a.value)
            else:
                yield from _eval_order(a)
        for k in node.keywords:
            yield from _eval_order(k.value)
        yield node
    elif isinstance(node, (ast.Tuple, ast.List, ast.Set)):
        for e in node.elts:
            if isinstance(e, ast.Starred):
                yield from _eval_order(e.value)
            else:
                yield from _eval_order(e)
        yield node
    elif isinstance(node, ast.JoinedStr):
        for v in node.values:
            if isinstance(v, ast.FormattedValue):
                yield from _eval_order(v.value)
                if v.format_spec is not None:
                    yield _Stop
        yield node
    else:
        yield _Stop


class _StopType:
    pass


_Stop = _StopType()


def _stmt_head(s):
    """The expression(s) a statement evaluates exactly once and unconditionally, in order."""
    if isinstance(s, (ast.Return, ast.Expr)):
        return [s.value] if s.value is not None else []
    if isinstance(s, ast.Assign):
        out = [s.value]
        for t in s.targets:
            if isinstance(t, ast.Attribute):
                out.append(t.value)
            elif isinstance(t, ast.Subscript):
                out += [t.value, t.slice]
            elif not isinstance(t, (ast.Name, ast.Tuple, ast.List)):
                return None
        return out
    if isinstance(s, ast.If):
        return [s.test]
    if isinstance(s, ast.For):
        return [s.iter]
    if isinstance(s, ast.Raise) and s.exc is not None and s.cause is None:
        return [s.exc]
    return None


def _may_move_to(e, stmt, x):
    """May the evaluation of `e` (bound to `x` in the preceding statement) be moved to the single
    read of `x` in `stmt`?"""
    heads = _stmt_head(stmt)
    if heads is None:
        return False
    e_calls = _has_call(e)
    callee_nodes = set()
    for h in heads:
        for item in _eval_order(h):
            if item is _Stop:
                return False
            if isinstance(item, tuple):
                # the callee expression of a call: its loads are allowed before x (looking a function up has no effect)
                for n in ast.walk(item[1]):
                    callee_nodes.add(id(n))
                continue
            if isinstance(item, ast.Name) and item.id == x and isinstance(item.ctx, ast.Load):
                return True
            if isinstance(item, ast.Constant):
                continue
            if isinstance(item, ast.Call):
                return False                       # a call completes before x is read
            if e_calls:
                if id(item) in callee_nodes and isinstance(item, (ast.Name, ast.Attribute)):
                    continue
                return False                       # something is read before x and e has effects
            # e is call-free: other reads and pure operators before x are unobservable
    return False


def _only_pure_after(st, x):
    """A statement with calls is acceptable for rule (c) only as the LAST reader of x, when every read
    of x in it is evaluated before any call completes (then nothing ran between binding and read)."""
    return False


def _is_const_expr(e):
    if isinstance(e, ast.Constant):
        return isinstance(e.value, (int, float)) and not isinstance(e.value, bool)
    if isinstance(e, ast.UnaryOp) and isinstance(e.op, (ast.USub, ast.UAdd)):
        return _is_const_expr(e.operand)
    if isinstance(e, ast.BinOp) and isinstance(e.op, (ast.Add, ast.Sub, ast.Mult)):
        return _is_const_expr(e.left) and _is_const_expr(e.right)
    return False


class _Subst(ast.NodeTransformer):
    def __init__(self, x, e):
        self.x, self.e, self.n = x, e, 0

    def visit_Name(self, node):
        if node.id == self.x and isinstance(node.ctx, ast.Load):
            self.n += 1
            return copy.deepcopy(self.e)
        return node


def _inline_temps(fn):
    params = {a.arg for a in fn.args.posonlyargs + fn.args.args + fn.args.kwonlyargs}
    for extra in (fn.args.vararg, fn.args.kwarg):
        if extra:
            params.add(extra.arg)
    frozen = set()
    for n in ast.walk(fn):
        if isinstance(n, (ast.Global, ast.Nonlocal)):
            frozen |= set(n.names)
    for sc in _nested_scopes(fn):
        frozen |= {n.id for n in _names(sc)}
        if isinstance(sc, (ast.FunctionDef, ast.AsyncFunctionDef)):
            frozen.add(sc.name)
    changed = True
    while changed:
        changed = False
        stores, loads = {}, {}
        for n in _names(fn):
            (stores if isinstance(n.ctx, (ast.Store, ast.Del)) else loads).setdefault(n.id, []).append(n)
        for block in _blocks(fn):
            for i, s in enumerate(block):
                if not (isinstance(s, ast.Assign) and len(s.targets) == 1 and isinstance(s.targets[0], ast.Name)):
                    continue
                x, e = s.targets[0].id, s.value
                if x in frozen or x in params or len(stores.get(x, [])) != 1 or any(n.id == x for n in _names(e)):
                    continue
                n_loads = len(loads.get(x, []))
                # (b) constants and aliases: everywhere
                alias = isinstance(e, ast.Name) and e.id not in frozen and (
                    (e.id in params and e.id not in stores) or (e.id not in params and len(stores.get(e.id, [])) == 1 and e.id not in ("self", "cls")))
                if _is_const_expr(e) or alias:
                    # an alias must be defined before every use: only when all uses follow in this block or below it
                    rest = block[i + 1:]
                    in_rest = sum(1 for st in rest for n in _names(st, ast.Load) if n.id == x)
                    if in_rest == n_loads:
                        sub = _Subst(x, e)
                        for j in range(i + 1, len(block)):
                            block[j] = sub.visit(block[j])
                        del block[i]
                        changed = True
                        break
                    continue
                # (c) a call-free read (names, attributes, subscripts, arithmetic) shared by the following
                # straight-line statements, none of which calls anything or stores into an object
                # or re-binds a name `e` mentions: nothing can change what `e` reads in between
                if n_loads >= 1 and not _has_call(e):
                    e_names = {n.id for n in _names(e)}
                    j, seen = i + 1, 0
                    ok = True
                    while j < len(block) and seen < n_loads:
                        st = block[j]
                        if not isinstance(st, (ast.Assign, ast.Return, ast.Expr)) or _has_call(st) and not _only_pure_after(st, x):
                            ok = False
                            break
                        if isinstance(st, ast.Assign) and any(not isinstance(t, ast.Name) or t.id in e_names for t in st.targets):
                            ok = False
                            break
                        seen += sum(1 for n in _names(st, ast.Load) if n.id == x)
                        j += 1
                    if ok and seen == n_loads:
                        sub = _Subst(x, e)
                        for k2 in range(i + 1, j):
                            block[k2] = sub.visit(block[k2])
                        del block[i]
                        changed = True
                        break
                # (a) read once, in the next statement
                if n_loads == 1 and i + 1 < len(block):
                    nxt = block[i + 1]
                    heads = _stmt_head(nxt) or []
                    if sum(1 for h in heads for n in _names(h, ast.Load) if n.id == x) == 1 and _may_move_to(e, nxt, x):
                        sub = _Subst(x, e)
                        if isinstance(nxt, ast.If):
                            nxt.test = sub.visit(nxt.test)
                        elif isinstance(nxt, ast.For):
                            nxt.iter = sub.visit(nxt.iter)
                        else:
                            block[i + 1] = sub.visit(nxt)
                        del block[i]
                        changed = True
                        break
            if changed:
                break


# ----------------------------------------------------------------------------- step 4: names
def _alpha(fn):
    frozen = {"self", "cls"}
    for n in ast.walk(fn):
        if isinstance(n, (ast.Global, ast.Nonlocal)):
            frozen |= set(n.names)
    names = {}

    def bind(n):
        if n not in frozen and n not in names:
            names[n] = f"v{len(names)}"

    class Collect(ast.NodeVisitor):
        def visit_FunctionDef(self, node):
            if node is not fn:
                bind(node.name)
            for a in node.args.posonlyargs + node.args.args + node.args.kwonlyargs + [x for x in (node.args.vararg, node.args.kwarg) if x]:
                bind(a.arg)
            self.generic_visit(node)

        def visit_Lambda(self, node):
            for a in node.args.posonlyargs + node.args.args + node.args.kwonlyargs:
                bind(a.arg)
            self.generic_visit(node)

        def visit_Name(self, node):
            if isinstance(node.ctx, (ast.Store, ast.Del)):
                bind(node.id)

        def visit_ExceptHandler(self, node):
            if node.name:
                bind(node.name)
            self.generic_visit(node)

    Collect().visit(fn)

    class Rename(ast.NodeTransformer):
        def visit_FunctionDef(self, node):
            if node is not fn:
                node.name = names.get(node.name, node.name)
            for a in node.args.posonlyargs + node.args.args + node.args.kwonlyargs + [x for x in (node.args.vararg, node.args.kwarg) if x]:
                a.arg = names.get(a.arg, a.arg)
            self.generic_visit(node)
            return node

        def visit_Lambda(self, node):
            for a in node.args.posonlyargs + node.args.args + node.args.kwonlyargs:
                a.arg = names.get(a.arg, a.arg)
            self.generic_visit(node)
            return node

        def visit_Name(self, node):
            node.id = names.get(node.id, node.id)
            return node

        def visit_ExceptHandler(self, node):
            if node.name:
                node.name = names.get(node.name, node.name)
            self.generic_visit(node)
            return node

        def visit_Call(self, node):
            # keyword arguments of calls to a renamed NESTED function follow its parameters; other keywords are untouched
            self.generic_visit(node)
            return node

    Rename().visit(fn)


# ----------------------------------------------------------------------------- entry points
_DYNAMIC = {"locals", "vars", "exec", "eval", "globals", "setattr", "delattr"}


def canon(fn) -> str:
    """Canonical dump of a FunctionDef (the function's own name and its decorators are kept)."""
    fn = copy.deepcopy(fn)
    if any(isinstance(n, ast.Name) and n.id in _DYNAMIC for n in ast.walk(fn)):
        return ast.dump(fn)
    # keyword calls to nested functions would have to follow the renaming: keep such functions as they are
    nested = {n.name for n in _nested_scopes(fn) if isinstance(n, (ast.FunctionDef, ast.AsyncFunctionDef))}
    for n in ast.walk(fn):
        if isinstance(n, ast.Call) and isinstance(n.func, ast.Name) and n.func.id in nested and n.keywords:
            return ast.dump(fn)
    _strip_noise(fn)
    _flatten_else(fn)
    for sc in _nested_scopes(fn):
        if isinstance(sc, (ast.FunctionDef, ast.AsyncFunctionDef)):
            _flatten_else(sc)
    try:
        # to a fixpoint: a loop body reduced to a single append by the inlining is a comprehension, and
        # a comprehension bound to a name that is returned at once is a temporary
        for _ in range(6):
            before = ast.dump(fn)
            _norm_loops(fn)
            _inline_temps(fn)
            # nested functions are scopes of their own: their single-assignment locals get the same treatment
            for sc in _nested_scopes(fn):
                if isinstance(sc, (ast.FunctionDef, ast.AsyncFunctionDef)):
                    _norm_loops(sc)
                    _inline_temps(sc)
            if ast.dump(fn) == before:
                break
    except _Bail:
        pass
    _alpha(fn)
    return ast.dump(ast.fix_missing_locations(fn))


def functions(tree):
    """{qualified name: FunctionDef} for module-level functions and methods of module-level classes."""
    out = {}
    for n in tree.body:
        if isinstance(n, (ast.FunctionDef, ast.AsyncFunctionDef)):
            out[n.name] = (tree.body, n)
        elif isinstance(n, ast.ClassDef):
            for m in n.body:
                if isinstance(m, (ast.FunctionDef, ast.AsyncFunctionDef)):
                    out[f"{n.name}.{m.name}"] = (n.body, m)
    return out


def stabilise(current_tree, expected_tree):
    """Replace, in `current_tree`, every function that is canonically equal to (but textually different
    from) the function of the same qualified name in `expected_tree` by the expected one.  Returns the
    list of qualified names that were replaced."""
    cur, exp = functions(current_tree), functions(expected_tree)
    replaced = []
    for name, (owner, node) in cur.items():
        if name not in exp:
            continue
        e_node = exp[name][1]
        if ast.dump(node) == ast.dump(e_node):
            continue
        try:
            same = canon(node) == canon(e_node)
        except RecursionError:
            same = False
        if same:
            owner[owner.index(node)] = e_node
            replaced.append(name)
    return replaced


# ----------------------------------------------------------------------------- self-test (run by gen.py on every regeneration)
_SAME = [
    ("def f(self, a):\n    t = self.g(a)\n    return t\n", "def f(self, b):\n    '''doc'''\n    return self.g(b)\n"),
    ("def f(a):\n    out = []\n    for x in a:\n        out.append(x * 2)\n    return out\n", "def f(a):\n    return [y * 2 for y in a]\n"),
    ("def f(a):\n    n = 12\n    for i in a:\n        k = i * n\n        print(k)\n", "def f(a):\n    for j in a:\n        m = 12\n        k = j * m\n        print(k)\n"),
    ("def f(q, i, h):\n    u = q[i] / h\n    v = q[i] * 2\n    return u + v\n", "def f(q, i, h):\n    s = q[i]\n    u = s / h\n    v = s * 2\n    return u + v\n"),
    ("def f(self, rows):\n    t = [['h']]\n    for r in rows:\n        t.append([r])\n    return t\n", "def f(self, rows):\n    t = [['h']]\n    t.extend([r] for r in rows)\n    return t\n"),
    ("def f(x: int) -> int:\n    y: int = x + 1\n    return y\n", "def f(x):\n    return x + 1\n"),
    ("def f(self, n):\n    out = []\n    for i in range(n):\n        g = self.t[i]\n        v = g(1).tolist()\n        out.append(v)\n    return out\n",
     "def f(self, n):\n    return [self.t[i](1).tolist() for i in range(n)]\n"),
    ("def f(t):\n    if t == 1:\n        return 'a'\n    elif t == 2:\n        return 'b'\n    else:\n        raise TypeError('x')\n",
     "def f(t):\n    if t == 1:\n        return 'a'\n    if t == 2:\n        return 'b'\n    raise TypeError('x')\n"),
    ("def f(self):\n    if self.k in [A.x, A.y]:\n        return 1\n    return 0\n", "def f(self):\n    kinds = (A.x, A.y)\n    if self.k in kinds:\n        return 1\n    return 0\n"),
]
_DIFFERENT = [
    ("def f(self):\n    x = self.g()\n    y = self.a + x\n    return y\n", "def f(self):\n    y = self.a + self.g()\n    return y\n"),
    ("def f(a, i):\n    x = a[i]\n    a[i] = 0\n    return x\n", "def f(a, i):\n    a[i] = 0\n    return a[i]\n"),
    ("def f(self):\n    x = self.n\n    while x:\n        self.step()\n", "def f(self):\n    while self.n:\n        self.step()\n"),
    ("def f(a, b):\n    x = b()\n    return a() and x\n", "def f(a, b):\n    return a() and b()\n"),
    ("def f(a, b):\n    return a - b\n", "def f(a, b):\n    return b - a\n"),
    ("def f(a):\n    return a * 0.5\n", "def f(a):\n    return a * 0.25\n"),
    ("def f(self, a):\n    x = self.g(a)\n    self.h()\n    return x\n", "def f(self, a):\n    self.h()\n    return self.g(a)\n"),
    ("def f(q, i):\n    s = q[i]\n    q.pop()\n    return s + q[i]\n", "def f(q, i):\n    q.pop()\n    return q[i] + q[i]\n"),
    ("def f(a, k=1):\n    return a + k\n", "def f(a, k=2):\n    return a + k\n"),
    ("def f(a):\n    t = []\n    for x in a:\n        t.append(x)\n        t.append(x)\n    return t\n", "def f(a):\n    return [x for x in a]\n"),
    ("def f(a, b):\n    x = a / b\n    if b:\n        return x\n    return 0\n", "def f(a, b):\n    if b:\n        return a / b\n    return 0\n"),
    ("def f(t):\n    if t == 1:\n        r = 'a'\n    else:\n        r = 'b'\n    return r\n", "def f(t):\n    if t == 1:\n        r = 'a'\n    r = 'b'\n    return r\n"),
]


def selftest():
    for a, b in _SAME:
        fa, fb = ast.parse(a).body[0], ast.parse(b).body[0]
        assert canon(fa) == canon(fb), ("canon.py self-test: should be identified", a, b)
    for a, b in _DIFFERENT:
        fa, fb = ast.parse(a).body[0], ast.parse(b).body[0]
        assert canon(fa) != canon(fb), ("canon.py self-test: must NOT be identified", a, b)
    return len(_SAME) + len(_DIFFERENT)
