"""Plug-in of translate/gen.py for C11 (combined g-function).

Reads the *current* source of `BaseGHE.combine_sts_lts`, `GFunction.g_function_interpolation` and
`GFunction.borehole_radius_correction` and writes `lean/GHEVerif/Gen/GJoinConsts.lean`:

* the two comparison operators of `combine_sts_lts` (`max_sts < min_lts` selects plain
  concatenation, `while value <= min_lts` scans) — the model (Model/GJoin.lean) evaluates *these*,
  so a flipped/loosened comparison changes the model and breaks `join_strictly_increasing`;
* `tolerance`, `close_tolerance` as the exact rational value of the double the code compares with;
* the `default` ladder (>= 5 cubic, >= 3 quadratic, == 2 linear) and the `interpolation_kinds`
  table (curves required per kind).

Statements the hand-written model transcribes literally (slices, concatenations, the corrected
value `g - log(rb_star / rb)`, `curves_by_kind`, the h_eq formula, the snapping order) are compared
with their expected text; if one no longer matches the translator stops with
`translator-unsupported: <file>:<line>` (reported as a broken correspondence, never skipped).
"""
from __future__ import annotations

import ast
from fractions import Fraction

from py2lean import Unsupported, find_function

OPS = {ast.Lt: "lt", ast.LtE: "le", ast.Gt: "gt", ast.GtE: "ge", ast.Eq: "eq", ast.NotEq: "ne"}


def _stmts(body):
    for s in body:
        yield s
        for f in ("body", "orelse"):
            sub = getattr(s, f, None)
            if isinstance(sub, list):
                yield from _stmts(sub)


_DEFERRED: list = []


def _need_text(file, fn, texts):
    """Literal statements the hand-written model transcribes; a mismatch is recorded and raised after
    the constants file has been written (so that no stale file of an earlier source survives)."""
    have = set()
    for s in _stmts(fn.body):
        if isinstance(s, (ast.If, ast.While, ast.For)):
            continue
        have.add(ast.unparse(s))
    for t in texts:
        if ast.unparse(ast.parse(t).body[0]) not in have:
            _DEFERRED.append(Unsupported(file, fn, f"statement `{t}` of {fn.name} no longer present as transcribed"))


def _cmp(file, node, left, right):
    """`left <op> right` -> op name."""
    if not (isinstance(node, ast.Compare) and len(node.ops) == 1 and ast.unparse(node.left) == left
            and ast.unparse(node.comparators[0]) == right and type(node.ops[0]) in OPS):
        raise Unsupported(file, node, f"comparison `{left} ? {right}` changed shape: {ast.unparse(node)}")
    return OPS[type(node.ops[0])]


def _exact(v):
    f = Fraction(float(v))
    return f"(({f.numerator} : Rat) / {f.denominator})"


def main(write, HEADER, parse, PKG):
    _DEFERRED.clear()
    out = [HEADER.format(src="ground_heat_exchangers.py (combine_sts_lts), gfunction.py (g_function_interpolation, borehole_radius_correction)"),
           "namespace GHEVerif.Gen.GJoinConsts\n",
           "inductive CmpOp where\n  | lt | le | gt | ge | eq | ne\n  deriving Repr, DecidableEq, Inhabited\n",
           "def CmpOp.eval : CmpOp → Rat → Rat → Bool\n  | .lt, a, b => decide (a < b)\n  | .le, a, b => decide (a ≤ b)\n"
           "  | .gt, a, b => decide (b < a)\n  | .ge, a, b => decide (b ≤ a)\n  | .eq, a, b => decide (a = b)\n  | .ne, a, b => decide (a ≠ b)\n"]

    # ------------------------------------------------------------------ combine_sts_lts
    f1 = "ground_heat_exchangers.py"
    t1 = parse(f1)
    fn = find_function(t1, "BaseGHE.combine_sts_lts")
    if fn is None:
        raise Unsupported(f1, t1, "BaseGHE.combine_sts_lts not found")
    if [a.arg for a in fn.args.args] != ["log_time_lts", "g_lts", "log_time_sts", "g_sts"]:
        raise Unsupported(f1, fn, "signature of combine_sts_lts changed")
    _need_text(f1, fn, [
        "max_log_time_sts = max(log_time_sts)", "min_log_time_lts = min(log_time_lts)",
        "log_time = log_time_sts + log_time_lts", "g = g_sts + g_lts",
        "i = 0", "value = log_time_sts[i]", "i += 1",
        "log_time = log_time_sts[0:i] + log_time_lts", "g = g_sts[0:i] + g_lts",
        "g = interp1d(log_time, g)", "return g",
    ])
    ifs = [s for s in _stmts(fn.body) if isinstance(s, ast.If)]
    whiles = [s for s in _stmts(fn.body) if isinstance(s, ast.While)]
    if len(ifs) != 1 or len(whiles) != 1 or whiles[0] not in ifs[0].orelse:
        raise Unsupported(f1, fn, "control structure of combine_sts_lts changed")
    if [ast.unparse(s) for s in whiles[0].body] != ["i += 1", "value = log_time_sts[i]"]:
        raise Unsupported(f1, whiles[0], "scan loop body changed")
    out.append(f"/-- `if max_log_time_sts <op> min_log_time_lts:` plain concatenation (line {ifs[0].lineno}). -/")
    out.append(f"def branchOp : CmpOp := .{_cmp(f1, ifs[0].test, 'max_log_time_sts', 'min_log_time_lts')}")
    out.append(f"/-- `while value <op> min_log_time_lts:` (line {whiles[0].lineno}). -/")
    out.append(f"def scanOp : CmpOp := .{_cmp(f1, whiles[0].test, 'value', 'min_log_time_lts')}")

    # ------------------------------------------------------------------ g_function_interpolation
    f2 = "gfunction.py"
    t2 = parse(f2)
    fn = find_function(t2, "GFunction.g_function_interpolation")
    if fn is None:
        raise Unsupported(f2, t2, "GFunction.g_function_interpolation not found")
    _need_text(f2, fn, [
        "h_eq = 1 / b_over_h * self.B",
        "height_values = list(self.g_lts.keys())",
        "h_eq = max(height_values)", "h_eq = min(height_values)",
        "fill_value = ''", "fill_value = 'extrapolate'",
        "num_curves = len(height_values)",
        "g_function = self.g_lts[height_values[0]]", "rb = self.r_b_values[height_values[0]]",
        "return (g_function, rb, self.d, h_eq)",
        "curves_by_kind = {2: 'linear', 3: 'quadratic', 4: 'cubic'}",
        "required_curves = interpolation_kinds[kind]", "kind = curves_by_kind[len(height_values)]",
        "f = lagrange(x, y) if kind == 'lagrange' else interp1d(x, y, kind=kind, fill_value=fill_value)",
        "self.interpolation_table = {'built_for': (kind, fill_value)}",
        "rb_value = self.interpolation_table['rb'](h_eq)",
        "g = f(h_eq).tolist()",
        "return (g_function, rb_value, self.d, h_eq)",
    ])
    consts = {}
    for s in _stmts(fn.body):
        if isinstance(s, ast.Assign) and len(s.targets) == 1 and isinstance(s.targets[0], ast.Name):
            name = s.targets[0].id
            if name in ("tolerance", "close_tolerance") and isinstance(s.value, ast.Constant):
                consts[name] = s.value.value
            if name == "interpolation_kinds" and isinstance(s.value, ast.Dict):
                consts[name] = {ast.literal_eval(k): ast.literal_eval(v) for k, v in zip(s.value.keys, s.value.values)}
    for k in ("tolerance", "close_tolerance", "interpolation_kinds"):
        if k not in consts:
            raise Unsupported(f2, fn, f"{k} not found")
    ik = consts["interpolation_kinds"]
    if sorted(ik) != ["cubic", "lagrange", "linear", "quadratic"] or not all(isinstance(v, int) and v >= 0 for v in ik.values()):
        raise Unsupported(f2, fn, "interpolation_kinds changed shape")
    out.append(f"def tolerance : Rat := {_exact(consts['tolerance'])}        -- {consts['tolerance']!r}")
    out.append(f"def closeTolerance : Rat := {_exact(consts['close_tolerance'])}   -- {consts['close_tolerance']!r}")
    for k, lean in (("linear", "reqLinear"), ("quadratic", "reqQuadratic"), ("cubic", "reqCubic"), ("lagrange", "reqLagrange")):
        out.append(f"def {lean} : Nat := {ik[k]}")
    # the default ladder
    top = next((s for s in fn.body if isinstance(s, ast.If) and ast.unparse(s.test) == "kind == 'default'"), None)
    if top is None:
        raise Unsupported(f2, fn, "`if kind == \"default\":` not found")
    chain = next((s for s in top.body if isinstance(s, ast.If)), None)
    ladder = []
    node = chain
    while node is not None and len(ladder) < 3:
        t = node.test
        if not (isinstance(t, ast.Compare) and len(t.ops) == 1 and ast.unparse(t.left) == "num_curves"
                and isinstance(t.comparators[0], ast.Constant) and isinstance(t.comparators[0].value, int)
                and len(node.body) == 1 and isinstance(node.body[0], ast.Assign) and ast.unparse(node.body[0].targets[0]) == "kind"
                and isinstance(node.body[0].value, ast.Constant)):
            raise Unsupported(f2, node, "default ladder changed shape")
        ladder.append((OPS.get(type(t.ops[0])), t.comparators[0].value, node.body[0].value.value))
        node = node.orelse[0] if len(node.orelse) == 1 and isinstance(node.orelse[0], ast.If) else None
    if [(o, k) for o, _, k in ladder] != [("ge", "cubic"), ("ge", "quadratic"), ("eq", "linear")] or node is None:
        raise Unsupported(f2, chain or top, f"default ladder changed: {ladder}")
    if ast.unparse(node.test) != "(h_eq - height_values[0]) / height_values[0] < tolerance or min(height_values) - h_eq < tolerance":
        raise Unsupported(f2, node, "one-curve rule changed")
    out.append(f"def nCubic : Nat := {ladder[0][1]}")
    out.append(f"def nQuadratic : Nat := {ladder[1][1]}")
    out.append(f"def nLinear : Nat := {ladder[2][1]}")
    # snapping and the extrapolation test
    tests = [ast.unparse(s.test) for s in fn.body if isinstance(s, ast.If)]
    want = ["abs(h_eq - max(height_values)) < close_tolerance", "abs(h_eq - min(height_values)) < close_tolerance",
            "min(height_values) <= h_eq <= max(height_values) or abs(min(height_values) - h_eq) < tolerance"]
    if tests[:3] != want:
        raise Unsupported(f2, fn, f"snapping / extrapolation tests changed: {tests[:3]}")
    # the table is rebuilt when it was built for another kind / fill mode (Model: `tableFor`)
    if "len(self.interpolation_table) == 0 or self.interpolation_table.get('built_for') != (kind, fill_value)" not in tests:
        _DEFERRED.append(Unsupported(f2, fn, "the rebuild condition of the interpolation table changed (model: tableFor)"))

    # ------------------------------------------------------------------ borehole_radius_correction
    fn = find_function(t2, "GFunction.borehole_radius_correction")
    if fn is None:
        raise Unsupported(f2, t2, "GFunction.borehole_radius_correction not found")
    _need_text(f2, fn, ["g_function_corrected = []", "g_function_corrected.append(g - log(rb_star / rb))",
                        "return g_function_corrected"])
    imp = [ast.unparse(s) for s in t2.body if isinstance(s, ast.ImportFrom) and s.module == "math"]
    if "from math import log" not in imp:
        raise Unsupported(f2, t2, "`log` is no longer math.log")

    # ------------------------------------------------------------------ grab_g_function
    fn = find_function(t1, "BaseGHE.grab_g_function")
    if fn is None:
        raise Unsupported(f1, t1, "BaseGHE.grab_g_function not found")
    _need_text(f1, fn, [
        "g_function, rb_value, _, _ = self.gFunction.g_function_interpolation(b_over_h)",
        "g_function_corrected = self.gFunction.borehole_radius_correction(g_function, rb_value, self.bhe.b.r_b)",
        "g = self.combine_sts_lts(self.gFunction.log_time, g_function_corrected, self.radial_numerical.lntts.tolist(), self.radial_numerical.g.tolist())",
        "g_bhw = self.combine_sts_lts(self.gFunction.log_time, g_function_corrected, self.radial_numerical.lntts.tolist(), self.radial_numerical.g_bhw.tolist())",
        "return (g, g_bhw)",
    ])
    # ... and nothing else: every call reads the g-function object, the radius and the short-time response
    # afresh (Model: grabGFunction is a function of the present ingredients only; no memo, no early return)
    body = [ast.unparse(st) for st in fn.body if not (isinstance(st, ast.Expr) and isinstance(st.value, ast.Constant))]
    if len(body) != 5 or [a.arg for a in fn.args.args] != ["self", "b_over_h"]:
        _DEFERRED.append(Unsupported(f1, fn, f"grab_g_function is no longer the five transcribed statements ({len(body)} statements): "
                                             "it must read its ingredients on every call"))
    # ------------------------------------------------------------------ compute_g_functions
    fn = find_function(t1, "BaseGHE.compute_g_functions")
    if fn is None:
        raise Unsupported(f1, t1, "BaseGHE.compute_g_functions not found")
    # the refreshed family is a NEW GFunction object (empty interpolation table); nothing of the old one is written to
    _need_text(f1, fn, ["self.gFunction = g_function"])
    for st in _stmts(fn.body):
        if isinstance(st, (ast.Assign, ast.AugAssign)):
            tg = st.targets if isinstance(st, ast.Assign) else [st.target]
            if any(ast.unparse(t).startswith("self.gFunction.") for t in tg):
                _DEFERRED.append(Unsupported(f1, st, "compute_g_functions writes into the existing GFunction object (its interpolation table is keyed by kind and fill mode only)"))
    out.append("\nend GHEVerif.Gen.GJoinConsts\n")
    write("GJoinConsts.lean", "\n".join(out))
    if _DEFERRED:
        raise _DEFERRED[0]
