"""Gen/Report.lean: which live attributes the summary and the bore-field table read (output.py),
and the statement order of GHE.size (ground_heat_exchangers.py), regenerated on every check."""
import ast


def _dict_value_src(fn, key):
    for n in ast.walk(fn):
        if isinstance(n, ast.Dict):
            for k, v in zip(n.keys, n.values):
                if isinstance(k, ast.Constant) and k.value == key:
                    return ast.unparse(v)
    return None


def alpha(fn):
    """Copy of a function with its parameters (except self), local variables and nested function
    names renamed v0, v1, … in order of first appearance, so that the statement pins below survive
    a renaming of locals (a harmless rewrite) but not a change of what is computed."""
    import copy

    fn = copy.deepcopy(fn)
    names = {}

    def bind(n):
        if n != "self" and n not in names:
            names[n] = f"v{len(names)}"

    class Collect(ast.NodeVisitor):
        def visit_FunctionDef(self, node):
            if node is not fn:
                bind(node.name)
            for a in node.args.posonlyargs + node.args.args + node.args.kwonlyargs:
                bind(a.arg)
            self.generic_visit(node)

        def visit_Name(self, node):
            if isinstance(node.ctx, ast.Store):
                bind(node.id)

    Collect().visit(fn)

    class Rename(ast.NodeTransformer):
        def visit_FunctionDef(self, node):
            if node is not fn and node.name in names:
                node.name = names[node.name]
            for a in node.args.posonlyargs + node.args.args + node.args.kwonlyargs:
                a.arg = names.get(a.arg, a.arg)
            self.generic_visit(node)
            return node

        def visit_Name(self, node):
            node.id = names.get(node.id, node.id)
            return node

    return Rename().visit(fn)


def main(write, HEADER, parse, PKG):
    from py2lean import Unsupported, find_function

    out = [HEADER.format(src="output.py, ground_heat_exchangers.py, search_routines.py"), "import GHEVerif.Model.Py\nnamespace GHEVerif.Gen\nopen GHEVerif\n"]
    tree = parse("output.py")
    fn = find_function(tree, "OutputManager.get_summary_object")
    if fn is None:
        raise Unsupported("output.py", tree, "get_summary_object not found")
    for key, lean in (("number_of_boreholes", "summaryNbhExpr"), ("total_drilling", "summaryDrillingExpr"),
                      ("active_borehole_length", "summaryLengthExpr"), ("max_hp_eft", "summaryMaxEftExpr"),
                      ("min_hp_eft", "summaryMinEftExpr")):
        src = _dict_value_src(fn, key)
        if src is None:
            raise Unsupported("output.py", fn, f"summary key {key} not found")
        out.append(f"def {lean} : String := {json_str(src)}")
    # max_eft / min_eft local definitions
    for var, lean in (("max_eft", "summaryMaxEftDef"), ("min_eft", "summaryMinEftDef")):
        src = None
        for n in ast.walk(fn):
            if isinstance(n, ast.Assign) and isinstance(n.targets[0], ast.Name) and n.targets[0].id == var:
                src = ast.unparse(n.value)
        if src is None:
            raise Unsupported("output.py", fn, f"{var} assignment not found")
        out.append(f"def {lean} : String := {json_str(src)}")
    fn2 = find_function(tree, "OutputManager.get_borehole_location_data")
    loop = next((n for n in ast.walk(fn2) if isinstance(n, ast.For)), None)
    if loop is None:
        raise Unsupported("output.py", fn2, "bore-field loop not found")
    out.append(f"def boreRowsIterExpr : String := {json_str(ast.unparse(loop.iter))}")
    out.append(f"def boreRowExpr : String := {json_str(ast.unparse(loop.body[0]))}")
    # the hourly loads table: source of the loads, loop header and the two statements of the loop body
    fn3 = find_function(tree, "OutputManager.get_hourly_loading_data")
    if fn3 is None:
        raise Unsupported("output.py", tree, "get_hourly_loading_data not found")
    fn3 = alpha(fn3)      # design -> v0, hourly_loadings -> v1, csv_array -> v2, hour -> v3, hour_load -> v4, month/day/hour -> v5..v7
    loop3 = next((n for n in fn3.body if isinstance(n, ast.For)), None)
    src3 = next((n for n in fn3.body if isinstance(n, ast.Assign) and isinstance(n.value, ast.Attribute)), None)
    if loop3 is None or src3 is None:
        raise Unsupported("output.py", fn3, "loads-table loop not found")
    out.append(f"def loadingSourceExpr : String := {json_str(ast.unparse(src3))}")
    out.append(f"def loadingLoopExpr : String := {json_str('for ' + ast.unparse(loop3.target) + ' in ' + ast.unparse(loop3.iter))}")
    out.append("def loadingBody : List String := [" + ", ".join(json_str(" ".join(ast.unparse(t).split())) for t in loop3.body) + "]")
    out.append(f"def loadingReturnExpr : String := {json_str(ast.unparse(fn3.body[-1]))}")
    # GHE.size as a list of state-machine operations
    ghx = parse("ground_heat_exchangers.py")
    size = find_function(ghx, "GHE.size")
    if size is None:
        raise Unsupported("ground_heat_exchangers.py", ghx, "GHE.size not found")
    size = alpha(size)          # method -> v0, local_objective -> v1, h -> v2, max_hp_eft -> v3, min_hp_eft -> v4, t_excess -> v5, returned_height -> v6
    norm = lambda s: " ".join(ast.unparse(s).split())  # noqa: E731
    size_map = {
        "self.bhe.b.H = (self.sim_params.max_height + self.sim_params.min_height) / 2.0": "SizeOp.setMid",
        "v6 = solve_root(self.bhe.b.H, v1, lower=self.sim_params.min_height, upper=self.sim_params.max_height, abs_tol=1e-06, rel_tol=1e-06, max_iter=50)": "SizeOp.solve",
        "self.bhe.b.H = v6": "SizeOp.setReturned",
        "self.simulate(method=v0)": "SizeOp.simulate",
    }
    obj_map = {
        "self.bhe.b.H = v2": "ObjOp.setH",
        "v3, v4 = self.simulate(method=v0)": "ObjOp.simulate",
        "v5 = self.cost(v3, v4)": "ObjOp.cost",
        "return v5": "ObjOp.ret",
    }
    ops, oops = [], []
    for s in size.body:
        if isinstance(s, ast.Expr) and isinstance(s.value, ast.Constant):
            continue
        if isinstance(s, ast.FunctionDef):
            for t in s.body:
                k = norm(t)
                if k not in obj_map:
                    raise Unsupported("ground_heat_exchangers.py", t, "statement of local_objective outside the modelled set")
                oops.append(obj_map[k])
            continue
        k = norm(s)
        if k not in size_map:
            raise Unsupported("ground_heat_exchangers.py", s, "statement of GHE.size outside the modelled set")
        ops.append(size_map[k])
    out.append("def sizeOps : List SizeOp := [" + ", ".join(ops) + "]")
    out.append("def objectiveOps : List ObjOp := [" + ", ".join(oops) + "]")
    # GHEManager.find_design: the statements after the "all properties set" guard
    mgr = parse("manager.py")
    fd = find_function(mgr, "GHEManager.find_design")
    if fd is None:
        raise Unsupported("manager.py", mgr, "GHEManager.find_design not found")
    mgr_map = {
        "T = time()": "MgrOp.startTimer",
        "self._search = self._design.find_design()": "MgrOp.search",
        "self._search.ghe.compute_g_functions()": "MgrOp.computeG",
        "self._search_time = time() - T": "MgrOp.stopTimer",
        "self._search.ghe.size(method=TimestepType.HYBRID)": "MgrOp.size",
        "return 0": "MgrOp.ret0",
    }
    fd = alpha(fd)              # throw -> v0, message (inside the guard) / start_time by first appearance
    mops = []
    body = [s for s in fd.body if not (isinstance(s, ast.Expr) and isinstance(s.value, ast.Constant))]
    guard = body[0] if body else None
    if not (isinstance(guard, ast.If) and norm(guard.test).startswith("not all([") and not guard.orelse
            and isinstance(guard.body[-1], ast.Return)):
        raise Unsupported("manager.py", fd, "find_design does not start with the all-properties-set guard")
    import re

    timer = None
    for s in body[1:]:
        k = norm(s)
        m = re.fullmatch(r"(v\d+) = time\(\)", k)
        if m and timer is None:
            timer, k = m.group(1), "T = time()"
        elif timer is not None:
            k = re.sub(rf"\b{timer}\b", "T", k)
        if k not in mgr_map:
            raise Unsupported("manager.py", s, "statement of GHEManager.find_design outside the modelled set")
        mops.append(mgr_map[k])
    out.append("def findDesignOps : List MgrOp := [" + ", ".join(mops) + "]")
    # calculate_excess: what is appended to the search log
    sr = parse("search_routines.py")
    for cls, lean in (("Bisection1D", "logRow1D"), ("RowWiseModifiedBisectionSearch", "logRowRW")):
        ce = find_function(sr, f"{cls}.calculate_excess")
        stm = [" ".join(ast.unparse(s).split()) for s in ce.body]
        out.append(f"def {lean} : List String := [" + ", ".join(json_str(s) for s in stm) + "]")
    out.append("\nend GHEVerif.Gen\n")
    write("Report.lean", "\n".join(out))


def json_str(s):
    import json

    return json.dumps(s, ensure_ascii=False)
