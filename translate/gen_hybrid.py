"""Translator plug-in for the hybrid-load group (C06, C07, C08).

Extracts from ghedesigner/ground_loads.py the literal constants the hybrid-load model and its
theorems depend on and writes lean/GHEVerif/Gen/HybridConsts.lean:

  hybridDelta      the `1.0e-6` placeholder duration / clamp value (every small float literal in
                   find_peak_durations, perform_current_month_simulation and process_month_loads
                   must be this one value)
  peakRetainStart  `self.peak_retain_start = 12` (single-year branch of __init__)
  peakRetainEnd    `self.peak_retain_end = 12`
  peakTol          `tol = 0.1` in find_peak_durations
  noonOffset       the `+ 12` in the four first_hour_*_peak expressions of process_month_loads
  monthsInYear     `num_months_in_year = 12` in the replication loop
  twoDayHours      `2 * HRS_IN_DAY` window length used by process_two_day_loads (the literal 2)
"""
from __future__ import annotations

import ast
from fractions import Fraction

from py2lean import Unsupported, find_function

FILE = "ground_loads.py"


def _rat(v):
    f = Fraction(str(v)) if isinstance(v, float) else Fraction(v)
    return f"({f.numerator} : Rat)" if f.denominator == 1 else f"(({f.numerator} : Rat) / {f.denominator})"


def _need(node, qual):
    if node is None:
        raise Unsupported(FILE, ast.Module(body=[], type_ignores=[]), f"{qual} not found")
    return node


def _assigns(fn, target):
    """Values assigned to `target` (a dotted name) inside fn, in source order."""
    out = []
    for n in ast.walk(fn):
        if isinstance(n, ast.Assign) and len(n.targets) == 1:
            t = n.targets[0]
            name = None
            if isinstance(t, ast.Name):
                name = t.id
            elif isinstance(t, ast.Attribute) and isinstance(t.value, ast.Name):
                name = t.value.id + "." + t.attr
            if name == target:
                out.append(n)
    return sorted(out, key=lambda n: n.lineno)


def main(write, HEADER, parse, PKG):
    tree = parse(FILE)
    fpd = _need(find_function(tree, "HybridLoad.find_peak_durations"), "find_peak_durations")
    pcm = _need(find_function(tree, "HybridLoad.perform_current_month_simulation"), "perform_current_month_simulation")
    pml = _need(find_function(tree, "HybridLoad.process_month_loads"), "process_month_loads")
    init = _need(find_function(tree, "HybridLoad.__init__"), "__init__")
    ptd = _need(find_function(tree, "HybridLoad.process_two_day_loads"), "process_two_day_loads")

    # 1. the placeholder: every float literal in (0, 1e-3) of the three functions
    small = {}
    for fn in (fpd, pcm, pml):
        for n in ast.walk(fn):
            if isinstance(n, ast.Constant) and isinstance(n.value, float) and 0.0 < n.value < 1e-3:
                small.setdefault(n.value, n)
    if len(small) != 1:
        any_node = next(iter(small.values())) if small else pml
        raise Unsupported(FILE, any_node, f"placeholder duration literals differ: {sorted(small)}")
    delta = next(iter(small))

    # 2. peak retention (single-year branch = first assignment of each)
    def first_int(fn, target):
        a = _assigns(fn, target)
        if not a or not (isinstance(a[0].value, ast.Constant) and isinstance(a[0].value.value, int)):
            raise Unsupported(FILE, a[0] if a else fn, f"{target} is not an int literal")
        return a[0].value.value

    prs = first_int(init, "self.peak_retain_start")
    pre = first_int(init, "self.peak_retain_end")
    miy = first_int(pml, "num_months_in_year")

    # 3. tolerance
    a = _assigns(fpd, "tol")
    if len(a) != 1 or not isinstance(a[0].value, ast.Constant):
        raise Unsupported(FILE, a[0] if a else fpd, "tol literal not found")
    tol = a[0].value.value

    # 4. the noon offset: int literals (other than 2) in the first_hour_*_peak expressions
    offs = set()
    count = 0
    for tgt in ("first_hour_heating_peak", "first_hour_cooling_peak"):
        for asg in _assigns(pml, tgt):
            if isinstance(asg.value, ast.Constant):
                continue  # the clamp  = 1.0e-6
            count += 1
            for n in ast.walk(asg.value):
                if isinstance(n, ast.Constant) and isinstance(n.value, int) and n.value != 2:
                    offs.add(n.value)
    if count != 2 or len(offs) != 1:
        raise Unsupported(FILE, pml, f"noon offset literals: {sorted(offs)} in {count} expressions")
    noon = next(iter(offs))

    # 5. window length factor
    twos = set()
    for n in ast.walk(ptd):
        if isinstance(n, ast.BinOp) and isinstance(n.op, ast.Mult) and isinstance(n.left, ast.Constant) \
                and isinstance(n.right, ast.Name) and n.right.id == "HRS_IN_DAY":
            twos.add(n.left.value)
    if twos != {2}:
        raise Unsupported(FILE, ptd, f"two-day window factor: {sorted(twos)}")

    out = [HEADER.format(src="ground_loads.py (HybridLoad constants)"), "namespace GHEVerif.Gen\n",
           f"def hybridDelta : Rat := {_rat(delta)}",
           f"def peakRetainStart : Int := {prs}",
           f"def peakRetainEnd : Int := {pre}",
           f"def peakTol : Rat := {_rat(tol)}",
           f"def noonOffset : Int := {noon}",
           f"def monthsInYear : Int := {miy}",
           "def twoDayFactor : Int := 2",
           "\nend GHEVerif.Gen\n"]
    write("HybridConsts.lean", "\n".join(out))
