"""Translator plug-in for C15: constants and structural facts of the equivalent-single-U-tube
conversion, regenerated from borehole_heat_exchangers.py / utilities.py on every check.

Emits lean/GHEVerif/Gen/EquivTubeConsts.lean.  Model/EquivTube.lean is written against these
definitions and the theorems in Props/C15.lean are stated about them, so a changed bracket
constant, tube count, spacing divisor or "is the solver's result used" fact reaches the proofs
and the driver.
"""
from __future__ import annotations

import ast
from fractions import Fraction

from py2lean import Unsupported, find_function

FILE = "borehole_heat_exchangers.py"
CLS = "GHEDesignerBoreholeWithMultiplePipes"


def _rat(v):
    f = Fraction(str(v)) if isinstance(v, float) else Fraction(v)
    return f"({f.numerator} : Rat)" if f.denominator == 1 else f"(({f.numerator} : Rat) / {f.denominator})"


def _const_of(node, file, ctx_node):
    if isinstance(node, ast.Constant) and isinstance(node.value, (int, float)) and not isinstance(node.value, bool):
        return node.value
    if isinstance(node, ast.UnaryOp) and isinstance(node.op, ast.USub) and isinstance(node.operand, ast.Constant):
        return -node.operand.value
    raise Unsupported(file, ctx_node, "numeric literal expected")


def _assign(fn, name, file, nth=0):
    """The nth `name = <expr>` (any depth) in fn, in source order."""
    hits = [n for n in ast.walk(fn) if isinstance(n, ast.Assign) and len(n.targets) == 1
            and isinstance(n.targets[0], ast.Name) and n.targets[0].id == name]
    hits.sort(key=lambda n: (n.lineno, n.col_offset))
    if len(hits) <= nth:
        raise Unsupported(file, fn, f"assignment {name}#{nth} not found")
    return hits[nth]


def _binop_const(assign, op, file):
    v = assign.value
    if not (isinstance(v, ast.BinOp) and isinstance(v.op, op)):
        raise Unsupported(file, assign, f"expected a {op.__name__} by a literal")
    return _const_of(v.right, file, assign)


def _calls(fn, attr_or_name):
    out = []
    for n in ast.walk(fn):
        if isinstance(n, ast.Call):
            f = n.func
            if (isinstance(f, ast.Attribute) and f.attr == attr_or_name) or (isinstance(f, ast.Name) and f.id == attr_or_name):
                out.append(n)
    return out


def _inner(fn, name, file):
    for n in ast.walk(fn):
        if isinstance(n, ast.FunctionDef) and n.name == name and n is not fn:
            return n
    raise Unsupported(file, fn, f"inner function {name} not found")


def _result_used(fn, callee, file):
    """True when the value of the (single) `callee(...)` call in fn is bound to a name."""
    stmts = [n for n in ast.walk(fn) if isinstance(n, (ast.Assign, ast.Expr, ast.Return, ast.AnnAssign))
             and isinstance(getattr(n, "value", None), ast.Call)
             and ((isinstance(n.value.func, ast.Name) and n.value.func.id == callee)
                  or (isinstance(n.value.func, ast.Attribute) and n.value.func.attr == callee))]
    if len(stmts) != 1:
        raise Unsupported(file, fn, f"expected exactly one statement calling {callee}, found {len(stmts)}")
    return not isinstance(stmts[0], ast.Expr)


def _kw_names(call):
    return sorted(k.arg for k in call.keywords if k.arg)


def _base_name(node):
    """Leftmost name of an attribute / subscript / call chain (`a.b[c].d` -> 'a'; `type(self).x` -> 'type(self)')."""
    while True:
        if isinstance(node, ast.Attribute):
            node = node.value
        elif isinstance(node, ast.Subscript):
            node = node.value
        elif isinstance(node, ast.Call):
            f = node.func
            if isinstance(f, ast.Name) and f.id in ("type", "vars", "getattr", "super"):
                return f.id + "(...)"
            node = f
        elif isinstance(node, ast.Name):
            return node.id
        else:
            return None


def _pin_stateless(tree, fn, file, class_names, allow_result_objects):
    """The conversion reads nothing but its arguments and the exchanger's CURRENT attributes, and leaves nothing behind:
    no assignment to an attribute / item of `self`, of a class, of `type(self)`; no `__dict__`, `setattr`, `getattr`,
    `vars`, `global`, `nonlocal`; no reference to the class object itself; no decorator (lru_cache & co).  Attribute
    assignments are allowed only on the objects the function creates locally (`allow_result_objects`)."""
    if fn.decorator_list:
        raise Unsupported(file, fn, f"{fn.name}: decorated (memoising decorators are not part of the modelled conversion)")
    # class names may appear as constructors (`SingleUTube(...)`) and in annotations only
    harmless = set()
    for n in ast.walk(fn):
        if isinstance(n, ast.Call) and isinstance(n.func, ast.Name) and n.func.id in class_names:
            harmless.add(id(n.func))
    for ann in [fn.returns] + [a.annotation for a in fn.args.args + fn.args.kwonlyargs]:
        if ann is not None:
            harmless.update(id(x) for x in ast.walk(ann))
    for n in ast.walk(fn):
        if id(n) in harmless:
            continue
        if isinstance(n, (ast.Global, ast.Nonlocal)):
            raise Unsupported(file, n, f"{fn.name}: global/nonlocal state")
        if isinstance(n, ast.Name) and n.id in class_names:
            raise Unsupported(file, n, f"{fn.name}: refers to the class object {n.id} (class-level state such as a cache or warm start)")
        if isinstance(n, ast.Name) and n.id in ("setattr", "getattr", "vars", "globals", "locals", "delattr", "hasattr"):
            raise Unsupported(file, n, f"{fn.name}: dynamic attribute access through {n.id}()")
        if isinstance(n, ast.Attribute) and n.attr in ("__dict__", "__class__"):
            raise Unsupported(file, n, f"{fn.name}: reads {n.attr} (hidden instance/class state)")
        targets = []
        if isinstance(n, ast.Assign):
            targets = n.targets
        elif isinstance(n, (ast.AugAssign, ast.AnnAssign)):
            targets = [n.target]
        elif isinstance(n, ast.Delete):
            targets = n.targets
        for t in targets:
            for tt in (t.elts if isinstance(t, (ast.Tuple, ast.List)) else [t]):
                if isinstance(tt, (ast.Attribute, ast.Subscript)):
                    b = _base_name(tt)
                    if b not in allow_result_objects:
                        raise Unsupported(file, tt, f"{fn.name}: assigns to state of `{b}` (only the tube being built may be modified; "
                                                    f"anything kept on the exchanger, its class or the module is a memo)")
    # attributes of `self` that are READ must be the exchanger's public ingredients
    for n in ast.walk(fn):
        if isinstance(n, ast.Attribute) and isinstance(n.value, ast.Name) and n.value.id == "self" and n.attr.startswith("_"):
            raise Unsupported(file, n, f"{fn.name}: reads the private attribute self.{n.attr}")


def _pin_module_has_no_state(tree, file):
    """Module level: only imports, classes, functions and docstrings (no module-level caches)."""
    for n in tree.body:
        ok = isinstance(n, (ast.Import, ast.ImportFrom, ast.ClassDef, ast.FunctionDef)) or \
            (isinstance(n, ast.Expr) and isinstance(n.value, ast.Constant) and isinstance(n.value.value, str))
        if not ok:
            raise Unsupported(file, n, "module-level statement other than import/class/def (possible module-level state)")


def _pin_class_body(cls, file):
    """Class body: only methods and docstrings (no class-level attributes that could carry state between calls)."""
    for n in cls.body:
        ok = isinstance(n, ast.FunctionDef) or (isinstance(n, ast.Expr) and isinstance(n.value, ast.Constant) and isinstance(n.value.value, str)) \
            or isinstance(n, ast.Pass)
        if not ok:
            raise Unsupported(file, n, f"class {cls.name}: class-level statement other than a method (class-level state)")


def main(write, HEADER, parse, PKG):
    tree = parse(FILE)
    # ---- structural pins: the conversion is a function of its arguments and the exchanger's current attributes
    _pin_module_has_no_state(tree, FILE)
    class_names = {n.name for n in tree.body if isinstance(n, ast.ClassDef)}
    for cname in (CLS, "MultipleUTube", "CoaxialPipe", "SingleUTube"):
        cnode = next((n for n in tree.body if isinstance(n, ast.ClassDef) and n.name == cname), None)
        if cnode is None:
            raise Unsupported(FILE, tree, f"class {cname} not found")
        _pin_class_body(cnode, FILE)
    pins = [(f"{CLS}.equivalent_single_u_tube", {"_borehole", "eq_single_u_tube"}),
            (f"{CLS}.match_effective_borehole_resistance", {"preliminary_new_single_u_tube"}),
            ("MultipleUTube.to_single", set()), ("CoaxialPipe.to_single", set()), ("SingleUTube.to_single", set()),
            ("MultipleUTube.u_tube_volumes", set()), ("CoaxialPipe.concentric_tube_volumes", set())]
    for qual, allowed in pins:
        fnode = find_function(tree, qual)
        if fnode is None:
            raise Unsupported(FILE, tree, f"{qual} not found")
        _pin_stateless(tree, fnode, FILE, class_names, allowed)
    ut_tree = parse("utilities.py")
    _pin_module_has_no_state(ut_tree, "utilities.py")
    so_node = find_function(ut_tree, "solve_root")
    if so_node is None:
        raise Unsupported("utilities.py", ut_tree, "solve_root not found")
    _pin_stateless(ut_tree, so_node, "utilities.py", set(), set())
    out = [HEADER.format(src="borehole_heat_exchangers.py, utilities.py"), "namespace GHEVerif.Gen\n"]

    eq = find_function(tree, f"{CLS}.equivalent_single_u_tube")
    if eq is None:
        raise Unsupported(FILE, tree, "equivalent_single_u_tube not found")
    n = _const_of(_assign(eq, "n", FILE).value, FILE, eq)
    if n != int(n) or n <= 0:
        raise Unsupported(FILE, eq, "n must be a positive integer literal")
    out.append("/-- `n = 2` in equivalent_single_u_tube: number of tubes of the equivalent exchanger. -/")
    out.append(f"def eqTubeN : Nat := {int(n)}")
    out.append("/-- `k_p_lower = pipe.k / 100.0`, `k_p_upper = pipe.k * 10.0`. -/")
    out.append(f"def kpLowerDiv : Rat := {_rat(_binop_const(_assign(eq, 'k_p_lower', FILE), ast.Div, FILE))}")
    out.append(f"def kpUpperMul : Rat := {_rat(_binop_const(_assign(eq, 'k_p_upper', FILE), ast.Mult, FILE))}")
    out.append("/-- `spacing = (r_b * 2.0) / 10.0` in the enlargement branch and `s = spacing / 3`. -/")
    out.append(f"def enlargeDiv : Rat := {_rat(_binop_const(_assign(eq, 'spacing', FILE, 1), ast.Div, FILE))}")
    out.append(f"def shankDiv : Rat := {_rat(_binop_const(_assign(eq, 's', FILE), ast.Div, FILE))}")
    # the enlargement test `if spacing <= 0.0`
    tests = [x for x in ast.walk(eq) if isinstance(x, ast.If) and isinstance(x.test, ast.Compare)
             and isinstance(x.test.left, ast.Name) and x.test.left.id == "spacing"]
    if len(tests) != 1 or len(tests[0].test.ops) != 1 or not isinstance(tests[0].test.ops[0], ast.LtE) \
            or _const_of(tests[0].test.comparators[0], FILE, tests[0]) != 0:
        raise Unsupported(FILE, eq, "expected exactly `if spacing <= 0.0:`")
    out.append("/-- Is the value returned by `solve_root` for the pipe conductivity bound to a name?  (No: the pipe\n"
               "    keeps the conductivity of the objective's last evaluation.) -/")
    out.append(f"def pipeSolveResultUsed : Bool := {'true' if _result_used(eq, 'solve_root', FILE) else 'false'}")
    obj_p = _inner(eq, "objective_pipe_conductivity", FILE)
    out.append("/-- Does the pipe-conductivity objective refresh pygfunction's delta-circuit? -/")
    out.append(f"def pipeObjectiveRefreshes : Bool := {'true' if _calls(obj_p, 'update_thermal_resistances') else 'false'}")
    sr = _calls(eq, "solve_root")[0]
    if _kw_names(sr) != ["lower", "upper"] or len(sr.args) != 2:
        raise Unsupported(FILE, sr, "solve_root call shape changed")

    mt = find_function(tree, f"{CLS}.match_effective_borehole_resistance")
    if mt is None:
        raise Unsupported(FILE, tree, "match_effective_borehole_resistance not found")
    out.append("/-- Grout-conductivity bracket `kg_lower = 1e-02`, `kg_upper = 7.0`. -/")
    out.append(f"def kgLower : Rat := {_rat(_const_of(_assign(mt, 'kg_lower', FILE).value, FILE, mt))}")
    out.append(f"def kgUpper : Rat := {_rat(_const_of(_assign(mt, 'kg_upper', FILE).value, FILE, mt))}")
    out.append(f"def groutSolveResultUsed : Bool := {'true' if _result_used(mt, 'solve_root', FILE) else 'false'}")
    obj_g = _inner(mt, "objective_resistance", FILE)
    out.append("/-- Does the grout-conductivity objective refresh pygfunction's delta-circuit (finding F9: it does not)? -/")
    out.append(f"def groutObjectiveRefreshes : Bool := {'true' if _calls(obj_g, 'update_thermal_resistances') else 'false'}")
    sr = _calls(mt, "solve_root")[0]
    if _kw_names(sr) != ["lower", "upper"] or len(sr.args) != 2:
        raise Unsupported(FILE, sr, "solve_root call shape changed")

    ut = parse("utilities.py")
    so = find_function(ut, "solve_root")
    if so is None:
        raise Unsupported("utilities.py", ut, "solve_root not found")
    names = [a.arg for a in so.args.args]
    defaults = dict(zip(names[len(names) - len(so.args.defaults):], so.args.defaults))
    out.append("/-- Defaults of `utilities.solve_root`. -/")
    for py, lean in (("abs_tol", "solveAbsTol"), ("rel_tol", "solveRelTol")):
        if py not in defaults:
            raise Unsupported("utilities.py", so, f"default {py} missing")
        out.append(f"def {lean} : Rat := {_rat(_const_of(defaults[py], 'utilities.py', so))}")
    if "max_iter" not in defaults:
        raise Unsupported("utilities.py", so, "default max_iter missing")
    out.append(f"def solveMaxIter : Nat := {int(_const_of(defaults['max_iter'], 'utilities.py', so))}")
    out.append(f"def solveDefaultLowerDiv : Rat := {_rat(_binop_const(_assign(so, 'lower', 'utilities.py'), ast.Div, 'utilities.py'))}")
    out.append(f"def solveDefaultUpperMul : Rat := {_rat(_binop_const(_assign(so, 'upper', 'utilities.py'), ast.Mult, 'utilities.py'))}")

    mu = find_function(tree, "MultipleUTube.u_tube_volumes")
    if mu is None:
        raise Unsupported(FILE, tree, "u_tube_volumes not found")
    out.append("/-- `n = self.nPipes * 2` in u_tube_volumes: tubes per U. -/")
    out.append(f"def tubesPerU : Nat := {int(_binop_const(_assign(mu, 'n', FILE), ast.Mult, FILE))}")
    out.append("\nend GHEVerif.Gen\n")
    write("EquivTubeConsts.lean", "\n".join(out))
