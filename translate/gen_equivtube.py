"""Translator plug-in for C15: constants and structural facts of the equivalent-single-U-tube
conversion, regenerated from borehole_heat_exchangers.py / utilities.py on every check.

Emits lean/GHEVerif/Gen/EquivTubeConsts.lean.  Model/EquivTube.lean is written against these
definitions and the theorems in Props/C15.lean are stated about them, so a changed bracket
constant, tube count, spacing divisor or "is the solver's result used" fact reaches the proofs
and the driver.
"""
from __future__ import annotations

import ast
from fractions import Fraction

from py2lean import Unsupported, find_function

FILE = "borehole_heat_exchangers.py"
CLS = "GHEDesignerBoreholeWithMultiplePipes"


def _rat(v):
    f = Fraction(str(v)) if isinstance(v, float) else Fraction(v)
    return f"({f.numerator} : Rat)" if f.denominator == 1 else f"(({f.numerator} : Rat) / {f.denominator})"


def _const_of(node, file, ctx_node):
    if isinstance(node, ast.Constant) and isinstance(node.value, (int, float)) and not isinstance(node.value, bool):
        return node.value
    if isinstance(node, ast.UnaryOp) and isinstance(node.op, ast.USub) and isinstance(node.operand, ast.Constant):
        return -node.operand.value
    raise Unsupported(file, ctx_node, "numeric literal expected")


def _assign(fn, name, file, nth=0):
    """The nth `name = <expr>` (any depth) in fn, in source order."""
    hits = [n for n in ast.walk(fn) if isinstance(n, ast.Assign) and len(n.targets) == 1
            and isinstance(n.targets[0], ast.Name) and n.targets[0].id == name]
    hits.sort(key=lambda n: (n.lineno, n.col_offset))
    if len(hits) <= nth:
        raise Unsupported(file, fn, f"assignment {name}#{nth} not found")
    return hits[nth]


def _binop_const(assign, op, file):
    v = assign.value
    if not (isinstance(v, ast.BinOp) and isinstance(v.op, op)):
        raise Unsupported(file, assign, f"expected a {op.__name__} by a literal")
    return _const_of(v.right, file, assign)


def _calls(fn, attr_or_name):
    out = []
    for n in ast.walk(fn):
        if isinstance(n, ast.Call):
            f = n.func
            if (isinstance(f, ast.Attribute) and f.attr == attr_or_name) or (isinstance(f, ast.Name) and f.id == attr_or_name):
                out.append(n)
    return out


def _inner(fn, name, file):
    for n in ast.walk(fn):
        if isinstance(n, ast.FunctionDef) and n.name == name and n is not fn:
            return n
    raise Unsupported(file, fn, f"inner function {name} not found")


def _result_used(fn, callee, file):
    """True when the value of the (single) `callee(...)` call in fn is bound to a name."""
    stmts = [n for n in ast.walk(fn) if isinstance(n, (ast.Assign, ast.Expr, ast.Return, ast.AnnAssign))
             and isinstance(getattr(n, "value", None), ast.Call)
             and ((isinstance(n.value.func, ast.Name) and n.value.func.id == callee)
                  or (isinstance(n.value.func, ast.Attribute) and n.value.func.attr == callee))]
    if len(stmts) != 1:
        raise Unsupported(file, fn, f"expected exactly one statement calling {callee}, found {len(stmts)}")
    return not isinstance(stmts[0], ast.Expr)


def _kw_names(call):
    return sorted(k.arg for k in call.keywords if k.arg)


def main(write, HEADER, parse, PKG):
    tree = parse(FILE)
    out = [HEADER.format(src="borehole_heat_exchangers.py, utilities.py"), "namespace GHEVerif.Gen\n"]

    eq = find_function(tree, f"{CLS}.equivalent_single_u_tube")
    if eq is None:
        raise Unsupported(FILE, tree, "equivalent_single_u_tube not found")
    n = _const_of(_assign(eq, "n", FILE).value, FILE, eq)
    if n != int(n) or n <= 0:
        raise Unsupported(FILE, eq, "n must be a positive integer literal")
    out.append("/-- `n = 2` in equivalent_single_u_tube: number of tubes of the equivalent exchanger. -/")
    out.append(f"def eqTubeN : Nat := {int(n)}")
    out.append("/-- `k_p_lower = pipe.k / 100.0`, `k_p_upper = pipe.k * 10.0`. -/")
    out.append(f"def kpLowerDiv : Rat := {_rat(_binop_const(_assign(eq, 'k_p_lower', FILE), ast.Div, FILE))}")
    out.append(f"def kpUpperMul : Rat := {_rat(_binop_const(_assign(eq, 'k_p_upper', FILE), ast.Mult, FILE))}")
    out.append("/-- `spacing = (r_b * 2.0) / 10.0` in the enlargement branch and `s = spacing / 3`. -/")
    out.append(f"def enlargeDiv : Rat := {_rat(_binop_const(_assign(eq, 'spacing', FILE, 1), ast.Div, FILE))}")
    out.append(f"def shankDiv : Rat := {_rat(_binop_const(_assign(eq, 's', FILE), ast.Div, FILE))}")
    # the enlargement test `if spacing <= 0.0`
    tests = [x for x in ast.walk(eq) if isinstance(x, ast.If) and isinstance(x.test, ast.Compare)
             and isinstance(x.test.left, ast.Name) and x.test.left.id == "spacing"]
    if len(tests) != 1 or len(tests[0].test.ops) != 1 or not isinstance(tests[0].test.ops[0], ast.LtE) \
            or _const_of(tests[0].test.comparators[0], FILE, tests[0]) != 0:
        raise Unsupported(FILE, eq, "expected exactly `if spacing <= 0.0:`")
    out.append("/-- Is the value returned by `solve_root` for the pipe conductivity bound to a name?  (No: the pipe\n"
               "    keeps the conductivity of the objective's last evaluation.) -/")
    out.append(f"def pipeSolveResultUsed : Bool := {'true' if _result_used(eq, 'solve_root', FILE) else 'false'}")
    obj_p = _inner(eq, "objective_pipe_conductivity", FILE)
    out.append("/-- Does the pipe-conductivity objective refresh pygfunction's delta-circuit? -/")
    out.append(f"def pipeObjectiveRefreshes : Bool := {'true' if _calls(obj_p, 'update_thermal_resistances') else 'false'}")
    sr = _calls(eq, "solve_root")[0]
    if _kw_names(sr) != ["lower", "upper"] or len(sr.args) != 2:
        raise Unsupported(FILE, sr, "solve_root call shape changed")

    mt = find_function(tree, f"{CLS}.match_effective_borehole_resistance")
    if mt is None:
        raise Unsupported(FILE, tree, "match_effective_borehole_resistance not found")
    out.append("/-- Grout-conductivity bracket `kg_lower = 1e-02`, `kg_upper = 7.0`. -/")
    out.append(f"def kgLower : Rat := {_rat(_const_of(_assign(mt, 'kg_lower', FILE).value, FILE, mt))}")
    out.append(f"def kgUpper : Rat := {_rat(_const_of(_assign(mt, 'kg_upper', FILE).value, FILE, mt))}")
    out.append(f"def groutSolveResultUsed : Bool := {'true' if _result_used(mt, 'solve_root', FILE) else 'false'}")
    obj_g = _inner(mt, "objective_resistance", FILE)
    out.append("/-- Does the grout-conductivity objective refresh pygfunction's delta-circuit (finding F9: it does not)? -/")
    out.append(f"def groutObjectiveRefreshes : Bool := {'true' if _calls(obj_g, 'update_thermal_resistances') else 'false'}")
    sr = _calls(mt, "solve_root")[0]
    if _kw_names(sr) != ["lower", "upper"] or len(sr.args) != 2:
        raise Unsupported(FILE, sr, "solve_root call shape changed")

    ut = parse("utilities.py")
    so = find_function(ut, "solve_root")
    if so is None:
        raise Unsupported("utilities.py", ut, "solve_root not found")
    names = [a.arg for a in so.args.args]
    defaults = dict(zip(names[len(names) - len(so.args.defaults):], so.args.defaults))
    out.append("/-- Defaults of `utilities.solve_root`. -/")
    for py, lean in (("abs_tol", "solveAbsTol"), ("rel_tol", "solveRelTol")):
        if py not in defaults:
            raise Unsupported("utilities.py", so, f"default {py} missing")
        out.append(f"def {lean} : Rat := {_rat(_const_of(defaults[py], 'utilities.py', so))}")
    if "max_iter" not in defaults:
        raise Unsupported("utilities.py", so, "default max_iter missing")
    out.append(f"def solveMaxIter : Nat := {int(_const_of(defaults['max_iter'], 'utilities.py', so))}")
    out.append(f"def solveDefaultLowerDiv : Rat := {_rat(_binop_const(_assign(so, 'lower', 'utilities.py'), ast.Div, 'utilities.py'))}")
    out.append(f"def solveDefaultUpperMul : Rat := {_rat(_binop_const(_assign(so, 'upper', 'utilities.py'), ast.Mult, 'utilities.py'))}")

    mu = find_function(tree, "MultipleUTube.u_tube_volumes")
    if mu is None:
        raise Unsupported(FILE, tree, "u_tube_volumes not found")
    out.append("/-- `n = self.nPipes * 2` in u_tube_volumes: tubes per U. -/")
    out.append(f"def tubesPerU : Nat := {int(_binop_const(_assign(mu, 'n', FILE), ast.Mult, FILE))}")
    out.append("\nend GHEVerif.Gen\n")
    write("EquivTubeConsts.lean", "\n".join(out))
