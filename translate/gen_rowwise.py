"""Translator plug-in for C14 (RowWise): numeric constants of ghedesigner/rowwise.py and
ghedesigner/shape.py that the model `Model/RowWise.lean` and the theorems of `Props/C14.lean`
depend on -> lean/GHEVerif/Gen/RowWise.lean (regenerated on every check).

  distributeTol    `tolerance = 1e-8`                     in rowwise.distribute
  dupFactor        `(space * 10**-1) ** 2`                in rowwise.find_duplicates
  sweepDupFactor   `remove_duplicates(max_hole, x_s*1.2)` in rowwise.field_optimization_fr
  pointShift       `point_shift = 1000.0`                 in rowwise.gen_borehole_config
  farShift         `far_x = self.min_x - 10`              in Shapes.point_intersect
  farStep          `[far_x, y, far_x + 1, y]`             in Shapes.point_intersect
  lineIntersectTol default `intersection_tolerance=1e-6`  of Shapes.line_intersect
  genDefaultTol    default `intersection_tolerance=1e-6`  of rowwise.gen_borehole_config
  verticalRowRatio `row_space[1] == 0` (0) or `abs(row_space[1]) <= K * abs(row_space[0])` (K): when a row is vertical
  foptDefaultTol   default `intersection_tolerance=1e-5`  of rowwise.field_optimization_fr
  sweepStartDeg    `rotate_start = -90.0 * DEG_TO_RAD`    in rowwise.field_optimization_fr
  sortKeyIsProjection  sort_intersections orders by  inter[0]*cos(rotate) + inter[1]*sin(rotate)

Decimal literals are read as the decimal they spell (1e-8 = 1/10^8), like translate/gen.py does.
A construct that is no longer found stops the translator (`translator-unsupported`).
"""
from __future__ import annotations

import ast
from fractions import Fraction

from py2lean import Unsupported


def _rat(v):
    f = Fraction(str(v)) if isinstance(v, float) else Fraction(v)
    return f"({f.numerator} : Rat)" if f.denominator == 1 else f"(({f.numerator} : Rat) / {f.denominator})"


def _fn(tree, name, file, cls=None):
    body = tree.body
    if cls:
        for n in body:
            if isinstance(n, ast.ClassDef) and n.name == cls:
                body = n.body
                break
        else:
            raise Unsupported(file, tree, f"class {cls} not found")
    for n in body:
        if isinstance(n, ast.FunctionDef) and n.name == name:
            return n
    raise Unsupported(file, tree, f"function {name} not found")


def _num(node, file):
    """Evaluate a literal arithmetic expression (numbers, + - * / **, unary minus) exactly."""
    if isinstance(node, ast.Constant) and isinstance(node.value, (int, float)) and not isinstance(node.value, bool):
        return Fraction(str(node.value)) if isinstance(node.value, float) else Fraction(node.value)
    if isinstance(node, ast.UnaryOp) and isinstance(node.op, ast.USub):
        return -_num(node.operand, file)
    if isinstance(node, ast.BinOp):
        a, b = _num(node.left, file), _num(node.right, file)
        if isinstance(node.op, ast.Add):
            return a + b
        if isinstance(node.op, ast.Sub):
            return a - b
        if isinstance(node.op, ast.Mult):
            return a * b
        if isinstance(node.op, ast.Div):
            return a / b
        if isinstance(node.op, ast.Pow) and b.denominator == 1:
            return a ** int(b)
    raise Unsupported(file, node, "not a literal number expression")


def _assign(fn, var, file):
    for n in ast.walk(fn):
        if isinstance(n, ast.Assign) and len(n.targets) == 1 and isinstance(n.targets[0], ast.Name) and n.targets[0].id == var:
            return n
    raise Unsupported(file, fn, f"assignment to {var} not found in {fn.name}")


def _default(fn, arg, file):
    args = fn.args.args
    defaults = fn.args.defaults
    off = len(args) - len(defaults)
    for i, a in enumerate(args):
        if a.arg == arg and i >= off:
            return _num(defaults[i - off], file)
    raise Unsupported(file, fn, f"default of {arg} not found in {fn.name}")


def main(write, HEADER, parse, PKG):
    rw = parse("rowwise.py")
    sh = parse("shape.py")
    out = [HEADER.format(src="rowwise.py, shape.py"), "namespace GHEVerif.Gen.RowWise\n"]

    # distribute: tolerance = 1e-8, and the loop condition is `dist >= tolerance`
    f = _fn(rw, "distribute", "rowwise.py")
    out.append(f"def distributeTol : Rat := {_rat(_num(_assign(f, 'tolerance', 'rowwise.py').value, 'rowwise.py'))}")
    wh = [n for n in ast.walk(f) if isinstance(n, ast.While)]
    ok = len(wh) == 1 and isinstance(wh[0].test, ast.Compare) and len(wh[0].test.ops) == 1 \
        and isinstance(wh[0].test.ops[0], ast.GtE) and isinstance(wh[0].test.comparators[0], ast.Name) \
        and wh[0].test.comparators[0].id == "tolerance"
    if not ok:
        raise Unsupported("rowwise.py", f, "distribute: loop condition is not `<dist> >= tolerance`")

    # find_duplicates: square_space_tol = (space * 10**-1) ** 2 ; comparison ssq_dist < square_space_tol
    f = _fn(rw, "find_duplicates", "rowwise.py")
    a = _assign(f, "square_space_tol", "rowwise.py").value
    ok = isinstance(a, ast.BinOp) and isinstance(a.op, ast.Pow) and _num(a.right, "rowwise.py") == 2 \
        and isinstance(a.left, ast.BinOp) and isinstance(a.left.op, ast.Mult) \
        and isinstance(a.left.left, ast.Name) and a.left.left.id == "space"
    if not ok:
        raise Unsupported("rowwise.py", f, "find_duplicates: square_space_tol is not (space * k) ** 2")
    out.append(f"def dupFactor : Rat := {_rat(_num(a.left.right, 'rowwise.py'))}")
    cmp_ok = any(isinstance(n, ast.Compare) and isinstance(n.ops[0], ast.Lt) and isinstance(n.left, ast.Name)
                 and n.left.id == "ssq_dist" and isinstance(n.comparators[0], ast.Name) and n.comparators[0].id == "square_space_tol"
                 for n in ast.walk(f))
    if not cmp_ok:
        raise Unsupported("rowwise.py", f, "find_duplicates: comparison is not ssq_dist < square_space_tol")

    # field_optimization_fr: remove_duplicates(max_hole, x_s * 1.2), default tolerance, default start
    f = _fn(rw, "field_optimization_fr", "rowwise.py")
    fac = None
    for n in ast.walk(f):
        if isinstance(n, ast.Call) and isinstance(n.func, ast.Name) and n.func.id == "remove_duplicates" and len(n.args) == 2:
            b = n.args[1]
            if isinstance(b, ast.BinOp) and isinstance(b.op, ast.Mult) and isinstance(b.left, ast.Name) and b.left.id == "x_s":
                fac = _num(b.right, "rowwise.py")
    if fac is None:
        raise Unsupported("rowwise.py", f, "field_optimization_fr: remove_duplicates(max_hole, x_s * k) not found")
    out.append(f"def sweepDupFactor : Rat := {_rat(fac)}")
    out.append(f"def foptDefaultTol : Rat := {_rat(_default(f, 'intersection_tolerance', 'rowwise.py'))}")
    st = _assign(f, "rotate_start", "rowwise.py").value
    if not (isinstance(st, ast.BinOp) and isinstance(st.op, ast.Mult) and isinstance(st.right, ast.Name) and st.right.id == "DEG_TO_RAD"):
        raise Unsupported("rowwise.py", f, "field_optimization_fr: default rotate_start is not k * DEG_TO_RAD")
    out.append(f"def sweepStartDeg : Rat := {_rat(_num(st.left, 'rowwise.py'))}")
    # the sweep keeps a field only when it is strictly larger: `if len(hole) > max_l`
    strict = any(isinstance(n, ast.If) and isinstance(n.test, ast.Compare) and isinstance(n.test.ops[0], ast.Gt)
                 and isinstance(n.test.comparators[0], ast.Name) and n.test.comparators[0].id == "max_l" for n in ast.walk(f))
    out.append(f"def sweepKeepsStrictlyLarger : Bool := {'true' if strict else 'false'}")

    # gen_borehole_config: point_shift, default tolerance
    f = _fn(rw, "gen_borehole_config", "rowwise.py")
    out.append(f"def pointShift : Rat := {_rat(_num(_assign(f, 'point_shift', 'rowwise.py').value, 'rowwise.py'))}")
    out.append(f"def genDefaultTol : Rat := {_rat(_default(f, 'intersection_tolerance', 'rowwise.py'))}")
    # the test that makes a row vertical: `row_space[1] == 0` (ratio 0) or `abs(row_space[1]) <= K * abs(row_space[0])` (ratio K)
    ratio = None
    for n in ast.walk(f):
        if isinstance(n, ast.If) and isinstance(n.test, ast.Compare) and len(n.test.ops) == 1:
            t = ast.unparse(n.test)
            if t == "row_space[1] == 0":
                ratio = Fraction(0)
            elif isinstance(n.test.ops[0], ast.LtE) and ast.unparse(n.test.left) == "abs(row_space[1])":
                r = n.test.comparators[0]
                if isinstance(r, ast.BinOp) and isinstance(r.op, ast.Mult) and ast.unparse(r.right) == "abs(row_space[0])":
                    ratio = _num(r.left, "rowwise.py")
    if ratio is None:
        raise Unsupported("rowwise.py", f, "gen_borehole_config: vertical-row test is neither `row_space[1] == 0` nor `abs(row_space[1]) <= K * abs(row_space[0])`")
    out.append(f"def verticalRowRatio : Rat := {_rat(ratio)}")

    # Shapes.point_intersect: far_x = self.min_x - 10 ; ray [far_x, y, far_x + 1, y]
    f = _fn(sh, "point_intersect", "shape.py", cls="Shapes")
    a = _assign(f, "far_x", "shape.py").value
    if not (isinstance(a, ast.BinOp) and isinstance(a.op, ast.Sub) and isinstance(a.left, ast.Attribute) and a.left.attr == "min_x"):
        raise Unsupported("shape.py", f, "point_intersect: far_x is not self.min_x - k")
    out.append(f"def farShift : Rat := {_rat(_num(a.right, 'shape.py'))}")
    step = None
    for n in ast.walk(f):
        if isinstance(n, ast.Call) and isinstance(n.func, ast.Attribute) and n.func.attr == "line_intersect" and n.args \
                and isinstance(n.args[0], ast.List) and len(n.args[0].elts) == 4:
            e = n.args[0].elts[2]
            if isinstance(e, ast.BinOp) and isinstance(e.op, ast.Add) and isinstance(e.left, ast.Name) and e.left.id == "far_x":
                step = _num(e.right, "shape.py")
    if step is None:
        raise Unsupported("shape.py", f, "point_intersect: ray [far_x, y, far_x + k, y] not found")
    out.append(f"def farStep : Rat := {_rat(step)}")
    f = _fn(sh, "line_intersect", "shape.py", cls="Shapes")
    out.append(f"def lineIntersectTol : Rat := {_rat(_default(f, 'intersection_tolerance', 'shape.py'))}")

    # sort_intersections: vals[i] = inter[0] * cos(rotate) + inter[1] * sin(rotate)
    f = _fn(sh, "sort_intersections", "shape.py")
    want = "inter[0] * cos(rotate) + inter[1] * sin(rotate)"
    found = False
    for n in ast.walk(f):
        if isinstance(n, ast.Assign) and isinstance(n.targets[0], ast.Subscript) and ast.unparse(n.targets[0]) == "vals[i]":
            found = ast.unparse(n.value) == want
    out.append(f"def sortKeyIsProjection : Bool := {'true' if found else 'false'}")

    out.append("\nend GHEVerif.Gen.RowWise\n")
    write("RowWise.lean", "\n".join(out))
