"""A small Python-subset -> Lean 4 translator (see DESIGN.md §1.2a).

Supported: straight-line numeric code with `if/elif/else`, `return`, `raise`,
simple assignments, `for i in range(a, b)` accumulation loops without break /
return, chained comparisons, `abs/int/max/min/len`, literal lists, subscripts,
conditional expressions, attribute chains mapped to parameters.

Anything else raises `Unsupported(file, line)`; the caller reports that as a broken
correspondence ("translator-unsupported: <file>:<line>"), never skips it silently.

Semantics kept: true division / floor division / modulo raise ZeroDivisionError
(modelled in the `Py = Except PyErr` monad) unless the divisor is a non-zero
literal; list subscripts raise IndexError and honour negative indices; `int()`
truncates toward zero.  Numbers are `Int` ('Z') or `Rat` ('R') as declared per
function; every IEEE double is a rational, so the Rat model is exact on the
implementation's inputs up to the implementation's own rounding.
"""
from __future__ import annotations

import ast
from dataclasses import dataclass, field
from fractions import Fraction


class Unsupported(Exception):
    def __init__(self, file, node, why=""):
        self.file, self.line, self.why = file, getattr(node, "lineno", 0), why
        super().__init__(f"translator-unsupported: {file}:{self.line} {why}")


@dataclass
class Spec:
    """How to translate one function."""

    lean_name: str
    params: list  # [(python_name_or_attr_chain, lean_name, type)]   type in R Z B N LZ LR LP FT
    ret: str  # lean return type, e.g. "Int", "Rat", "Bool", "Rat × Rat"
    mode: str = "R"  # default numeric literal type
    consts: dict = field(default_factory=dict)  # python dotted name -> (lean expr, type)
    calls: dict = field(default_factory=dict)  # python function name -> (lean name, ret type, monadic?)
    drop_self: bool = True


LEAN_TY = {"R": "Rat", "Z": "Int", "B": "Bool", "N": "Nat", "LZ": "List Int", "LR": "List Rat",
           "LP": "List (Rat × Rat)", "FT": "FlowType"}


def dotted(node):
    if isinstance(node, ast.Name):
        return node.id
    if isinstance(node, ast.Attribute):
        b = dotted(node.value)
        return None if b is None else b + "." + node.attr
    return None


def lit(value, ty):
    if ty == "Z":
        if isinstance(value, float):
            if value != int(value):
                raise ValueError
            value = int(value)
        return f"({value} : Int)"
    f = Fraction(str(value)) if isinstance(value, float) else Fraction(value)
    if f.denominator == 1:
        return f"({f.numerator} : Rat)"
    return f"(({f.numerator} : Rat) / {f.denominator})"


class FnTranslator:
    def __init__(self, file, fn: ast.FunctionDef, spec: Spec):
        self.file, self.fn, self.spec = file, fn, spec
        self.env = {}  # python name / chain -> (lean name, type)
        for py, ln, ty in spec.params:
            self.env[py] = (ln, ty)
        self.tmp = 0
        self.monadic = self._needs_monad(fn)

    # -------------------------------------------------------------- monad need
    def _needs_monad(self, fn):
        for n in ast.walk(fn):
            if isinstance(n, ast.Raise):
                return True
            if isinstance(n, ast.Subscript):
                return True
            if isinstance(n, ast.BinOp) and isinstance(n.op, (ast.Div, ast.FloorDiv, ast.Mod)):
                if not (isinstance(n.right, ast.Constant) and n.right.value != 0):
                    return True
            if isinstance(n, ast.Call):
                d = dotted(n.func)
                if d in self.spec.calls and self.spec.calls[d][2]:
                    return True
        return False

    def fresh(self, base="t"):
        self.tmp += 1
        return f"{base}_{self.tmp}"

    def bad(self, node, why=""):
        raise Unsupported(self.file, node, why)

    # -------------------------------------------------------------- expressions
    # returns (binds, expr, type); binds = [(name, monadic_expr)]
    def cast(self, e, ty, want):
        if ty == want:
            return e
        if want == "R" and ty in ("Z", "N"):
            return f"(({e} : {LEAN_TY[ty]}) : Rat)"
        if want == "Z" and ty == "N":
            return f"(({e} : Nat) : Int)"
        return e

    def num_join(self, a, b):
        return "R" if "R" in (a, b) else ("Z" if "Z" in (a, b) else a)

    def expr(self, n, want=None):
        S = self.spec
        if isinstance(n, ast.Constant):
            if isinstance(n.value, bool):
                return [], ("true" if n.value else "false"), "B"
            if isinstance(n.value, (int, float)):
                ty = want if want in ("R", "Z") else ("R" if isinstance(n.value, float) else S.mode)
                try:
                    return [], lit(n.value, ty), ty
                except ValueError:
                    self.bad(n, "non-integer literal in Int context")
            self.bad(n, "constant")
        d = dotted(n)
        if d is not None and not isinstance(n, ast.Subscript):
            if d in self.env:
                ln, ty = self.env[d]
                return [], ln, ty
            if d in S.consts:
                e, ty = S.consts[d]
                return [], e, ty
            self.bad(n, f"unknown name {d}")
        if isinstance(n, ast.UnaryOp):
            if isinstance(n.op, ast.USub):
                b, e, ty = self.expr(n.operand, want)
                return b, f"(-{e})", ty
            if isinstance(n.op, ast.Not):
                b, p = self.cond(n.operand)
                return b, f"(decide (¬ {p}))", "B"
            self.bad(n)
        if isinstance(n, ast.BinOp):
            bl, el, tl = self.expr(n.left, want if want in ("R", "Z") else None)
            br, er, tr = self.expr(n.right, want if want in ("R", "Z") else None)
            binds = bl + br
            if isinstance(n.op, (ast.Add, ast.Sub, ast.Mult)):
                ty = self.num_join(tl, tr)
                if ty == "N":
                    ty = "Z"
                op = {ast.Add: "+", ast.Sub: "-", ast.Mult: "*"}[type(n.op)]
                return binds, f"({self.cast(el, tl, ty)} {op} {self.cast(er, tr, ty)})", ty
            nonzero_lit = isinstance(n.right, ast.Constant) and n.right.value != 0
            if isinstance(n.op, ast.Div):
                a, c = self.cast(el, tl, "R"), self.cast(er, tr, "R")
                if nonzero_lit:
                    return binds, f"({a} / {c})", "R"
                t = self.fresh("q")
                return binds + [(t, f"pyDiv {a} {c}")], t, "R"
            if isinstance(n.op, (ast.FloorDiv, ast.Mod)):
                if "R" in (tl, tr):
                    self.bad(n, "// or % on non-integers")
                a, c = self.cast(el, tl, "Z"), self.cast(er, tr, "Z")
                fn = "fdiv" if isinstance(n.op, ast.FloorDiv) else "fmod"
                if nonzero_lit:
                    return binds, f"(Int.{fn} {a} {c})", "Z"
                t = self.fresh("q")
                return binds + [(t, f"{'pyFloorDiv' if fn == 'fdiv' else 'pyMod'} {a} {c}")], t, "Z"
            self.bad(n, "operator")
        if isinstance(n, (ast.Compare, ast.BoolOp)):
            b, p = self.cond(n)
            return b, f"(decide ({p}))", "B"
        if isinstance(n, ast.IfExp):
            bc, p = self.cond(n.test)
            b1, e1, t1 = self.expr(n.body, want)
            b2, e2, t2 = self.expr(n.orelse, want)
            if b1 or b2:
                # branches with effects: evaluate lazily through a monadic if
                ty = self.num_join(t1, t2) if t1 != t2 else t1
                t = self.fresh("c")
                m1 = self.block(b1, f"pure {self.cast(e1, t1, ty)}")
                m2 = self.block(b2, f"pure {self.cast(e2, t2, ty)}")
                return bc + [(t, f"(if {p} then ({m1}) else ({m2}))")], t, ty
            ty = self.num_join(t1, t2) if t1 != t2 else t1
            return bc, f"(if {p} then {self.cast(e1, t1, ty)} else {self.cast(e2, t2, ty)})", ty
        if isinstance(n, ast.List):
            parts, binds, tys = [], [], set()
            for el in n.elts:
                b, e, t = self.expr(el, want)
                binds += b
                parts.append((e, t))
                tys.add(t)
            ty = "R" if "R" in tys else "Z"
            return binds, "[" + ", ".join(self.cast(e, t, ty) for e, t in parts) + "]", "L" + ty
        if isinstance(n, ast.Tuple):
            binds, parts = [], []
            for el in n.elts:
                b, e, t = self.expr(el)
                binds += b
                parts.append(e)
            return binds, "(" + ", ".join(parts) + ")", "T"
        if isinstance(n, ast.Subscript):
            bl, el, tl = self.expr(n.value)
            if not tl.startswith("L"):
                self.bad(n, "subscript of non-list")
            bi, ei, ti = self.expr(n.slice, "Z")
            t = self.fresh("x")
            return bl + bi + [(t, f"pyIndex {el} {self.cast(ei, ti, 'Z')}")], t, tl[1:]
        if isinstance(n, ast.Call):
            d = dotted(n.func)
            args = n.args
            if d == "abs" and len(args) == 1:
                b, e, t = self.expr(args[0], want)
                return b, (f"(ratAbs {e})" if t == "R" else f"(Int.natAbs {e} : Int)"), t
            if d == "int" and len(args) == 1:
                b, e, t = self.expr(args[0])
                return b, (f"(pyTrunc {e})" if t == "R" else e), "Z"
            if d == "float" and len(args) == 1:
                b, e, t = self.expr(args[0])
                return b, self.cast(e, t, "R"), "R"
            if d in ("max", "min") and len(args) == 2:
                b1, e1, t1 = self.expr(args[0], want)
                b2, e2, t2 = self.expr(args[1], want)
                ty = self.num_join(t1, t2)
                f = {"R": {"max": "ratMax", "min": "ratMin"}, "Z": {"max": "max", "min": "min"}}[ty][d]
                return b1 + b2, f"({f} {self.cast(e1, t1, ty)} {self.cast(e2, t2, ty)})", ty
            if d == "len" and len(args) == 1:
                b, e, t = self.expr(args[0])
                return b, f"({e}.length)", "N"
            if d in S.calls:
                ln, rty, mon = S.calls[d]
                binds, parts = [], []
                for a in args:
                    b, e, t = self.expr(a)
                    binds += b
                    parts.append(e)
                call = f"{ln} " + " ".join(f"({p})" for p in parts)
                if mon:
                    t = self.fresh("r")
                    return binds + [(t, call)], t, rty
                return binds, f"({call})", rty
            self.bad(n, f"call {d}")
        self.bad(n, type(n).__name__)

    def cond(self, n):
        """-> (binds, Prop string)"""
        if isinstance(n, ast.BoolOp):
            binds, ps = [], []
            for v in n.values:
                b, p = self.cond(v)
                if b and ps:
                    self.bad(n, "effectful operand after short-circuit")
                binds += b
                ps.append(p)
            op = " ∧ " if isinstance(n.op, ast.And) else " ∨ "
            return binds, "(" + op.join(ps) + ")"
        if isinstance(n, ast.UnaryOp) and isinstance(n.op, ast.Not):
            b, p = self.cond(n.operand)
            return b, f"(¬ {p})"
        if isinstance(n, ast.Compare):
            binds, ps = [], []
            left = n.left
            for op, right in zip(n.ops, n.comparators):
                bl, el, tl = self.expr(left)
                br, er, tr = self.expr(right, tl if tl in ("R", "Z") else None)
                if tl in ("Z", "N") and tr == "R":
                    bl, el, tl = self.expr(left, "R")
                binds += bl + br
                if isinstance(op, (ast.Is, ast.IsNot)):
                    self.bad(n, "is")
                sym = {ast.Lt: "<", ast.LtE: "≤", ast.Gt: ">", ast.GtE: "≥", ast.Eq: "=", ast.NotEq: "≠"}.get(type(op))
                if sym is None:
                    self.bad(n, "comparison")
                ty = self.num_join(tl, tr) if tl in "RZN" and tr in "RZN" else tl
                if ty == "N":
                    ty = "Z"
                ps.append(f"{self.cast(el, tl, ty)} {sym} {self.cast(er, tr, ty)}")
                left = right
            return binds, "(" + " ∧ ".join(ps) + ")"
        b, e, t = self.expr(n)
        if t != "B":
            self.bad(n, "truthiness of a non-bool")
        return b, f"({e} = true)"

    # -------------------------------------------------------------- statements
    def block(self, binds, tail):
        """Wrap monadic binds around a tail expression (already monadic)."""
        out = tail
        for name, m in reversed(binds):
            out = f"{m} >>= fun {name} => {out}"
        return out

    def ret_expr(self, e):
        return f"pure {e}" if self.monadic else e

    def assigned(self, stmts):
        names = []
        for s in stmts:
            for n in ast.walk(s):
                if isinstance(n, (ast.Assign, ast.AugAssign)):
                    tg = n.targets[0] if isinstance(n, ast.Assign) else n.target
                    if isinstance(tg, ast.Name) and tg.id not in names:
                        names.append(tg.id)
        return names

    def stmts(self, body, cont):
        """Translate a statement list; `cont` is a zero-arg callable producing the
        Lean text of whatever follows (continuation duplication for `if`)."""
        if not body:
            return cont()
        s, rest = body[0], body[1:]
        nxt = lambda: self.stmts(rest, cont)  # noqa: E731
        if isinstance(s, ast.Expr) and isinstance(s.value, ast.Constant):
            return nxt()  # docstring
        if isinstance(s, ast.Pass):
            return nxt()
        if isinstance(s, ast.Return):
            if s.value is None:
                self.bad(s, "bare return")
            b, e, t = self.expr(s.value)
            e = self._coerce_ret(e, t)
            return self._wrap(b, self.ret_expr(e))
        if isinstance(s, ast.Raise):
            name = dotted(s.exc.func) if isinstance(s.exc, ast.Call) else dotted(s.exc)
            err = {"ValueError": "valueError", "IndexError": "indexError", "TypeError": "typeError",
                   "ZeroDivisionError": "zeroDiv", "KeyError": "keyError"}.get(name, "other")
            return f"(Except.error PyErr.{err})"
        if isinstance(s, (ast.Assign, ast.AugAssign)):
            if isinstance(s, ast.Assign):
                if len(s.targets) != 1 or not isinstance(s.targets[0], ast.Name):
                    self.bad(s, "assignment target")
                tgt, val = s.targets[0].id, s.value
            else:
                if not isinstance(s.target, ast.Name):
                    self.bad(s, "assignment target")
                tgt = s.target.id
                val = ast.BinOp(left=ast.Name(id=tgt, ctx=ast.Load()), op=s.op, right=s.value)
                ast.copy_location(val, s)
                ast.fix_missing_locations(val)
            b, e, t = self.expr(val)
            old = self.env.get(tgt)
            ln = tgt if tgt not in ("end", "at", "from", "fun", "then", "do") else tgt + "_"
            self.env[tgt] = (ln, t)
            inner = nxt()
            if old is None:
                self.env.pop(tgt, None)
            else:
                self.env[tgt] = old
            ty = LEAN_TY.get(t)
            ann = f" : {ty}" if ty else ""
            return self._wrap(b, f"let {ln}{ann} := {e}\n{inner}")
        if isinstance(s, ast.If):
            bc, p = self.cond(s.test)
            saved = dict(self.env)
            a = self.stmts(s.body, nxt)
            self.env = dict(saved)
            c = self.stmts(s.orelse, nxt)
            self.env = saved
            return self._wrap(bc, f"if {p} then\n{indent(a)}\nelse\n{indent(c)}")
        if isinstance(s, ast.For):
            return self._for(s, nxt)
        self.bad(s, type(s).__name__)

    def _coerce_ret(self, e, t):
        want = {"Int": "Z", "Rat": "R"}.get(self.spec.ret)
        if want and t in ("Z", "N", "R"):
            return self.cast(e, t, want)
        return e

    def _wrap(self, binds, tail):
        if binds and not self.monadic:
            raise Unsupported(self.file, self.fn, "effectful op in pure function")
        return self.block(binds, tail) if binds else tail

    def _for(self, s: ast.For, nxt):
        if s.orelse or not isinstance(s.target, ast.Name):
            self.bad(s, "for form")
        it = s.iter
        if not (isinstance(it, ast.Call) and dotted(it.func) == "range" and 1 <= len(it.args) <= 2):
            self.bad(s, "for over non-range")
        for n in ast.walk(s):
            if isinstance(n, (ast.Break, ast.Continue, ast.Return, ast.Raise)):
                self.bad(n, "break/continue/return in loop")
        if len(it.args) == 1:
            blo, lo, tlo = [], "(0 : Int)", "Z"
            bhi, hi, thi = self.expr(it.args[0], "Z")
        else:
            blo, lo, tlo = self.expr(it.args[0], "Z")
            bhi, hi, thi = self.expr(it.args[1], "Z")
        lo, hi = self.cast(lo, tlo, "Z"), self.cast(hi, thi, "Z")
        carried = [v for v in self.assigned(s.body) if v in self.env]
        local = [v for v in self.assigned(s.body) if v not in self.env]
        if not carried:
            self.bad(s, "loop without accumulator")
        # body-local names must not be used after the loop
        saved = dict(self.env)
        iv = s.target.id
        self.env[iv] = (iv, "Z")
        tup = "(" + ", ".join(self.env[v][0] for v in carried) + ")" if len(carried) > 1 else self.env[carried[0]][0]

        def body_tail():
            vals = "(" + ", ".join(self.env[v][0] for v in carried) + ")" if len(carried) > 1 else self.env[carried[0]][0]
            return self.ret_expr(vals)

        body = self.stmts(s.body, body_tail)
        self.env = saved
        for v in local:
            self.env.pop(v, None)
        rng = f"(pyRange {lo} {hi})"
        if self.monadic:
            loop = f"List.foldlM (fun {tup} ({iv} : Int) =>\n{indent(body)}) {tup} {rng}"
            inner = nxt()
            return self._wrap(blo + bhi, f"{loop} >>= fun {tup} =>\n{inner}")
        loop = f"List.foldl (fun {tup} ({iv} : Int) =>\n{indent(body)}) {tup} {rng}"
        inner = nxt()
        return self._wrap(blo + bhi, f"let {tup} := {loop}\n{inner}")

    # -------------------------------------------------------------- top level
    def translate(self):
        S = self.spec
        params = " ".join(f"({ln} : {LEAN_TY[ty]})" for _, ln, ty in S.params)

        def fell_off():
            raise Unsupported(self.file, self.fn, "function may fall off the end (returns None)")

        body = self.stmts(self.fn.body, fell_off)
        ret = f"Py ({S.ret})" if self.monadic else S.ret
        src = f"def {S.lean_name} {params} : {ret} :=\n{indent(body)}\n"
        return src


def indent(s, n=2):
    pad = " " * n
    return "\n".join(pad + l if l else l for l in s.splitlines())


def find_function(tree, qual):
    """qual = 'func' or 'Class.method'"""
    parts = qual.split(".")
    body = tree.body
    node = None
    for p in parts:
        node = next((n for n in body if isinstance(n, (ast.FunctionDef, ast.ClassDef)) and n.name == p), None)
        if node is None:
            return None
        body = node.body
    return node
