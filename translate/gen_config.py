"""Translator plug-in for C17 / C18: schemas, key tables and the command-line decision structure.

Writes (regenerated from the current sources on every check)

  Gen/Schemas.lean  the 16 JSON schemas as Lean data (`ObjSchema` / `PropSchema`)
  Gen/Keys.lean     enum member names, VERSION, every `to_input()` as (key, expression, condition)
                    rows, `GHEManager.write_input_file` as a small straight-line program over
                    dict variables, the signatures of the `set_*` methods, and
                    `_run_manager_from_cli_worker` as a list of operations (which JSON key feeds
                    which setter keyword, `.get` defaults, `**section` splats, early returns)
  Gen/Cli.lean      `validate.py` (which validator runs on which section, which name is upper-cased,
                    which schema file or enum->file map is used) and `run_manager_from_cli`
                    (click parameters and the guarded `exit(...)` paths of the callback)

Anything outside the statement/keyword shapes understood here stops the translator with
`translator-unsupported: <file>:<line> <why>` (reported as a broken obligation, never skipped).
"""
from __future__ import annotations

import ast
import json
from fractions import Fraction

from py2lean import Unsupported


# ----------------------------------------------------------------------------- Lean literals
def ls(s: str) -> str:
    out = []
    for ch in s:
        if ch == "\\":
            out.append("\\\\")
        elif ch == '"':
            out.append('\\"')
        elif ch == "\n":
            out.append("\\n")
        else:
            out.append(ch)
    return '"' + "".join(out) + '"'


def lrat(v) -> str:
    f = Fraction(str(v)) if isinstance(v, float) else Fraction(v)
    return f"({f.numerator} : Rat)" if f.denominator == 1 else f"(({f.numerator} : Rat) / {f.denominator})"


def lopt(v, f) -> str:
    return "none" if v is None else f"(some {f(v)})"


def llist(items) -> str:
    return "[" + ", ".join(items) + "]"


def lbool(b) -> str:
    return "true" if b else "false"


# ----------------------------------------------------------------------------- schemas
SCHEMA_PREAMBLE = '''
/-- JSON types named by the `type` keyword. -/
inductive JType where
  | object | array | string | number | boolean | null
  deriving DecidableEq, Repr, Inhabited

/-- The schema of one property (or of the items of an array).  `any` is the empty schema `{}`.
    Keywords: type, minimum, maximum, enum (strings), const (string), minItems, maxItems, items. -/
inductive PropSchema where
  | any
  | node (type : Option JType) (minimum maximum : Option Rat) (enum : Option (List String))
         (const : Option String) (minItems maxItems : Option Nat) (items : PropSchema)
  deriving Repr, Inhabited

/-- One schema file: an object schema whose properties carry no nested `properties`. -/
structure ObjSchema where
  file : String
  draft04 : Bool
  type : Option JType
  required : List String
  props : List (String × PropSchema)
  deriving Repr, Inhabited
'''

TOP_KEYS = {"$schema", "type", "properties", "required", "description", "title"}
PROP_KEYS = {"type", "minimum", "maximum", "enum", "const", "items", "minItems", "maxItems", "format", "description", "default"}
JTYPES = {"object", "array", "string", "number", "boolean", "null"}


class _Loc:
    """Stand-in for an ast node so that Unsupported can print a line."""

    def __init__(self, lineno=0):
        self.lineno = lineno


def _jtype(t, file):
    if t is None:
        return "none"
    if not isinstance(t, str) or t not in JTYPES:
        raise Unsupported(file, _Loc(), f"type {t!r}")
    return f"(some JType.{t})"


def prop_schema(p, file, depth=0) -> str:
    if not isinstance(p, dict):
        raise Unsupported(file, _Loc(), "property schema is not an object")
    if not p:
        return "PropSchema.any"
    extra = set(p) - PROP_KEYS
    if extra:
        raise Unsupported(file, _Loc(), f"schema keyword(s) {sorted(extra)} not modelled")
    enum = p.get("enum")
    if enum is not None and not all(isinstance(e, str) for e in enum):
        raise Unsupported(file, _Loc(), "non-string enum")
    const = p.get("const")
    if const is not None and not isinstance(const, str):
        raise Unsupported(file, _Loc(), "non-string const")
    for k in ("minimum", "maximum"):
        if k in p and (isinstance(p[k], bool) or not isinstance(p[k], (int, float))):
            raise Unsupported(file, _Loc(), f"{k} is not a number")
    for k in ("minItems", "maxItems"):
        if k in p and (isinstance(p[k], bool) or not isinstance(p[k], int) or p[k] < 0):
            raise Unsupported(file, _Loc(), f"{k} is not a natural number")
    items = prop_schema(p["items"], file, depth + 1) if "items" in p else "PropSchema.any"
    return ("(PropSchema.node " + _jtype(p.get("type"), file) + " " + lopt(p.get("minimum"), lrat) + " " + lopt(p.get("maximum"), lrat)
            + " " + lopt(enum, lambda e: llist(ls(x) for x in e)) + " " + lopt(const, ls)
            + " " + lopt(p.get("minItems"), str) + " " + lopt(p.get("maxItems"), str) + " " + items + ")")


def lean_ident(file: str) -> str:
    base = file.replace(".schema.json", "")
    parts = base.split("_")
    return parts[0] + "".join(x.capitalize() for x in parts[1:]) + "Schema"


def gen_schemas(write, HEADER, PKG):
    sdir = PKG / "schemas"
    out = [HEADER.format(src="schemas/*.schema.json"), "namespace GHEVerif.Gen", SCHEMA_PREAMBLE]
    names = []
    for path in sorted(sdir.glob("*.schema.json")):
        file = path.name
        try:
            s = json.loads(path.read_text())
        except ValueError as e:
            raise Unsupported(f"schemas/{file}", _Loc(), f"not JSON: {e}")
        if not isinstance(s, dict):
            raise Unsupported(f"schemas/{file}", _Loc(), "schema is not an object")
        extra = set(s) - TOP_KEYS
        if extra:
            raise Unsupported(f"schemas/{file}", _Loc(), f"top-level keyword(s) {sorted(extra)} not modelled")
        draft = s.get("$schema", "")
        props = s.get("properties", {})
        req = s.get("required", [])
        if not all(isinstance(r, str) for r in req):
            raise Unsupported(f"schemas/{file}", _Loc(), "required is not a list of strings")
        name = lean_ident(file)
        names.append(name)
        out.append(f"def {name} : ObjSchema :=\n  {{ file := {ls(file)}, draft04 := {lbool('draft-04' in draft)}, type := {_jtype(s.get('type'), 'schemas/' + file)},\n"
                   f"    required := {llist(ls(r) for r in req)},\n    props := [\n      "
                   + ",\n      ".join(f"({ls(k)}, {prop_schema(v, 'schemas/' + file)})" for k, v in props.items()) + "] }\n")
    out.append("def schemas : List ObjSchema := " + llist(names) + "\n")
    out.append("end GHEVerif.Gen\n")
    write("Schemas.lean", "\n".join(out))


# ----------------------------------------------------------------------------- helpers on the Python AST
def classes_of(tree):
    return {n.name: n for n in tree.body if isinstance(n, ast.ClassDef)}


def method_of(cls, name):
    for n in cls.body:
        if isinstance(n, ast.FunctionDef) and n.name == name:
            return n
    return None


def is_abstract_body(fn):
    body = [s for s in fn.body if not (isinstance(s, ast.Expr) and isinstance(s.value, ast.Constant))]
    return len(body) == 1 and isinstance(body[0], ast.Pass)


def dict_rows(node, file, cond=""):
    """{'k': expr, ...}  ->  [(k, unparse(expr), cond)]"""
    if not isinstance(node, ast.Dict):
        raise Unsupported(file, node, "expected a dict literal")
    rows = []
    for k, v in zip(node.keys, node.values):
        if not (isinstance(k, ast.Constant) and isinstance(k.value, str)):
            raise Unsupported(file, node, "dict key is not a string literal")
        rows.append((k.value, ast.unparse(v), cond))
    return rows


def subscript_assign(stmt):
    """NAME['k'] = expr  ->  (NAME, k, expr) or None"""
    if isinstance(stmt, ast.Assign) and len(stmt.targets) == 1 and isinstance(stmt.targets[0], ast.Subscript):
        t = stmt.targets[0]
        if isinstance(t.value, ast.Name) and isinstance(t.slice, ast.Constant) and isinstance(t.slice.value, str):
            return t.value.id, t.slice.value, ast.unparse(stmt.value)
    return None


def to_input_rows(fn, file):
    """Rows of one to_input(): `return {...}` or `d = {...}; if c: d[k] = e; ...; return d`."""
    body = [s for s in fn.body if not (isinstance(s, ast.Expr) and isinstance(s.value, ast.Constant))]
    if len(body) == 1 and isinstance(body[0], ast.Return):
        return dict_rows(body[0].value, file)
    if not (isinstance(body[0], ast.Assign) and isinstance(body[0].targets[0], ast.Name) and isinstance(body[-1], ast.Return)
            and isinstance(body[-1].value, ast.Name) and body[-1].value.id == body[0].targets[0].id):
        raise Unsupported(file, fn, "to_input shape")
    var = body[0].targets[0].id
    rows = dict_rows(body[0].value, file)
    for s in body[1:-1]:
        sa = subscript_assign(s)
        if sa and sa[0] == var:
            rows.append((sa[1], sa[2], ""))
            continue
        if isinstance(s, ast.If) and not s.orelse:
            c = ast.unparse(s.test)
            for t in s.body:
                sa = subscript_assign(t)
                if not sa or sa[0] != var:
                    raise Unsupported(file, t, "to_input conditional body")
                rows.append((sa[1], sa[2], c))
            continue
        raise Unsupported(file, s, "to_input statement")
    return rows


def rows_lean(rows):
    return llist(f"({ls(k)}, {ls(e)}, {ls(c)})" for k, e, c in rows)


def is_error_tail(stmts):
    """message = ...; print(message, file=stderr); if throw: raise ValueError(message); return 1"""
    kinds = []
    for s in stmts:
        if isinstance(s, ast.Assign):
            kinds.append("a")
        elif isinstance(s, ast.Expr) and isinstance(s.value, ast.Call) and ast.unparse(s.value.func) == "print":
            kinds.append("p")
        elif isinstance(s, ast.If) and any(isinstance(x, ast.Raise) for x in s.body):
            kinds.append("r")
        elif isinstance(s, ast.Return):
            kinds.append("t")
        else:
            return False
    return "r" in kinds and kinds[-1] == "t"


# ----------------------------------------------------------------------------- Keys.lean
KEYS_PREAMBLE = '''
/-- One step of `GHEManager.write_input_file` over dict-valued local variables. -/
inductive WOp where
  | initFrom (var expr : String)                              -- var = <expr>.to_input()
  | initLit (var : String) (rows : List (String × String × String))     -- var = {k: expr, ...}
  | set (var key expr cond : String)                          -- [if cond:] var[key] = expr
  | chain (branches : List (String × List (String × String × String))) (elseRaises : Bool)
                                                              -- if c1: v[k]=e ... elif c2: ... else: raise
  | dump (var : String) (sortKeys : Bool) (indent : Nat)      -- f.write(dumps(var, sort_keys=…, indent=…))
  | ret (code : Int)
  deriving Repr, Inhabited

/-- Argument of a setter call in the worker: (keyword, kind, a, b) with kind
    "key" (a[b]), "var" (local a), "const" (literal a), "splat" (**a). -/
abbrev RArg := String × String × String × String

/-- A simple statement of `_run_manager_from_cli_worker`. -/
inductive SOp where
  | bind (var src : String) (path : List String)              -- var = src[p0][p1]…
  | bindGet (var src key dflt : String)                       -- var = src.get(key, dflt)
  | call (setter : String) (args : List RArg)                 -- ghe.setter(kw=…, …)
  | print
  deriving Repr, Inhabited

inductive ROp where
  | simple (op : SOp)
  | validateGuard (ret : Int)                                 -- if validate_input_file(p) != 0: return ret
  | versionCheck                                              -- if version != VERSION: print(…)
  | callGuard (op : SOp) (ret : Int)                          -- if ghe.setter(…) != 0: return ret
  | chain (subject : String) (branches : List (String × List SOp)) (elseOps : List SOp) (elseRet : Option Int)
  | run (what : String)                                       -- ghe.find_design / prepare_results / write_output_files
  | ret (code : Int)
  deriving Repr, Inhabited
'''


def gen_keys(write, HEADER, parse, PKG):
    out = [HEADER.format(src="enums.py, __init__.py, geometry.py, media.py, simulation.py, borehole.py, design.py, manager.py"),
           "namespace GHEVerif.Gen", KEYS_PREAMBLE]
    # ---- enums
    en = parse("enums.py")
    for cname, cls in classes_of(en).items():
        members = []
        for s in cls.body:
            if isinstance(s, ast.Assign) and isinstance(s.targets[0], ast.Name):
                members.append(s.targets[0].id)
        out.append(f"def enum_{cname} : List String := {llist(ls(m) for m in members)}")
    consts = parse("__init__.py")
    ver = None
    for n in consts.body:
        if isinstance(n, ast.Assign) and isinstance(n.targets[0], ast.Name) and n.targets[0].id == "VERSION":
            ver = ast.literal_eval(n.value)
    if not isinstance(ver, str):
        raise Unsupported("__init__.py", consts, "VERSION is not a string literal")
    out.append(f"def VERSION : String := {ls(ver)}\n")

    # ---- to_input() of every class (own or inherited, resolved by base name inside the module)
    tables = []
    for file in ("media.py", "geometry.py", "simulation.py", "borehole.py", "design.py"):
        tree = parse(file)
        cl = classes_of(tree)

        def resolve(c, seen=()):
            fn = method_of(cl[c], "to_input")
            if fn is not None:
                return fn
            for b in cl[c].bases:
                bn = ast.unparse(b)
                if bn in cl and bn not in seen:
                    r = resolve(bn, seen + (c,))
                    if r is not None:
                        return r
            return None

        for cname in cl:
            fn = resolve(cname)
            if fn is None or is_abstract_body(fn):
                continue
            tables.append((cname, to_input_rows(fn, file)))
    out.append("/-- class name ↦ rows (key, expression over `self`, condition or \"\") of its `to_input()`. -/")
    out.append("def toInputOf : List (String × List (String × String × String)) := [\n  "
               + ",\n  ".join(f"({ls(c)}, {rows_lean(r)})" for c, r in tables) + "]\n")

    # ---- setter signatures (GHEManager.set_*)
    mg = parse("manager.py")
    mcl = classes_of(mg)
    if "GHEManager" not in mcl:
        raise Unsupported("manager.py", mg, "class GHEManager not found")
    ghem = mcl["GHEManager"]
    sigs = []
    for fn in ghem.body:
        if isinstance(fn, ast.FunctionDef) and fn.name.startswith("set_"):
            a = fn.args
            if a.vararg or a.kwarg or a.kwonlyargs or a.posonlyargs:
                raise Unsupported("manager.py", fn, "setter signature shape")
            params = [x.arg for x in a.args][1:]
            nd = len(a.defaults)
            defaults = [None] * (len(params) - nd) + [ast.unparse(d) for d in a.defaults]
            sigs.append((fn.name, list(zip(params, defaults))))
    out.append("/-- setter ↦ parameters (name, default expression or \"\" when required). -/")
    out.append("def setterSigs : List (String × List (String × String)) := [\n  "
               + ",\n  ".join(f"({ls(n)}, {llist(f'({ls(p)}, {ls(d or str())})' for p, d in ps)})" for n, ps in sigs) + "]\n")
    # which parameters have a default (needed because "" could in principle be a default expression)
    out.append("def setterOptional : List (String × List String) := [\n  "
               + ",\n  ".join(f"({ls(n)}, {llist(ls(p) for p, d in ps if d is not None)})" for n, ps in sigs) + "]\n")

    # ---- write_input_file
    wf = method_of(ghem, "write_input_file")
    if wf is None:
        raise Unsupported("manager.py", ghem, "write_input_file not found")
    out.append("def writeInputFile : List WOp := [\n  " + ",\n  ".join(write_ops(wf)) + "]\n")

    # ---- the worker
    worker = next((n for n in mg.body if isinstance(n, ast.FunctionDef) and n.name == "_run_manager_from_cli_worker"), None)
    if worker is None:
        raise Unsupported("manager.py", mg, "_run_manager_from_cli_worker not found")
    out.append("def worker : List ROp := [\n  " + ",\n  ".join(worker_ops(worker)) + "]\n")
    out.append("end GHEVerif.Gen\n")
    write("Keys.lean", "\n".join(out))


def write_ops(fn):
    F = "manager.py"
    ops = []
    body = [s for s in fn.body if not (isinstance(s, ast.Expr) and isinstance(s.value, ast.Constant))]
    for s in body:
        # NAME = X.to_input()   |   NAME = {...}
        if isinstance(s, ast.Assign) and len(s.targets) == 1 and isinstance(s.targets[0], ast.Name):
            v = s.targets[0].id
            if isinstance(s.value, ast.Call) and isinstance(s.value.func, ast.Attribute) and s.value.func.attr == "to_input" and not s.value.args:
                ops.append(f"WOp.initFrom {ls(v)} {ls(ast.unparse(s.value.func.value))}")
                continue
            if isinstance(s.value, ast.Dict):
                ops.append(f"WOp.initLit {ls(v)} {rows_lean(dict_rows(s.value, F))}")
                continue
            raise Unsupported(F, s, "write_input_file assignment")
        sa = subscript_assign(s)
        if sa:
            ops.append(f"WOp.set {ls(sa[0])} {ls(sa[1])} {ls(sa[2])} {ls('')}")
            continue
        if isinstance(s, ast.If):
            # (a) single conditional assignment(s), no else
            if not s.orelse and all(subscript_assign(t) for t in s.body):
                c = ast.unparse(s.test)
                for t in s.body:
                    sa = subscript_assign(t)
                    ops.append(f"WOp.set {ls(sa[0])} {ls(sa[1])} {ls(sa[2])} {ls(c)}")
                continue
            # (b) if/elif chain of assignments with an error else
            branches = []
            cur = s
            else_raises = False
            while True:
                rows = []
                for t in cur.body:
                    sa = subscript_assign(t)
                    if not sa:
                        raise Unsupported(F, t, "write_input_file branch body")
                    rows.append(sa)
                branches.append((ast.unparse(cur.test), rows))
                if len(cur.orelse) == 1 and isinstance(cur.orelse[0], ast.If):
                    cur = cur.orelse[0]
                    continue
                if cur.orelse:
                    if not is_error_tail(cur.orelse):
                        raise Unsupported(F, cur.orelse[0], "write_input_file else branch")
                    else_raises = True
                break
            ops.append("WOp.chain " + llist(f"({ls(c)}, {llist(f'({ls(a)}, {ls(b)}, {ls(e)})' for a, b, e in rows)})" for c, rows in branches)
                       + " " + lbool(else_raises))
            continue
        if isinstance(s, ast.With):
            # with open(path, 'w') as f: f.write(dumps(d, sort_keys=True, indent=2, separators=(',', ': ')))
            if len(s.body) == 1 and isinstance(s.body[0], ast.Expr) and isinstance(s.body[0].value, ast.Call):
                call = s.body[0].value
                if ast.unparse(call.func).endswith(".write") and len(call.args) == 1 and isinstance(call.args[0], ast.Call) \
                        and ast.unparse(call.args[0].func) == "dumps" and isinstance(call.args[0].args[0], ast.Name):
                    d = call.args[0]
                    kw = {k.arg: ast.literal_eval(k.value) for k in d.keywords}
                    if set(kw) - {"sort_keys", "indent", "separators"}:
                        raise Unsupported(F, s, "dumps keywords")
                    if kw.get("separators", (",", ": ")) != (",", ": "):
                        raise Unsupported(F, s, "dumps separators")
                    ops.append(f"WOp.dump {ls(d.args[0].id)} {lbool(bool(kw.get('sort_keys', False)))} {int(kw.get('indent') or 0)}")
                    continue
            raise Unsupported(F, s, "write_input_file with-statement")
        if isinstance(s, ast.Return) and isinstance(s.value, ast.Constant) and isinstance(s.value.value, int):
            ops.append(f"WOp.ret {s.value.value}")
            continue
        raise Unsupported(F, s, "write_input_file statement")
    return ops


def call_args(call, F):
    """arguments of ghe.setter(...) -> RArg rows; a positional argument i is keyword "#i"
    (the model resolves it to the i-th parameter name through `setterSigs`)"""
    rows = []
    for i, a in enumerate(call.args):
        if isinstance(a, ast.Subscript) and isinstance(a.value, ast.Name) and isinstance(a.slice, ast.Constant) and isinstance(a.slice.value, str):
            rows.append((f"#{i}", "key", a.value.id, a.slice.value))
        elif isinstance(a, ast.Name):
            rows.append((f"#{i}", "var", a.id, ""))
        else:
            raise Unsupported(F, call, "positional argument form")
    for k in call.keywords:
        v = k.value
        if k.arg is None:
            if not isinstance(v, ast.Name):
                raise Unsupported(F, call, "**splat of a non-name")
            rows.append(("", "splat", v.id, ""))
        elif isinstance(v, ast.Subscript) and isinstance(v.value, ast.Name) and isinstance(v.slice, ast.Constant) and isinstance(v.slice.value, str):
            rows.append((k.arg, "key", v.value.id, v.slice.value))
        elif isinstance(v, ast.Name):
            rows.append((k.arg, "var", v.id, ""))
        elif isinstance(v, ast.Constant):
            rows.append((k.arg, "const", repr(v.value), ""))
        else:
            raise Unsupported(F, call, f"argument form of {k.arg}")
    return rows


def ghe_call(node):
    """ghe.NAME(...) -> (NAME, call) or None"""
    if isinstance(node, ast.Call) and isinstance(node.func, ast.Attribute) and isinstance(node.func.value, ast.Name) and node.func.value.id == "ghe":
        return node.func.attr, node
    return None


def sop(s, F):
    """simple statement -> Lean SOp text"""
    if isinstance(s, ast.Assign) and len(s.targets) == 1 and isinstance(s.targets[0], ast.Name):
        var = s.targets[0].id
        v = s.value
        # var = src['a']['b']
        path = []
        cur = v
        while isinstance(cur, ast.Subscript) and isinstance(cur.slice, ast.Constant) and isinstance(cur.slice.value, str):
            path.insert(0, cur.slice.value)
            cur = cur.value
        if path and isinstance(cur, ast.Name):
            return f"SOp.bind {ls(var)} {ls(cur.id)} {llist(ls(p) for p in path)}"
        # var = src.get('k', default)
        if isinstance(v, ast.Call) and isinstance(v.func, ast.Attribute) and v.func.attr == "get" and isinstance(v.func.value, ast.Name) \
                and len(v.args) == 2 and isinstance(v.args[0], ast.Constant) and isinstance(v.args[1], ast.Constant) and not v.keywords:
            return f"SOp.bindGet {ls(var)} {ls(v.func.value.id)} {ls(v.args[0].value)} {ls(repr(v.args[1].value))}"
        raise Unsupported(F, s, "worker assignment")
    if isinstance(s, ast.Expr):
        gc = ghe_call(s.value)
        if gc:
            return f"SOp.call {ls(gc[0])} {llist(f'({ls(a)}, {ls(b)}, {ls(c)}, {ls(d)})' for a, b, c, d in call_args(gc[1], F))}"
        if isinstance(s.value, ast.Call) and ast.unparse(s.value.func) == "print":
            return "SOp.print"
    raise Unsupported(F, s, "worker statement")


RUN_CALLS = ("find_design", "prepare_results", "write_output_files")


def worker_ops(fn):
    F = "manager.py"
    ops = []
    body = [s for s in fn.body if not (isinstance(s, ast.Expr) and isinstance(s.value, ast.Constant))]
    for s in body:
        if isinstance(s, ast.If):
            test = s.test
            # if validate_input_file(input_file_path) != 0: return 1
            if isinstance(test, ast.Compare) and len(test.ops) == 1 and isinstance(test.ops[0], ast.NotEq) and isinstance(test.left, ast.Call) \
                    and isinstance(test.comparators[0], ast.Constant) and test.comparators[0].value == 0 \
                    and len(s.body) == 1 and isinstance(s.body[0], ast.Return) and isinstance(s.body[0].value, ast.Constant) and not s.orelse:
                rc = s.body[0].value.value
                if ast.unparse(test.left.func) == "validate_input_file":
                    ops.append(f"ROp.validateGuard {rc}")
                    continue
                gc = ghe_call(test.left)
                if gc:
                    rows = call_args(gc[1], F)
                    ops.append(f"ROp.callGuard (SOp.call {ls(gc[0])} {llist(f'({ls(a)}, {ls(b)}, {ls(c)}, {ls(d)})' for a, b, c, d in rows)}) {rc}")
                    continue
                raise Unsupported(F, s, "guarded return")
            # if version != VERSION: print(...)
            if ast.unparse(test) == "version != VERSION" and not s.orelse and all(
                    isinstance(t, ast.Expr) and isinstance(t.value, ast.Call) and ast.unparse(t.value.func) == "print" for t in s.body):
                ops.append("ROp.versionCheck")
                continue
            # if ghe.X == Enum.M: ... elif ...: ... [else: print; return 1]
            subject = None
            branches = []
            else_ops, else_ret = [], None
            cur = s
            while True:
                t = cur.test
                if not (isinstance(t, ast.Compare) and len(t.ops) == 1 and isinstance(t.ops[0], ast.Eq)):
                    raise Unsupported(F, cur, "worker branch condition")
                subj = ast.unparse(t.left)
                if subject is None:
                    subject = subj
                elif subject != subj:
                    raise Unsupported(F, cur, "worker chain compares different subjects")
                branches.append((ast.unparse(t.comparators[0]), [sop(x, F) for x in cur.body]))
                if len(cur.orelse) == 1 and isinstance(cur.orelse[0], ast.If):
                    cur = cur.orelse[0]
                    continue
                for x in cur.orelse:
                    if isinstance(x, ast.Return) and isinstance(x.value, ast.Constant):
                        else_ret = x.value.value
                    else:
                        else_ops.append(sop(x, F))
                break
            ops.append(f"ROp.chain {ls(subject)} " + llist(f"({ls(c)}, {llist(b)})" for c, b in branches) + " " + llist(else_ops)
                       + " " + ("none" if else_ret is None else f"(some {else_ret})"))
            continue
        if isinstance(s, ast.Return) and isinstance(s.value, ast.Constant) and isinstance(s.value.value, int):
            ops.append(f"ROp.ret {s.value.value}")
            continue
        if isinstance(s, ast.Assign) and len(s.targets) == 1 and isinstance(s.targets[0], ast.Name):
            v = s.value
            if isinstance(v, ast.Call) and ast.unparse(v.func) in ("loads", "GHEManager"):
                # inputs = loads(input_file_path.read_text())  /  ghe = GHEManager()
                if ast.unparse(v.func) == "loads" and ast.unparse(v.args[0]) != "input_file_path.read_text()":
                    raise Unsupported(F, s, "worker reads something else than the input file")
                continue
        if isinstance(s, ast.Expr):
            gc = ghe_call(s.value)
            if gc and gc[0] in RUN_CALLS:
                ops.append(f"ROp.run {ls(gc[0])}")
                continue
        ops.append(f"ROp.simple ({sop(s, F)})")
    return ops


# ----------------------------------------------------------------------------- Cli.lean
CLI_PREAMBLE = '''
/-- One `validate_*` function of validate.py as called by `validate_input_file`. -/
structure ValidatorSpec where
  fn : String
  sect : String                  -- key of the section passed in; "" = the whole file
  upperKey : String              -- name whose value is replaced by `str(value).upper()`; "" = none
  upperGuarded : Bool            -- only `if key in instance`
  schemaFile : String            -- fixed schema file; "" when chosen through `schemaMap`
  schemaMap : List (String × String)   -- upper-cased name ↦ schema file; a miss returns 1
  deriving Repr, Inhabited

/-- One path through the click callback: the guards that hold on it, what it prints, and the
    argument of the `exit(...)` that ends it. -/
structure CliPath where
  guard : List (String × Bool)
  effects : List String
  exit : String
  deriving Repr, Inhabited
'''


def gen_cli(write, HEADER, parse, PKG):
    out = [HEADER.format(src="validate.py, manager.py (run_manager_from_cli)"), "namespace GHEVerif.Gen", CLI_PREAMBLE]
    F = "validate.py"
    vt = parse("validate.py")
    fns = {n.name: n for n in vt.body if isinstance(n, ast.FunctionDef)}
    if "validate_input_file" not in fns:
        raise Unsupported(F, vt, "validate_input_file not found")
    # the enum.NAME.name keys of the schema maps are resolved to the member names
    vif = fns["validate_input_file"]
    order = []
    acc = None
    for s in vif.body:
        if isinstance(s, ast.Expr) and isinstance(s.value, ast.Constant):
            continue
        if isinstance(s, ast.Assign) and isinstance(s.targets[0], ast.Name):
            if ast.unparse(s.value) == "loads(input_file_path.read_text())" and s.targets[0].id == "instance":
                continue
            if isinstance(s.value, ast.Constant) and s.value.value == 0:
                acc = s.targets[0].id
                continue
            raise Unsupported(F, s, "validate_input_file assignment")
        if isinstance(s, ast.AugAssign) and isinstance(s.op, ast.Add) and isinstance(s.target, ast.Name) and s.target.id == acc \
                and isinstance(s.value, ast.Call) and isinstance(s.value.func, ast.Name) and len(s.value.args) == 1:
            a = s.value.args[0]
            if isinstance(a, ast.Name) and a.id == "instance":
                sect = ""
            elif isinstance(a, ast.Subscript) and isinstance(a.value, ast.Name) and a.value.id == "instance" and isinstance(a.slice, ast.Constant):
                sect = a.slice.value
            else:
                raise Unsupported(F, s, "validator argument")
            order.append((s.value.func.id, sect))
            continue
        if isinstance(s, ast.Return) and isinstance(s.value, ast.Name) and s.value.id == acc:
            continue
        raise Unsupported(F, s, "validate_input_file statement")

    specs = []
    for name, sect in order:
        if name not in fns:
            raise Unsupported(F, vif, f"{name} not found")
        specs.append(validator_spec(fns[name], sect, F))
    out.append("def validators : List ValidatorSpec := [\n  " + ",\n  ".join(specs) + "]\n")

    # validate_schema_instance: validate(...) -> 0, ValidationError -> 1
    vsi = fns.get("validate_schema_instance")
    if vsi is None:
        raise Unsupported(F, vt, "validate_schema_instance not found")
    tr = next((s for s in vsi.body if isinstance(s, ast.Try)), None)
    if tr is None or len(tr.handlers) != 1 or ast.unparse(tr.handlers[0].type) != "ValidationError":
        raise Unsupported(F, vsi, "validate_schema_instance shape")
    ok_ret = next((s.value.value for s in tr.body if isinstance(s, ast.Return) and isinstance(s.value, ast.Constant)), None)
    bad_ret = next((s.value.value for s in tr.handlers[0].body if isinstance(s, ast.Return) and isinstance(s.value, ast.Constant)), None)
    if ok_ret is None or bad_ret is None:
        raise Unsupported(F, vsi, "validate_schema_instance returns")
    out.append(f"def schemaOkReturn : Nat := {ok_ret}\ndef schemaErrReturn : Nat := {bad_ret}\n")

    # ---- click command
    F = "manager.py"
    mg = parse("manager.py")
    cli = next((n for n in mg.body if isinstance(n, ast.FunctionDef) and n.name == "run_manager_from_cli"), None)
    if cli is None:
        raise Unsupported(F, mg, "run_manager_from_cli not found")
    params = []
    for d in cli.decorator_list:
        if not isinstance(d, ast.Call):
            raise Unsupported(F, d, "decorator")
        dn = ast.unparse(d.func)
        kw = {k.arg: k.value for k in d.keywords}
        if dn == "click.command":
            continue
        if dn == "click.version_option":
            params.append(("--version", "eager", False, False))
            continue
        if dn == "click.argument":
            nm = d.args[0].value
            req = ast.literal_eval(kw["required"]) if "required" in kw else True
            exists = False
            if "type" in kw:
                t = kw["type"]
                if not (isinstance(t, ast.Call) and ast.unparse(t.func) == "click.Path"):
                    raise Unsupported(F, d, "argument type")
                for k in t.keywords:
                    if k.arg == "exists":
                        exists = ast.literal_eval(k.value)
                    else:
                        raise Unsupported(F, d, f"click.Path({k.arg}=...)")
            params.append((nm, "argument", bool(req), bool(exists)))
            continue
        if dn == "click.option":
            names = [a.value for a in d.args]
            flag = ast.literal_eval(kw["is_flag"]) if "is_flag" in kw else False
            extra = set(kw) - {"default", "is_flag", "show_default", "help"}
            if extra:
                raise Unsupported(F, d, f"click.option keyword(s) {sorted(extra)}")
            for nm in names:
                params.append((nm, "flag" if flag else "option", False, False))
            continue
        raise Unsupported(F, d, f"decorator {dn}")
    out.append("/-- click parameters: (name, kind argument|option|flag|eager, required, must exist). -/")
    out.append("def cliParams : List (String × String × Bool × Bool) := "
               + llist(f"({ls(a)}, {ls(b)}, {lbool(c)}, {lbool(d)})" for a, b, c, d in params) + "\n")
    paths = []
    fell = cli_walk(cli.body, [], [], paths, F)
    if fell is not None:
        # the callback can fall off its end: click then exits 0
        paths.append((fell[0], fell[1], "<fall-through>"))
    out.append("def cliPaths : List CliPath := [\n  " + ",\n  ".join(
        "{ guard := " + llist(f"({ls(c)}, {lbool(p)})" for c, p in g) + ", effects := " + llist(ls(e) for e in eff) + f", exit := {ls(x)} }}"
        for g, eff, x in paths) + "]\n")
    out.append("end GHEVerif.Gen\n")
    write("Cli.lean", "\n".join(out))


def validator_spec(fn, sect, F):
    upper_key, guarded, schema_file, schema_map = "", False, "", []
    params = [a.arg for a in fn.args.args]
    if params != ["instance"]:
        raise Unsupported(F, fn, "validator signature")
    maps = {}

    def upper_stmts(stmts):
        # v = str(instance["k"]).upper(); instance["k"] = v
        if len(stmts) != 2:
            return None
        a, b = stmts
        if not (isinstance(a, ast.Assign) and isinstance(a.targets[0], ast.Name)):
            return None
        src = ast.unparse(a.value)
        sa = subscript_assign(b)
        if not sa or sa[0] != "instance" or sa[2] != a.targets[0].id:
            return None
        k = sa[1]
        if src != f"str(instance[{k!r}]).upper()":
            return None
        return k, a.targets[0].id

    body = [s for s in fn.body if not (isinstance(s, ast.Expr) and isinstance(s.value, ast.Constant))]
    i = 0
    upper_var = None
    while i < len(body):
        s = body[i]
        if i + 1 < len(body):
            u = upper_stmts(body[i:i + 2])
            if u:
                if upper_key:
                    raise Unsupported(F, s, "two upper-cased names in one validator")
                upper_key, upper_var = u
                i += 2
                continue
        if isinstance(s, ast.If) and not s.orelse:
            t = ast.unparse(s.test)
            u = upper_stmts(s.body)
            if u and t == f"{u[0]!r} in instance":
                if upper_key:
                    raise Unsupported(F, s, "two upper-cased names in one validator")
                upper_key, upper_var = u
                guarded = True
                i += 1
                continue
            # if v not in schema_map: print(...); return 1
            if isinstance(s.test, ast.Compare) and isinstance(s.test.ops[0], ast.NotIn) and ast.unparse(s.test.left) == upper_var \
                    and ast.unparse(s.test.comparators[0]) in maps and isinstance(s.body[-1], ast.Return) \
                    and isinstance(s.body[-1].value, ast.Constant) and s.body[-1].value.value == 1:
                i += 1
                continue
            raise Unsupported(F, s, "validator if-statement")
        if isinstance(s, ast.Assign) and isinstance(s.targets[0], ast.Name) and isinstance(s.value, ast.Dict):
            rows = []
            for k, v in zip(s.value.keys, s.value.values):
                ks = ast.unparse(k)
                parts = ks.split(".")
                if not (len(parts) == 3 and parts[2] == "name" and isinstance(v, ast.Constant)):
                    raise Unsupported(F, s, "schema map entry")
                rows.append((parts[1], v.value))
            maps[s.targets[0].id] = rows
            i += 1
            continue
        if isinstance(s, ast.Return) and isinstance(s.value, ast.Call) and ast.unparse(s.value.func) == "validate_schema_instance":
            kw = {k.arg: k.value for k in s.value.keywords}
            if ast.unparse(kw.get("instance")) != "instance":
                raise Unsupported(F, s, "validator passes something else than its instance")
            sf = kw.get("schema_file_name")
            if isinstance(sf, ast.Constant):
                schema_file = sf.value
            elif isinstance(sf, ast.Subscript) and ast.unparse(sf.value) in maps and ast.unparse(sf.slice) == upper_var:
                schema_map = maps[ast.unparse(sf.value)]
            else:
                raise Unsupported(F, s, "schema file expression")
            i += 1
            continue
        raise Unsupported(F, s, "validator statement")
    return ("{ fn := " + ls(fn.name) + ", sect := " + ls(sect) + ", upperKey := " + ls(upper_key) + ", upperGuarded := " + lbool(guarded)
            + ", schemaFile := " + ls(schema_file) + ", schemaMap := " + llist(f"({ls(a)}, {ls(b)})" for a, b in schema_map) + " }")


def effect_of(call):
    fn = ast.unparse(call.func)
    arg = call.args[0] if call.args else None
    text = ""
    if isinstance(arg, ast.Constant):
        text = str(arg.value)
    elif isinstance(arg, ast.JoinedStr):
        text = "".join(v.value for v in arg.values if isinstance(v, ast.Constant))
    if fn == "print":
        to_err = any(k.arg == "file" and ast.unparse(k.value) in ("stderr", "sys.stderr") for k in call.keywords)
        return ("stderr:" if to_err else "stdout:") + text
    if fn.startswith("logger."):
        return "log." + fn.split(".", 1)[1] + ":" + text
    return None


def cli_walk(stmts, guard, effects, paths, F):
    """Collect (guard, effects, exit-argument) for every `exit(...)`; returns (guard, effects) when control
    can fall off the end of `stmts`, else None."""
    guard, effects = list(guard), list(effects)
    for s in stmts:
        if isinstance(s, ast.Expr) and isinstance(s.value, ast.Constant):
            continue
        if isinstance(s, ast.Assign) and isinstance(s.value, ast.Call) and ast.unparse(s.value.func).endswith(".resolve"):
            continue  # x = Path(x).resolve()
        if isinstance(s, ast.Expr) and isinstance(s.value, ast.Call):
            fn = ast.unparse(s.value.func)
            if fn == "exit":
                if len(s.value.args) != 1:
                    raise Unsupported(F, s, "exit() without a status")
                paths.append((guard, effects, ast.unparse(s.value.args[0])))
                return None
            e = effect_of(s.value)
            if e is not None:
                effects.append(e)
                continue
            raise Unsupported(F, s, "callback statement")
        if isinstance(s, ast.Return):
            # a returned status is discarded by click: the process exits 0
            paths.append((guard, effects, "<return:" + (ast.unparse(s.value) if s.value else "None") + ">"))
            return None
        if isinstance(s, ast.If):
            c = ast.unparse(s.test)
            t = cli_walk(s.body, guard + [(c, True)], effects, paths, F)
            e = cli_walk(s.orelse, guard + [(c, False)], effects, paths, F) if s.orelse else (guard + [(c, False)], effects)
            if t is None and e is None:
                return None
            if t is not None and e is not None:
                raise Unsupported(F, s, "both branches of an if fall through")
            guard, effects = t if t is not None else e
            continue
        if isinstance(s, ast.Try):
            if len(s.handlers) != 1 or ast.unparse(s.handlers[0].type) != "Exception" or s.orelse or s.finalbody:
                raise Unsupported(F, s, "try shape")
            first = next((x.value for x in s.body if isinstance(x, ast.Expr) and isinstance(x.value, ast.Call)
                          and ast.unparse(x.value.func) not in ("print", "exit") and not ast.unparse(x.value.func).startswith("logger.")), None)
            if first is None:
                raise Unsupported(F, s, "try without a call")
            c = "raises:" + ast.unparse(first)
            rest = [x for x in s.body if not (isinstance(x, ast.Expr) and x.value is first)]
            t = cli_walk(rest, guard + [(c, False)], effects, paths, F)
            h = cli_walk(s.handlers[0].body, guard + [(c, True)], effects, paths, F)
            if t is None and h is None:
                return None
            if t is not None and h is not None:
                raise Unsupported(F, s, "both arms of a try fall through")
            guard, effects = t if t is not None else h
            continue
        raise Unsupported(F, s, "callback statement")
    return guard, effects


def main(write, HEADER, parse, PKG):
    gen_schemas(write, HEADER, PKG)
    gen_keys(write, HEADER, parse, PKG)
    gen_cli(write, HEADER, parse, PKG)
