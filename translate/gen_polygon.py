"""Plug-in of translate/gen.py for C16 (and C04): regenerate lean/GHEVerif/Gen/Polygon.lean
from ghedesigner/shape.py (`point_polygon_check`) and feature_recognition.py (`remove_cutout`).

What is *translated* (py2lean.FnTranslator, so a changed comparison / operand / constant changes
the Lean definition the theorems are about):
  * the nested `between(p, a, b)`;
  * the four decisions of the ray loop: vertical-range test, half-open skip rule, cross product
    `c`, `c == 0`, and the toggle condition;
  * the three return values, the initial value of `inside`, the two default tolerances.
What is *pinned* (compared with a reference AST; any difference stops the translator with
`translator-unsupported`, which the harness reports as a broken tie, never skips): the statement
skeleton of the function, the vertex indexing `contour[idx - 1]` / `vertex`, and the first loop
(`distance`, `test_dist`, `v12_dist`, `abs(test_dist - v12_dist) < on_edge_tolerance -> return 0`),
whose square roots have no counterpart in the translated subset; the hand-written model decides
that comparison exactly (Model/Polygon.lean: ltSumSqrt).
"""
from __future__ import annotations

import ast
from fractions import Fraction

from py2lean import FnTranslator, Spec, Unsupported, find_function

FILE = "shape.py"

REF_DISTANCE = """
def distance(pt_1, pt_2) -> float:
    return sqrt((pt_1[0] - pt_2[0]) ** 2 + (pt_1[1] - pt_2[1]) ** 2)
"""
REF_LOOP1 = """
for idx, vertex in enumerate(contour):
    v1 = contour[idx - 1]
    v2 = vertex
    test_dist = distance(v1, point) + distance(v2, point)
    v12_dist = distance(v1, v2)

    if abs(test_dist - v12_dist) < on_edge_tolerance:
        return RET
"""
REF_LOOP2_HEAD = """
v1 = contour[idx - 1]
v2 = vertex
v1x = v1[0]
v1y = v1[1]
v2x = v2[0]
v2y = v2[1]
"""
REF_PXPY = """
px = point[0]
py = point[1]
"""


def _dump(nodes):
    return [ast.dump(n) for n in nodes]


def _ref(text):
    return ast.parse(text.strip()).body


def _int_const(node, file):
    try:
        v = ast.literal_eval(node)
    except Exception:
        raise Unsupported(file, node, "return value is not an integer literal")
    if isinstance(v, bool) or not isinstance(v, int):
        raise Unsupported(file, node, "return value is not an integer literal")
    return v


def _rat(v):
    f = Fraction(str(v)) if isinstance(v, float) else Fraction(v)
    return f"({f.numerator} : Rat)" if f.denominator == 1 else f"(({f.numerator} : Rat) / {f.denominator})"


def _default(fn, name, file):
    args = fn.args.args
    defaults = fn.args.defaults
    off = len(args) - len(defaults)
    for i, a in enumerate(args):
        if a.arg == name and i >= off:
            v = ast.literal_eval(defaults[i - off])
            if isinstance(v, bool) or not isinstance(v, (int, float)):
                break
            return v
    raise Unsupported(file, fn, f"default of {name} not found")


def main(write, HEADER, parse, PKG):
    tree = parse(FILE)
    fn = find_function(tree, "point_polygon_check")
    if fn is None:
        raise Unsupported(FILE, tree, "point_polygon_check not found")

    def bad(node, why):
        raise Unsupported(FILE, node, "point_polygon_check: " + why)

    if [a.arg for a in fn.args.args] != ["contour", "point", "on_edge_tolerance"] or fn.args.vararg or fn.args.kwarg \
            or fn.args.kwonlyargs:
        bad(fn, "signature changed")
    tol_default = _default(fn, "on_edge_tolerance", FILE)
    body = [s for s in fn.body if not (isinstance(s, ast.Expr) and isinstance(s.value, ast.Constant))]
    kinds = [type(s).__name__ for s in body]
    if kinds != ["FunctionDef", "For", "FunctionDef", "Assign", "Assign", "Assign", "For", "Return"]:
        bad(fn, f"statement skeleton changed: {kinds}")
    dist_def, loop1, between_def, a_inside, a_px, a_py, loop2, ret = body

    # ---- pinned: distance, first loop (modulo its return value), px/py
    if ast.dump(dist_def) != ast.dump(_ref(REF_DISTANCE)[0]):
        bad(dist_def, "nested distance() differs from the modelled form")
    try:
        r0_node = loop1.body[-1].body[0].value
    except Exception:
        bad(loop1, "first loop differs from the modelled form")
    ret_band = _int_const(r0_node, FILE)
    ref1 = _ref(REF_LOOP1.replace("RET", repr(ret_band)))[0]
    if ast.dump(loop1) != ast.dump(ref1):
        bad(loop1, "first loop (on-edge band test) differs from the modelled form")
    if _dump([a_px, a_py]) != _dump(_ref(REF_PXPY)):
        bad(a_px, "px/py assignments differ from the modelled form")
    if not (len(a_inside.targets) == 1 and isinstance(a_inside.targets[0], ast.Name) and a_inside.targets[0].id == "inside"
            and isinstance(a_inside.value, ast.Constant) and isinstance(a_inside.value.value, bool)):
        bad(a_inside, "initialisation of `inside` differs from the modelled form")
    init_inside = a_inside.value.value

    # ---- second loop: skeleton pinned, decisions translated
    if not (isinstance(loop2.target, ast.Tuple) and ast.dump(loop2.iter) == ast.dump(_ref("enumerate(contour)")[0].value)
            and [getattr(e, "id", None) for e in loop2.target.elts] == ["idx", "vertex"] and not loop2.orelse):
        bad(loop2, "second loop header differs from the modelled form")
    if len(loop2.body) != 7 or _dump(loop2.body[:6]) != _dump(_ref(REF_LOOP2_HEAD)):
        bad(loop2, "vertex indexing of the second loop differs from the modelled form")
    if_range = loop2.body[6]
    if not (isinstance(if_range, ast.If) and not if_range.orelse and len(if_range.body) == 4):
        bad(if_range, "ray loop body differs from the modelled form")
    if_skip, a_c, if_zero, if_toggle = if_range.body
    if not (isinstance(if_skip, ast.If) and not if_skip.orelse and len(if_skip.body) == 1 and isinstance(if_skip.body[0], ast.Continue)):
        bad(if_skip, "half-open skip statement differs from the modelled form")
    if not (isinstance(a_c, ast.Assign) and len(a_c.targets) == 1 and isinstance(a_c.targets[0], ast.Name) and a_c.targets[0].id == "c"):
        bad(a_c, "cross product assignment differs from the modelled form")
    if not (isinstance(if_zero, ast.If) and not if_zero.orelse and len(if_zero.body) == 1 and isinstance(if_zero.body[0], ast.Return)
            and if_zero.body[0].value is not None):
        bad(if_zero, "c == 0 statement differs from the modelled form")
    ret_zero = _int_const(if_zero.body[0].value, FILE)
    if not (isinstance(if_toggle, ast.If) and not if_toggle.orelse and len(if_toggle.body) == 1
            and ast.dump(if_toggle.body[0]) == ast.dump(_ref("inside = not inside")[0])):
        bad(if_toggle, "toggle statement differs from the modelled form")
    if not (isinstance(ret.value, ast.IfExp) and isinstance(ret.value.test, ast.Name) and ret.value.test.id == "inside"):
        bad(ret, "final return differs from the modelled form")
    ret_if_inside = _int_const(ret.value.body, FILE)
    ret_if_not = _int_const(ret.value.orelse, FILE)

    # ---- translated pieces
    out = [HEADER.format(src="shape.py (point_polygon_check), feature_recognition.py (remove_cutout)"),
           "import GHEVerif.Model.Py\nnamespace GHEVerif.Gen\nopen GHEVerif\n"]
    out.append(f"-- shape.py: point_polygon_check (line {fn.lineno}); nested between (line {between_def.lineno})")
    if [a.arg for a in between_def.args.args] != ["p", "a", "b"]:
        bad(between_def, "between() signature changed")
    out.append(FnTranslator(FILE, between_def, Spec("ppcBetween", [("p", "p", "R"), ("a", "a", "R"), ("b", "b", "R")], "Bool")).translate())

    names = ["px", "py", "v1x", "v1y", "v2x", "v2y", "c"]
    spec = Spec("_", [(n, n, "R") for n in names], "Bool", calls={"between": ("ppcBetween", "B", False)})

    def used(node):
        return [n for n in names if any(isinstance(x, ast.Name) and x.id == n for x in ast.walk(node))]

    def emit_cond(lean_name, node, params):
        tr = FnTranslator(FILE, between_def, spec)
        extra = [n for n in used(node) if n not in params]
        if extra:
            bad(node, f"{lean_name} now depends on {extra}")
        binds, p = tr.cond(node)
        if binds:
            bad(node, "effectful operation in a ray-loop decision")
        ps = " ".join(f"({n} : Rat)" for n in params)
        out.append(f"-- line {node.lineno}\ndef {lean_name} {ps} : Bool :=\n  decide {p}\n")

    emit_cond("ppcInRange", if_range.test, ["py", "v1y", "v2y"])
    emit_cond("ppcSkip", if_skip.test, ["py", "v1y", "v2y"])
    tr = FnTranslator(FILE, between_def, spec)
    cparams = ["v1x", "v1y", "v2x", "v2y", "px", "py"]
    extra = [n for n in used(a_c.value) if n not in cparams]
    if extra:
        bad(a_c, f"cross product now depends on {extra}")
    binds, e, t = tr.expr(a_c.value, "R")
    if binds or t != "R":
        bad(a_c, "cross product is not a plain arithmetic expression")
    out.append(f"-- line {a_c.lineno}\ndef ppcCross " + " ".join(f"({n} : Rat)" for n in cparams) + f" : Rat :=\n  {e}\n")
    emit_cond("ppcIsZero", if_zero.test, ["c"])
    emit_cond("ppcToggle", if_toggle.test, ["v1y", "v2y", "c"])
    out.append(f"def ppcInitInside : Bool := {'true' if init_inside else 'false'}")
    out.append(f"def ppcRetBand : Int := {ret_band}")
    out.append(f"def ppcRetZero : Int := {ret_zero}")
    out.append(f"def ppcRetIfInside : Int := {ret_if_inside}")
    out.append(f"def ppcRetIfNotInside : Int := {ret_if_not}")
    out.append(f"def ppcTolDefault : Rat := {_rat(tol_default)}")

    # ---- remove_cutout default tolerance and the call it makes
    fr = parse("feature_recognition.py")
    rc = find_function(fr, "remove_cutout")
    if rc is None:
        raise Unsupported("feature_recognition.py", fr, "remove_cutout not found")
    out.append(f"-- feature_recognition.py: remove_cutout (line {rc.lineno})")
    out.append(f"def cutoutTolDefault : Rat := {_rat(_default(rc, 'on_edge_tolerance', 'feature_recognition.py'))}")
    calls = [n for n in ast.walk(rc) if isinstance(n, ast.Call) and isinstance(n.func, ast.Name) and n.func.id == "point_polygon_check"]
    ref_call = _ref("point_polygon_check(boundary, coordinate, on_edge_tolerance=on_edge_tolerance)")[0].value
    if len(calls) != 1 or ast.dump(calls[0]) != ast.dump(ref_call):
        raise Unsupported("feature_recognition.py", rc, "remove_cutout no longer calls point_polygon_check(boundary, coordinate, on_edge_tolerance=…)")
    out.append("\nend GHEVerif.Gen\n")
    write("Polygon.lean", "\n".join(out))
