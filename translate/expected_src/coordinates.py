from typing import List, Tuple, Union


def transpose_coordinates(coordinates) -> List[Tuple[float, float]]:
    coordinates_transposed = []
    for x, y in coordinates:
        coordinates_transposed.append((y, x))
    return coordinates_transposed


def rectangle(
    num_bh_x: int,
    num_bh_y: int,
    spacing_x: Union[int, float],
    spacing_y: Union[int, float],
    origin=(0, 0),
) -> List[Tuple[float, float]]:
    """
    Creates a rectangular borehole field.

    X   X   X   X
    X   X   X   X
    X   X   X   X
    X   X   X   X

    Args:
        num_bh_x: number of borehole rows in x-direction
        num_bh_y: number of borehole rows in y-direction
        spacing_x: spacing between borehole rows in x-direction
        spacing_y: spacing between borehole rows in y-direction
        origin: coordinates for origin at lower-left corner

    Returns:
        list of tuples (x, y) containing borehole coordinates
    """

    r = []
    x_0 = origin[0]
    y_0 = origin[1]
    for i in range(num_bh_x):
        for j in range(num_bh_y):
            r.append((x_0 + i * spacing_x, y_0 + j * spacing_y))

    return r


def open_rectangle(
    num_bh_x: int, num_bh_y: int, spacing_x: Union[int, float], spacing_y: Union[int, float]
) -> List[Tuple[float, float]]:
    """
    Creates a rectangular borehole field without center boreholes.

    X   X   X   X
    X           X
    X           X
    X   X   X   X

    Args:
        num_bh_x: number of borehole rows in x-direction
        num_bh_y: number of borehole rows in y-direction
        spacing_x: spacing between borehole rows in x-direction
        spacing_y: spacing between borehole rows in y-direction

    Returns:
        list of tuples (x, y) containing borehole coordinates
    """

    open_r = []
    if num_bh_x > 2 and num_bh_y > 2:  # noqa: PLR2004
        for i in range(num_bh_x):
            open_r.append((i * spacing_x, 0.0))
        for j in range(1, num_bh_y - 1):
            open_r.append((0, j * spacing_y))
            open_r.append(((num_bh_x - 1) * spacing_x, j * spacing_y))
        for i in range(num_bh_x):
            open_r.append((i * spacing_x, (num_bh_y - 1) * spacing_y))
        # nbh = num_bh_y * 2 + (num_bh_x - 2) * 2
    else:
        open_r = rectangle(num_bh_x, num_bh_y, spacing_x, spacing_y)
        # nbh = num_bh_x * num_bh_y

    return open_r


def c_shape(
    n_x_1: int, n_y: int, b_x: Union[int, float], b_y: Union[int, float], n_x_2: int
) -> List[Tuple[float, float]]:
    c = []
    for i in range(n_x_1):
        c.append((i * b_x, 0.0))
    x_loc = (n_x_1 - 1) * b_x
    for j in range(1, n_y):
        c.append((0.0, j * b_y))
    for j in range(1, n_y):
        c.append((x_loc, j * b_y))
    y_loc = (n_y - 1) * b_y
    for i in range(1, n_x_2 + 1):
        c.append((i * b_x, y_loc))

    return c


def lop_u(
    n_x: int, n_y_1: int, b_x: Union[int, float], b_y: Union[int, float], n_y_2: int
) -> List[Tuple[float, float]]:
    _lop_u = []
    for i in range(n_x):
        _lop_u.append((i * b_x, 0.0))
    for j in range(1, n_y_1):
        _lop_u.append((0.0, j * b_y))
    x_loc = (n_x - 1) * b_x
    for j in range(1, n_y_2):
        _lop_u.append((x_loc, j * b_y))

    return _lop_u


def l_shape(n_x: int, n_y: int, b_x: Union[int, float], b_y: Union[int, float]) -> List[Tuple[float, float]]:
    l_shape_object = []
    for i in range(n_x):
        l_shape_object.append((i * b_x, 0.0))
    for j in range(1, n_y):
        l_shape_object.append((0.0, j * b_y))

    return l_shape_object


def zoned_rectangle(
    n_x: int, n_y: int, b_x: Union[int, float], b_y: Union[int, float], n_ix: int, n_it: int
) -> List[Tuple[float, float]]:
    """
    Create a zoned rectangle

    :param n_x:
    :param n_y:
    :param b_x:
    :param b_y:
    :param n_ix:
    :param n_it:
    :return:
    """

    if n_ix > (n_x - 2):
        raise ValueError("To many interior x boreholes.")
    if n_it > (n_y - 2):
        raise ValueError("Too many interior y boreholes.")

    # Create a list of (x, y) coordinates
    zoned = []

    # Boreholes on the perimeter
    zoned.extend(open_rectangle(n_x, n_y, b_x, b_y))

    # Create the interior coordinates
    bix = (n_x - 1) * b_x / (n_ix + 1)
    biy = (n_y - 1) * b_y / (n_it + 1)

    zoned.extend(rectangle(n_ix, n_it, bix, biy, origin=(bix, biy)))

    return zoned
