import logging
import warnings
from math import log

import numpy as np
import pygfunction as gt
from scipy.interpolate import interp1d, lagrange

from ghedesigner.borehole import GHEBorehole
from ghedesigner.borehole_heat_exchangers import get_bhe_object
from ghedesigner.enums import BHPipeType

logging.basicConfig(level=logging.WARN, format="%(message)s", datefmt="[%X]")
logger = logging.getLogger(__name__)


def calculate_g_function(
    m_flow_borehole,
    bhe_type: BHPipeType,
    time_values,
    coordinates,
    borehole,
    fluid,
    pipe,
    grout,
    soil,
    n_segments=8,
    end_length_ratio=0.02,
    segments="unequal",
    solver="equivalent",
    boundary="MIFT",
    segment_ratios=None,
    disp=False,
):
    bore_field = []
    bhe_objects = []

    h = borehole.H
    r_b = borehole.r_b
    d = borehole.D
    tilt = borehole.tilt
    orientation = borehole.orientation

    for x, y in coordinates:
        _borehole = GHEBorehole(h, d, r_b, x, y, tilt, orientation)
        bore_field.append(_borehole)
        # Initialize pipe model
        if boundary == "MIFT":
            bhe = get_bhe_object(bhe_type, m_flow_borehole, fluid, _borehole, pipe, grout, soil)
            bhe_objects.append(bhe)

    alpha = soil.k / soil.rhoCp

    # setup options
    segments = segments.lower()
    if segments == "equal":
        options = {"nSegments": n_segments, "disp": disp}
    elif segments == "unequal":
        if segment_ratios is None:
            segment_ratios = gt.utilities.segment_ratios(n_segments, end_length_ratio=end_length_ratio)
        options = {
            "nSegments": n_segments,
            "segment_ratios": segment_ratios,
            "disp": disp,
        }
    else:
        raise ValueError("Equal or Unequal are acceptable options " "for segments.")

    if boundary in ("UHTR", "UBWT"):
        gfunc = gt.gfunction.gFunction(
            bore_field,
            alpha,
            time=time_values,
            boundary_condition=boundary,
            options=options,
            method=solver,
        )
    elif boundary == "MIFT":
        m_flow_network = len(bore_field) * m_flow_borehole
        network = gt.networks.Network(bore_field, bhe_objects, m_flow_network=m_flow_network, cp_f=fluid.cp)
        gfunc = gt.gfunction.gFunction(
            network,
            alpha,
            time=time_values,
            boundary_condition=boundary,
            options=options,
            method=solver,
        )
    else:
        raise ValueError("UHTR, UBWT or MIFT are accepted boundary conditions.")

    return gfunc


def calc_g_func_for_multiple_lengths(
    b: float,
    h_values: list,
    r_b,
    depth,
    m_flow_borehole,
    bhe_type: BHPipeType,
    log_time,
    coordinates,
    fluid,
    pipe,
    grout,
    soil,
    n_segments=8,
    segments="unequal",
    solver="equivalent",
    boundary="MIFT",
    segment_ratios=None,
):
    r_b_values = {}
    g_lts_values = {}

    alpha = soil.k / soil.rhoCp

    for h in h_values:
        borehole = GHEBorehole(h, depth, r_b, 0.0, 0.0)

        ts = h**2 / (9.0 * alpha)  # Bore field characteristic time
        time_values = np.exp(log_time) * ts

        gfunc = calculate_g_function(
            m_flow_borehole,
            bhe_type,
            time_values,
            coordinates,
            borehole,
            fluid,
            pipe,
            grout,
            soil,
            n_segments=n_segments,
            segments=segments,
            solver=solver,
            boundary=boundary,
            segment_ratios=segment_ratios,
        )

        r_b_values[h] = r_b
        g_lts_values[h] = gfunc.gFunc.tolist()

    geothermal_g_input = {
        "b": b,
        "r_b_values": r_b_values,
        "d": depth,
        "g_lts": g_lts_values,
        "log_time": log_time,
        "bore_locations": coordinates,
    }

    # Initialize the gFunction object
    g_function = GFunction(**geothermal_g_input)

    return g_function


class GFunction:
    def __init__(
        self,
        b: float,
        d: float,
        r_b_values: dict,
        g_lts: dict,
        log_time: list,
        bore_locations: list,
    ):
        self.B: float = b  # a B spacing in the borefield
        # r_b (borehole radius) value keyed by height
        self.r_b_values: dict = r_b_values
        self.d: float = d  # burial depth
        self.g_lts: dict = g_lts  # g-functions (LTS) keyed by height
        # ln(t/ts) values that apply to all the heights
        self.log_time: list = log_time
        # (x, y) coordinates of boreholes
        self.bore_locations: list = bore_locations
        # self.time: dict = {}  # the time values in years

        # an interpolation table for B/H ratios, D, r_b (used in the method
        # g_function_interpolation)
        self.interpolation_table: dict = {}

    def g_function_interpolation(self, b_over_h: float, kind="default"):
        # the g-functions are stored in a dictionary based on heights, so an
        # equivalent height can be found
        h_eq = 1 / b_over_h * self.B

        tolerance = 0.001

        # Determine if we are out of range and need to extrapolate
        height_values = list(self.g_lts.keys())
        # If we are close to the outer bounds, then set H_eq as outer bounds
        close_tolerance = 1.0e-6
        if abs(h_eq - max(height_values)) < close_tolerance:
            h_eq = max(height_values)
        if abs(h_eq - min(height_values)) < close_tolerance:
            h_eq = min(height_values)

        if min(height_values) <= h_eq <= max(height_values) or abs(min(height_values) - h_eq) < tolerance:
            fill_value = ""
        else:
            fill_value = "extrapolate"
            warnings.warn("Extrapolation is being used.")

        # if the interpolation kind is default, use what we know about the
        # accuracy of interpolation to choose a technique

        if kind == "default":
            num_curves = len(height_values)
            if num_curves >= 5:  # noqa: PLR2004
                kind = "cubic"
            elif num_curves >= 3:  # noqa: PLR2004
                kind = "quadratic"
            elif num_curves == 2:  # noqa: PLR2004
                kind = "linear"
            elif (h_eq - height_values[0]) / height_values[0] < tolerance or min(height_values) - h_eq < tolerance:
                g_function = self.g_lts[height_values[0]]
                rb = self.r_b_values[height_values[0]]
                return g_function, rb, self.d, h_eq
            else:
                raise ValueError(
                    "The interpolation requires two g-function curves " "if the requested B/H is not already computed."
                )

        # Automatically adjust interpolation if necessary
        # Lagrange also needs 2
        interpolation_kinds = {"linear": 2, "quadratic": 3, "cubic": 4, "lagrange": 2}
        curves_by_kind = {2: "linear", 3: "quadratic", 4: "cubic"}
        if len(height_values) < 2:  # noqa: PLR2004
            raise ValueError("Interpolation requires two g-function curves.")
        else:
            # If the number of required curves for the interpolation type is
            # greater than what is available, reduce the interpolation type
            required_curves = interpolation_kinds[kind]
            if required_curves > len(height_values):
                kind = curves_by_kind[len(height_values)]

        # if the interpolation table is not yet know (or was built for another interpolation kind or
        # fill mode, e.g. by an earlier call inside the stored heights), build it
        if len(self.interpolation_table) == 0 or self.interpolation_table.get("built_for") != (kind, fill_value):
            # create an interpolation for the g-function which takes the height
            # (or equivalent height) as an input the g-function needs to be
            # interpolated at each point in dimensionless time
            self.interpolation_table = {"built_for": (kind, fill_value)}
            self.interpolation_table["g"] = []
            for i, _ in enumerate(self.log_time):
                x = []
                y = []
                for key in self.g_lts:
                    height_value = float(key)
                    g_value = self.g_lts[key][i]
                    x.append(height_value)
                    y.append(g_value)
                f = lagrange(x, y) if kind == "lagrange" else interp1d(x, y, kind=kind, fill_value=fill_value)
                self.interpolation_table["g"].append(f)
            # create interpolation tables for 'D' and 'r_b' by height
            keys = list(self.r_b_values.keys())
            height_values: list = []
            rb_values: list = []
            for h in keys:
                height_values.append(float(h))
                rb_values.append(self.r_b_values[h])
            if kind == "lagrange":
                rb_f = lagrange(height_values, rb_values)
            else:
                # interpolation function for rb values by H equivalent
                rb_f = interp1d(height_values, rb_values, kind=kind, fill_value=fill_value)
            self.interpolation_table["rb"] = rb_f

        # create the g-function by interpolating at each ln(t/ts) value
        rb_value = self.interpolation_table["rb"](h_eq)
        g_function: list = []
        for i in range(len(self.log_time)):
            f = self.interpolation_table["g"][i]
            g = f(h_eq).tolist()
            g_function.append(g)
        return g_function, rb_value, self.d, h_eq

    @staticmethod
    def borehole_radius_correction(g_function: list, rb: float, rb_star: float):
        r"""
        Correct the borehole radius. From paper 3 of Eskilson 1987.
        .. math::
            g(\dfrac{t}{t_s}, \dfrac{r_b^*}{H}) =
            g(\dfrac{t}{t_s}, \dfrac{r_b}{H}) - ln(\dfrac{r_b^*}{r_b})
        Parameters
        ----------
        g_function: list
            A g-function
        rb: float
            The current borehole radius
        rb_star: float
            The borehole radius that is being corrected to
        Returns
        -------
        g_function_corrected: list
            A corrected g_function
        """
        g_function_corrected = []
        for g in g_function:
            g_function_corrected.append(g - log(rb_star / rb))
        return g_function_corrected
