from abc import abstractmethod
from math import floor
from typing import Union

from ghedesigner.borehole import GHEBorehole
from ghedesigner.domains import (
    bi_rectangle_nested,
    bi_rectangle_zoned_nested,
    polygonal_land_constraint,
    rectangular,
    square_and_near_square,
)
from ghedesigner.enums import BHPipeType, FlowConfigType, TimestepType
from ghedesigner.geometry import (
    GeometricConstraints,
    GeometricConstraintsBiRectangle,
    GeometricConstraintsBiRectangleConstrained,
    GeometricConstraintsBiZoned,
    GeometricConstraintsNearSquare,
    GeometricConstraintsRectangle,
    GeometricConstraintsRowWise,
)
from ghedesigner.media import GHEFluid, Grout, Pipe, Soil
from ghedesigner.search_routines import Bisection1D, Bisection2D, BisectionZD, RowWiseModifiedBisectionSearch
from ghedesigner.simulation import SimulationParameters

AnyBisectionType = Union[Bisection1D, Bisection2D, BisectionZD, RowWiseModifiedBisectionSearch]


class DesignBase:
    def __init__(
        self,
        v_flow: float,
        _borehole: GHEBorehole,
        bhe_type: BHPipeType,
        fluid: GHEFluid,
        pipe: Pipe,
        grout: Grout,
        soil: Soil,
        sim_params: SimulationParameters,
        geometric_constraints: GeometricConstraints,
        hourly_extraction_ground_loads: list,
        method: TimestepType,
        flow_type: FlowConfigType = FlowConfigType.BOREHOLE,
        load_years=None,
    ):
        if load_years is None:
            load_years = [2019]
        self.load_years = load_years
        self.V_flow = v_flow  # volumetric flow rate, m3/s
        self.borehole = _borehole
        self.bhe_type = bhe_type  # a borehole heat exchanger object
        self.fluid = fluid  # a fluid object
        self.pipe = pipe
        self.grout = grout
        self.soil = soil
        self.sim_params = sim_params
        self.geometric_constraints = geometric_constraints
        self.hourly_extraction_ground_loads = hourly_extraction_ground_loads
        self.method = method
        self.flow_type = flow_type
        if self.method == "hourly":
            msg = (
                "Note: It is not recommended to perform a field selection \n",
                "with the hourly simulation due to computation time. If \n",
                "the goal is to validate the selected field with the \n",
                "hourly simulation, the better solution is to utilize the \n",
                "hybrid simulation to automatically select the field. Then \n",
                "perform a sizing routine on the selected GHE with the \n",
                "hourly simulation.",
            )
            # Wrap the text to a 50 char line width and print it
            for element in msg:
                print(element)
            print("\n")

    @abstractmethod
    def find_design(self, disp=False) -> AnyBisectionType:
        pass

    def to_input(self) -> dict:
        return {'flow_rate': self.V_flow, 'flow_type': self.flow_type.name}


class DesignNearSquare(DesignBase):
    def __init__(
        self,
        v_flow: float,
        _borehole: GHEBorehole,
        bhe_type: BHPipeType,
        fluid: GHEFluid,
        pipe: Pipe,
        grout: Grout,
        soil: Soil,
        sim_params: SimulationParameters,
        geometric_constraints: GeometricConstraintsNearSquare,
        hourly_extraction_ground_loads: list,
        method: TimestepType,
        flow_type: FlowConfigType = FlowConfigType.BOREHOLE,
        load_years=None,
    ):
        super().__init__(
            v_flow,
            _borehole,
            bhe_type,
            fluid,
            pipe,
            grout,
            soil,
            sim_params,
            geometric_constraints,
            hourly_extraction_ground_loads,
            method,
            flow_type,
            load_years,
        )
        self.geometric_constraints = geometric_constraints
        # If a near-square design routine is requested, then we go from a
        # 1x1 to 32x32 at the B-spacing
        # The lower end of the near-square routine is always 1
        # There would never be a time that a user would __need__ to give a
        # different lower range. The upper number of boreholes range is
        # calculated based on the spacing and length provided.
        n = floor(self.geometric_constraints.length / self.geometric_constraints.b) + 1
        number_of_boreholes = int(n)
        self.coordinates_domain, self.fieldDescriptors = square_and_near_square(
            1, number_of_boreholes, self.geometric_constraints.b
        )

    def find_design(self, disp=False) -> Bisection1D:
        if disp:
            title = "Find near-square.."
            print(title + "\n" + len(title) * "=")
        return Bisection1D(
            self.coordinates_domain,
            self.fieldDescriptors,
            self.V_flow,
            self.borehole,
            self.bhe_type,
            self.fluid,
            self.pipe,
            self.grout,
            self.soil,
            self.sim_params,
            self.hourly_extraction_ground_loads,
            method=self.method,
            flow_type=self.flow_type,
            disp=disp,
            field_type="near-square",
            load_years=self.load_years,
        )


class DesignRectangle(DesignBase):
    def __init__(
        self,
        v_flow: float,
        _borehole: GHEBorehole,
        bhe_type: BHPipeType,
        fluid: GHEFluid,
        pipe: Pipe,
        grout: Grout,
        soil: Soil,
        sim_params: SimulationParameters,
        geometric_constraints: GeometricConstraintsRectangle,
        hourly_extraction_ground_loads: list,
        method: TimestepType,
        flow_type: FlowConfigType = FlowConfigType.BOREHOLE,
        load_years=None,
    ):
        super().__init__(
            v_flow,
            _borehole,
            bhe_type,
            fluid,
            pipe,
            grout,
            soil,
            sim_params,
            geometric_constraints,
            hourly_extraction_ground_loads,
            method,
            flow_type,
            load_years,
        )
        self.geometric_constraints = geometric_constraints
        self.coordinates_domain, self.fieldDescriptors = rectangular(
            self.geometric_constraints.length,
            self.geometric_constraints.width,
            self.geometric_constraints.b_min,
            self.geometric_constraints.b_max_x,
        )

    def find_design(self, disp=False) -> Bisection1D:
        if disp:
            title = "Find rectangle..."
            print(title + "\n" + len(title) * "=")
        return Bisection1D(
            self.coordinates_domain,
            self.fieldDescriptors,
            self.V_flow,
            self.borehole,
            self.bhe_type,
            self.fluid,
            self.pipe,
            self.grout,
            self.soil,
            self.sim_params,
            self.hourly_extraction_ground_loads,
            method=self.method,
            flow_type=self.flow_type,
            disp=disp,
            field_type="rectangle",
            load_years=self.load_years,
        )


class DesignBiRectangle(DesignBase):
    def __init__(
        self,
        v_flow: float,
        _borehole: GHEBorehole,
        bhe_type: BHPipeType,
        fluid: GHEFluid,
        pipe: Pipe,
        grout: Grout,
        soil: Soil,
        sim_params: SimulationParameters,
        geometric_constraints: GeometricConstraintsBiRectangle,
        hourly_extraction_ground_loads: list,
        method: TimestepType,
        flow_type: FlowConfigType = FlowConfigType.BOREHOLE,
        load_years=None,
    ):
        super().__init__(
            v_flow,
            _borehole,
            bhe_type,
            fluid,
            pipe,
            grout,
            soil,
            sim_params,
            geometric_constraints,
            hourly_extraction_ground_loads,
            method,
            flow_type,
            load_years,
        )
        self.geometric_constraints = geometric_constraints
        self.coordinates_domain_nested, self.fieldDescriptors = bi_rectangle_nested(
            self.geometric_constraints.length,
            self.geometric_constraints.width,
            self.geometric_constraints.b_min,
            self.geometric_constraints.b_max_x,
            self.geometric_constraints.b_max_y,
            disp=False,
        )

    def find_design(self, disp=False) -> Bisection2D:
        if disp:
            title = "Find bi-rectangle..."
            print(title + "\n" + len(title) * "=")
        return Bisection2D(
            self.coordinates_domain_nested,
            self.fieldDescriptors,
            self.V_flow,
            self.borehole,
            self.bhe_type,
            self.fluid,
            self.pipe,
            self.grout,
            self.soil,
            self.sim_params,
            self.hourly_extraction_ground_loads,
            method=self.method,
            flow_type=self.flow_type,
            disp=disp,
            field_type="bi-rectangle",
            load_years=self.load_years,
        )


class DesignBiZoned(DesignBase):
    def __init__(
        self,
        v_flow: float,
        _borehole: GHEBorehole,
        bhe_type: BHPipeType,
        fluid: GHEFluid,
        pipe: Pipe,
        grout: Grout,
        soil: Soil,
        sim_params: SimulationParameters,
        geometric_constraints: GeometricConstraintsBiZoned,
        hourly_extraction_ground_loads: list,
        method: TimestepType,
        flow_type: FlowConfigType = FlowConfigType.BOREHOLE,
        load_years=None,
    ):
        super().__init__(
            v_flow,
            _borehole,
            bhe_type,
            fluid,
            pipe,
            grout,
            soil,
            sim_params,
            geometric_constraints,
            hourly_extraction_ground_loads,
            method,
            flow_type,
            load_years,
        )
        self.geometric_constraints = geometric_constraints
        self.coordinates_domain_nested, self.fieldDescriptors = bi_rectangle_zoned_nested(
            self.geometric_constraints.length,
            self.geometric_constraints.width,
            self.geometric_constraints.b_min,
            self.geometric_constraints.b_max_x,
            self.geometric_constraints.b_max_y,
        )

    def find_design(self, disp=False) -> BisectionZD:
        if disp:
            title = "Find bi-zoned..."
            print(title + "\n" + len(title) * "=")
        return BisectionZD(
            self.coordinates_domain_nested,
            self.fieldDescriptors,
            self.V_flow,
            self.borehole,
            self.bhe_type,
            self.fluid,
            self.pipe,
            self.grout,
            self.soil,
            self.sim_params,
            self.hourly_extraction_ground_loads,
            method=self.method,
            flow_type=self.flow_type,
            disp=disp,
            field_type="bi-zoned",
            load_years=self.load_years,
        )


class DesignBiRectangleConstrained(DesignBase):
    def __init__(
        self,
        v_flow: float,
        _borehole: GHEBorehole,
        bhe_type: BHPipeType,
        fluid: GHEFluid,
        pipe: Pipe,
        grout: Grout,
        soil: Soil,
        sim_params: SimulationParameters,
        geometric_constraints: GeometricConstraintsBiRectangleConstrained,
        hourly_extraction_ground_loads: list,
        method: TimestepType,
        flow_type: FlowConfigType = FlowConfigType.BOREHOLE,
        load_years=None,
        keep_contour=[True, False],
    ):
        super().__init__(
            v_flow,
            _borehole,
            bhe_type,
            fluid,
            pipe,
            grout,
            soil,
            sim_params,
            geometric_constraints,
            hourly_extraction_ground_loads,
            method,
            flow_type,
            load_years,
        )
        self.geometric_constraints = geometric_constraints
        self.coordinates_domain_nested, self.fieldDescriptors = polygonal_land_constraint(
            self.geometric_constraints.b_min,
            self.geometric_constraints.b_max_x,
            self.geometric_constraints.b_max_y,
            self.geometric_constraints.property_boundary,
            self.geometric_constraints.no_go_boundaries,
            keep_contour=keep_contour,
        )

    def find_design(self, disp=False) -> BisectionZD:
        if disp:
            title = "Find bi-rectangle_constrained..."
            print(title + "\n" + len(title) * "=")
        return BisectionZD(
            self.coordinates_domain_nested,
            self.fieldDescriptors,
            self.V_flow,
            self.borehole,
            self.bhe_type,
            self.fluid,
            self.pipe,
            self.grout,
            self.soil,
            self.sim_params,
            self.hourly_extraction_ground_loads,
            method=self.method,
            flow_type=self.flow_type,
            disp=disp,
            field_type="bi-rectangle_constrained",
            load_years=self.load_years,
        )


class DesignRowWise(DesignBase):
    def __init__(
        self,
        v_flow: float,
        _borehole: GHEBorehole,
        bhe_type: BHPipeType,
        fluid: GHEFluid,
        pipe: Pipe,
        grout: Grout,
        soil: Soil,
        sim_params: SimulationParameters,
        geometric_constraints: GeometricConstraintsRowWise,
        hourly_extraction_ground_loads: list,
        method: TimestepType,
        flow_type: FlowConfigType = FlowConfigType.BOREHOLE,
        load_years=None,
    ):
        super().__init__(
            v_flow,
            _borehole,
            bhe_type,
            fluid,
            pipe,
            grout,
            soil,
            sim_params,
            geometric_constraints,
            hourly_extraction_ground_loads,
            method,
            flow_type,
            load_years,
        )
        self.geometric_constraints = geometric_constraints

    def find_design(self, disp=False) -> RowWiseModifiedBisectionSearch:
        if disp:
            title = "Find row-wise..."
            print(title + "\n" + len(title) * "=")
        return RowWiseModifiedBisectionSearch(
            self.V_flow,
            self.borehole,
            self.bhe_type,
            self.fluid,
            self.pipe,
            self.grout,
            self.soil,
            self.sim_params,
            self.hourly_extraction_ground_loads,
            self.geometric_constraints,
            method=self.method,
            flow_type=self.flow_type,
            disp=disp,
            field_type="row-wise",
            load_years=self.load_years,
        )
