from pygfunction.boreholes import Borehole


class GHEBorehole(Borehole):
    def __init__(self, height, buried_depth, radius, x, y, tilt=0, orientation=0):
        super().__init__(height, buried_depth, radius, x, y, tilt, orientation)

    def to_input(self):
        return {'buried_depth': self.D, 'diameter': self.r_b * 2.0}
