from math import pi

DEG_TO_RAD = pi / 180.0
RAD_TO_DEG = 180.0 / pi
PI_OVER_2 = pi / 2.0
TWO_PI = 2.0 * pi
HRS_IN_DAY = 24
SEC_IN_HR = 3600
