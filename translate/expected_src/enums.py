from enum import Enum, auto


class BHPipeType(Enum):
    COAXIAL = auto()
    DOUBLEUTUBEPARALLEL = auto()
    DOUBLEUTUBESERIES = auto()
    SINGLEUTUBE = auto()


class DoubleUTubeConnType(Enum):
    PARALLEL = auto()
    SERIES = auto()


class TimestepType(Enum):
    HOURLY = auto()
    HYBRID = auto()


class DesignGeomType(Enum):
    BIRECTANGLE = auto()
    BIRECTANGLECONSTRAINED = auto()
    BIZONEDRECTANGLE = auto()
    NEARSQUARE = auto()
    RECTANGLE = auto()
    ROWWISE = auto()


class FlowConfigType(Enum):
    BOREHOLE = auto()
    SYSTEM = auto()


class FluidType(Enum):
    ETHYLALCOHOL = auto()
    ETHYLENEGLYCOL = auto()
    METHYLALCOHOL = auto()
    PROPYLENEGLYCOL = auto()
    WATER = auto()
