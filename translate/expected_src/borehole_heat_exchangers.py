from abc import abstractmethod
from copy import deepcopy
from typing import Optional, Tuple

import numpy as np
import pygfunction as gt
from numpy import log, pi, sqrt

from ghedesigner.borehole import GHEBorehole
from ghedesigner.constants import TWO_PI
from ghedesigner.enums import BHPipeType, DoubleUTubeConnType
from ghedesigner.media import GHEFluid, Grout, Pipe, Soil
from ghedesigner.utilities import solve_root


class GHEDesignerBoreholeBase:
    def __init__(
        self,
        m_flow_borehole: float,
        fluid: GHEFluid,
        _borehole: GHEBorehole,
        pipe: Pipe,
        grout: Grout,
        soil: Soil,
    ):
        self.m_flow_borehole = m_flow_borehole
        self.borehole = _borehole
        self.pipe = pipe
        self.soil = soil
        self.grout = grout
        self.fluid = fluid
        self.b = _borehole

    @abstractmethod
    def calc_fluid_pipe_resistance(self) -> float:
        pass

    @abstractmethod
    def calc_effective_borehole_resistance(self) -> float:
        pass

    @staticmethod
    def compute_fluid_resistance(h_conv: float, radius: float) -> float:
        return 1 / (h_conv * TWO_PI * radius)

    @staticmethod
    def compute_reynolds(m_flow_pipe: float, r_in: float, fluid: GHEFluid) -> float:
        # Hydraulic diameter
        dia_hydraulic = 2.0 * r_in
        # Fluid velocity
        vol_flow_rate = m_flow_pipe / fluid.rho
        area_cr_inner = pi * r_in**2
        velocity = vol_flow_rate / area_cr_inner
        # Reynolds number
        return fluid.rho * velocity * dia_hydraulic / fluid.mu


class SingleUTube(gt.pipes.SingleUTube, GHEDesignerBoreholeBase):
    def __init__(
        self,
        m_flow_borehole: float,
        fluid: GHEFluid,
        _borehole: GHEBorehole,
        pipe: Pipe,
        grout: Grout,
        soil: Soil,
    ):
        GHEDesignerBoreholeBase.__init__(self, m_flow_borehole, fluid, _borehole, pipe, grout, soil)
        self.R_p = 0.0
        self.R_f = 0.0
        self.R_fp = 0.0
        self.h_f = 0.0
        self.fluid = fluid
        self.m_flow_borehole = m_flow_borehole
        self.borehole = _borehole
        self.pipe = pipe
        self.soil = soil
        self.grout = grout

        # compute resistances required to construct inherited class
        self.calc_fluid_pipe_resistance()

        # Initialize pygfunction SingleUTube base class
        super().__init__(
            self.pipe.pos,
            self.pipe.r_in,
            self.pipe.r_out,
            self.borehole,
            self.soil.k,
            self.grout.k,
            self.R_fp,
        )

        # these methods must be called after inherited class construction
        self.update_thermal_resistances(self.R_fp)
        self.calc_effective_borehole_resistance()

    def calc_fluid_pipe_resistance(self) -> float:
        self.h_f = gt.pipes.convective_heat_transfer_coefficient_circular_pipe(
            self.m_flow_borehole,
            self.pipe.r_in,
            self.fluid.mu,
            self.fluid.rho,
            self.fluid.k,
            self.fluid.cp,
            self.pipe.roughness,
        )
        self.R_f = self.compute_fluid_resistance(self.h_f, self.pipe.r_in)
        self.R_p = gt.pipes.conduction_thermal_resistance_circular_pipe(self.pipe.r_in, self.pipe.r_out, self.pipe.k)
        self.R_fp = self.R_f + self.R_p
        return self.R_fp

    def calc_effective_borehole_resistance(self) -> float:
        # TODO: should this be here?
        self._initialize_stored_coefficients()
        resist_bh_effective = self.effective_borehole_thermal_resistance(self.m_flow_borehole, self.fluid.cp)
        return resist_bh_effective

    def to_single(self):
        return self

    def as_dict(self) -> dict:
        return {'type': str(self.__class__)}


class GHEDesignerBoreholeWithMultiplePipes(GHEDesignerBoreholeBase):
    @staticmethod
    def calc_mass_flow_pipe(m_flow_borehole: float, config: Optional[DoubleUTubeConnType] = None) -> float:
        if config == DoubleUTubeConnType.SERIES or config is None:
            return m_flow_borehole
        elif config == DoubleUTubeConnType.PARALLEL:
            return m_flow_borehole / 2.0
        else:
            raise ValueError(f"Invalid flow configuration: {config!s}")

    def equivalent_single_u_tube(
        self, vol_fluid: float, vol_pipe: float, resist_conv: float, resist_pipe: float
    ) -> SingleUTube:
        # Note: BHE can be double U-tube or coaxial heat exchanger

        # Compute equivalent single U-tube geometry
        n = 2
        r_p_i_prime = sqrt(vol_fluid / (n * pi))
        r_p_o_prime = sqrt((vol_fluid + vol_pipe) / (n * pi))
        # A_s_prime = n * pi * ((r_p_i_prime * 2) ** 2)
        # h_prime = 1 / (R_conv * A_s_prime)
        k_p_prime = log(r_p_o_prime / r_p_i_prime) / (TWO_PI * n * resist_pipe)

        # Place single u-tubes at a B-spacing
        # Total horizontal space (m)
        # TODO: investigate why this deepcopy is required
        _borehole = deepcopy(self.b)
        spacing = _borehole.r_b * 2 - (n * r_p_o_prime * 2)
        # If the spacing is negative, then the borehole is not large enough,
        # therefore, the borehole will be increased if necessary
        if spacing <= 0.0:
            _borehole.r_b -= spacing  # Add on the necessary spacing to fit
            spacing = (_borehole.r_b * 2.0) / 10.0  # make spacing 1/10th of diameter
            _borehole.r_b += spacing
        s = spacing / 3  # outer tube-to-tube shank spacing (m)
        pos = Pipe.place_pipes(s, r_p_o_prime, 1)  # Place single u-tube pipe

        # New pipe geometry
        roughness = self.pipe.roughness
        rho_cp = self.pipe.rhoCp
        pipe = Pipe(pos, r_p_i_prime, r_p_o_prime, s, roughness, k_p_prime, rho_cp)

        # Don't tie together the original and equivalent BHEs
        m_flow_borehole = self.m_flow_borehole
        fluid = self.fluid

        # TODO: investigate why this deepcopy is required
        grout = deepcopy(self.grout)
        soil = self.soil

        # Maintain the same mass flow rate so that the Rb/Rb* is not diverged from
        eq_single_u_tube = SingleUTube(m_flow_borehole, fluid, _borehole, pipe, grout, soil)

        # The thermal conductivity of the pipe must now be varied such that R_fp is
        # equivalent to R_fp_prime
        def objective_pipe_conductivity(pipe_k: float):
            eq_single_u_tube.pipe.k = pipe_k
            eq_single_u_tube.calc_fluid_pipe_resistance()
            return eq_single_u_tube.R_fp - (resist_conv + resist_pipe)

        # Use Brent Quadratic to find the root
        # Define a lower and upper for pipe thermal conductivities
        k_p_lower = eq_single_u_tube.pipe.k / 100.0
        k_p_upper = eq_single_u_tube.pipe.k * 10.0

        # Solve for the mass flow rate to make the convection values equal
        solve_root(
            eq_single_u_tube.pipe.k,
            objective_pipe_conductivity,
            lower=k_p_lower,
            upper=k_p_upper,
        )

        return eq_single_u_tube

    def match_effective_borehole_resistance(self, preliminary_new_single_u_tube: SingleUTube) -> SingleUTube:
        # Find the thermal conductivity that makes the borehole resistances equal

        # Define objective function for varying the grout thermal conductivity
        def objective_resistance(k_g_in: float):
            # update new tubes grout thermal conductivity and relevant parameters
            preliminary_new_single_u_tube.k_g = k_g_in
            preliminary_new_single_u_tube.grout.k = k_g_in
            # Update Delta-circuit thermal resistances
            # Initialize stored_coefficients
            resist_bh_prime = preliminary_new_single_u_tube.calc_effective_borehole_resistance()
            resist_bh = self.calc_effective_borehole_resistance()
            return resist_bh - resist_bh_prime

        # Use Brent Quadratic to find the root
        # Define a lower and upper for thermal conductivities
        kg_lower = 1e-02
        kg_upper = 7.0
        k_g = solve_root(preliminary_new_single_u_tube.grout.k, objective_resistance, lower=kg_lower, upper=kg_upper)
        # Ensure the grout thermal conductivity is updated
        preliminary_new_single_u_tube.k_g = k_g
        preliminary_new_single_u_tube.grout.k = k_g

        return preliminary_new_single_u_tube


class MultipleUTube(gt.pipes.MultipleUTube, GHEDesignerBoreholeWithMultiplePipes):
    def __init__(
        self,
        m_flow_borehole: float,
        fluid: GHEFluid,
        _borehole: GHEBorehole,
        pipe: Pipe,
        grout: Grout,
        soil: Soil,
        config=DoubleUTubeConnType.PARALLEL,
    ):
        self.R_p = 0.0
        self.R_f = 0.0
        self.R_fp = 0.0
        self.h_f = 0.0
        self.fluid = fluid
        self.m_flow_borehole = m_flow_borehole
        self.m_flow_pipe = self.calc_mass_flow_pipe(self.m_flow_borehole, config)
        self.borehole = _borehole
        self.pipe = pipe
        self.soil = soil
        self.grout = grout
        self.flow_config = config

        # Get number of pipes from positions
        self.resist_delta = None
        self.n_pipes = len(pipe.pos) / 2

        # compute resistances required to construct inherited class
        self.calc_fluid_pipe_resistance()

        super().__init__(
            self.pipe.pos,
            self.pipe.r_in,
            self.pipe.r_out,
            self.borehole,
            self.soil.k,
            self.grout.k,
            self.R_fp,
            self.pipe.n_pipes,
            config=config.name,
        )

        # these methods must be called after inherited class construction
        self.update_thermal_resistances(self.R_fp)
        self.calc_effective_borehole_resistance()

    def calc_fluid_pipe_resistance(self) -> float:
        self.h_f = gt.pipes.convective_heat_transfer_coefficient_circular_pipe(
            self.m_flow_pipe,
            self.pipe.r_in,
            self.fluid.mu,
            self.fluid.rho,
            self.fluid.k,
            self.fluid.cp,
            self.pipe.roughness,
        )
        self.R_f = self.compute_fluid_resistance(self.h_f, self.pipe.r_in)
        self.R_p = gt.pipes.conduction_thermal_resistance_circular_pipe(self.pipe.r_in, self.pipe.r_out, self.pipe.k)
        self.R_fp = self.R_f + self.R_p
        return self.R_fp

    def calc_effective_borehole_resistance(self) -> float:
        # TODO: should this be here?
        self._initialize_stored_coefficients()
        resist_bh_effective = self.effective_borehole_thermal_resistance(self.m_flow_borehole, self.fluid.cp)
        return resist_bh_effective

    def u_tube_volumes(self) -> Tuple[float, float, float, float]:
        # Compute volumes for U-tube geometry
        # Effective parameters
        n = self.nPipes * 2  # Total number of tubes
        # Total inside surface area (m^2)
        area_surf_inner = n * pi * (self.r_in * 2.0) ** 2
        resist_conv = 1 / (self.h_f * area_surf_inner)  # Convection resistance (m.K/W)
        # Volumes
        vol_fluid = n * pi * (self.r_in**2)
        vol_pipe = n * pi * (self.r_out**2) - vol_fluid
        # V_grout = pi * (u_tube.b.r_b**2) - vol_pipe - vol_fluid
        resist_pipe = log(self.r_out / self.r_in) / (n * TWO_PI * self.pipe.k)
        return vol_fluid, vol_pipe, resist_conv, resist_pipe

    def to_single(self) -> SingleUTube:
        # Find an equivalent single U-tube given multiple U-tube geometry

        # Get effective parameters for the multiple u-tube
        vol_fluid, vol_pipe, resist_conv, resist_pipe = self.u_tube_volumes()

        single_u_tube = self.equivalent_single_u_tube(vol_fluid, vol_pipe, resist_conv, resist_pipe)

        # Vary grout thermal conductivity to match effective borehole thermal resistance
        self.match_effective_borehole_resistance(single_u_tube)

        return single_u_tube


class CoaxialPipe(gt.pipes.Coaxial, GHEDesignerBoreholeWithMultiplePipes):
    def __init__(
        self, m_flow_borehole: float, fluid: GHEFluid, _borehole: GHEBorehole, pipe: Pipe, grout: Grout, soil: Soil
    ):
        self.m_flow_borehole = m_flow_borehole
        # Store Thermal properties
        self.soil = soil
        self.grout = grout
        self.pipe = pipe
        # Store fluid properties
        self.fluid = fluid
        # Store pipe roughness
        self.roughness = self.pipe.roughness

        self.r_inner = pipe.r_in
        self.r_outer = pipe.r_out

        # Pipe naming nomenclature
        # <var>_<inner/outer pipe>_<inner/outer surface>
        # e.g. r_in_in is inner radius of the inner pipe

        # Unpack the radii to reduce confusion in the future
        self.r_in_in, self.r_in_out = self.r_inner
        self.r_out_in, self.r_out_out = self.r_outer

        self.b = _borehole  # pygfunction borehole

        # Declare variables that are computed in compute_resistance()
        self.R_p_in = 0.0
        self.R_p_out = 0.0
        self.R_grout = 0.0
        self.h_f_in = 0.0
        self.h_f_a_in = 0.0
        self.h_f_a_out = 0.0
        self.R_f_a_in = 0.0
        self.R_f_a_out = 0.0
        self.R_f_in = 0.0
        self.R_fp = 0.0

        # Store Thermal properties
        self.soil = soil
        self.grout = grout
        self.pipe = pipe
        # Store fluid properties
        self.fluid = fluid
        # Store borehole
        self.borehole = _borehole

        # compute resistances required to construct inherited class
        self.calc_fluid_pipe_resistance()

        # Vectors of inner and outer pipe radii
        # Note: The dimensions of the inlet pipe are the first elements of the vectors.
        # In this example, the inlet pipe is the inside pipe.
        # TODO: fix this
        r_inner_p = np.array([pipe.r_in[0], pipe.r_out[0]])  # Inner pipe radii (m)
        r_outer_p = np.array([pipe.r_in[1], pipe.r_out[1]])  # Outer pipe radii (m)

        gt.pipes.Coaxial.__init__(
            self, pipe.pos, r_inner_p, r_outer_p, _borehole, self.soil.k, self.grout.k, self.R_ff, self.R_fp
        )

        # these methods must be called after inherited class construction
        self.update_thermal_resistances(self.R_ff, self.R_fp)
        self.calc_effective_borehole_resistance()

    def calc_fluid_pipe_resistance(self) -> None:
        # inner pipe convection resistance
        self.h_f_in = gt.pipes.convective_heat_transfer_coefficient_circular_pipe(
            self.m_flow_borehole,
            self.r_in_in,
            self.fluid.mu,
            self.fluid.rho,
            self.fluid.k,
            self.fluid.cp,
            self.pipe.roughness,
        )
        self.R_f_in = self.compute_fluid_resistance(self.h_f_in, self.r_in_in)

        # inner pipe conduction resistance
        self.R_p_in = gt.pipes.conduction_thermal_resistance_circular_pipe(self.r_in_in, self.r_in_out, self.pipe.k[0])

        # annulus convection resistances
        self.h_f_a_in, self.h_f_a_out = gt.pipes.convective_heat_transfer_coefficient_concentric_annulus(
            self.m_flow_borehole,
            self.r_in_out,
            self.r_out_in,
            self.fluid.mu,
            self.fluid.rho,
            self.fluid.k,
            self.fluid.cp,
            self.roughness,
        )

        self.R_f_a_in = self.compute_fluid_resistance(self.h_f_a_in, self.r_in_out)
        self.R_f_a_out = self.compute_fluid_resistance(self.h_f_a_out, self.r_out_in)

        # inner pipe conduction resistance
        self.R_p_out = gt.pipes.conduction_thermal_resistance_circular_pipe(
            self.r_out_in, self.r_out_out, self.pipe.k[1]
        )

        # inner fluid to inner annulus fluid resistance
        self.R_ff = self.R_f_in + self.R_p_in + self.R_f_a_in

        # outer annulus fluid to pipe thermal resistance
        self.R_fp = self.R_p_out + self.R_f_a_out

    def calc_effective_borehole_resistance(self) -> float:
        # TODO: should this be here?
        self._initialize_stored_coefficients()
        resist_bh_effective = self.effective_borehole_thermal_resistance(self.m_flow_borehole, self.fluid.cp)
        return resist_bh_effective

    def to_single(self) -> SingleUTube:
        # Find an equivalent single U-tube given a coaxial heat exchanger
        vol_fluid, vol_pipe, resist_conv, resist_pipe = self.concentric_tube_volumes()

        preliminary = self.equivalent_single_u_tube(vol_fluid, vol_pipe, resist_conv, resist_pipe)

        # Vary grout thermal conductivity to match effective borehole thermal
        # resistance
        new_single_u_tube = self.match_effective_borehole_resistance(preliminary)

        return new_single_u_tube

    @staticmethod
    def compute_reynolds_concentric(m_flow_pipe: float, r_a_in: float, r_a_out: float, fluid: GHEFluid) -> float:
        # Hydraulic diameter and radius for concentric tube annulus region
        dia_hydraulic = 2 * (r_a_out - r_a_in)
        # r_h = dia_hydraulic / 2
        # Cross-sectional area of the annulus region
        area_cr_annular = pi * ((r_a_out**2) - (r_a_in**2))
        # Volume flow rate
        vol_flow_rate = m_flow_pipe / fluid.rho
        # Average velocity
        velocity = vol_flow_rate / area_cr_annular
        # Reynolds number
        return fluid.rho * velocity * dia_hydraulic / fluid.mu

    def as_dict(self) -> dict:
        blob = {}
        blob['type'] = str(self.__class__)
        blob['mass_flow_borehole'] = {'value': self.m_flow_borehole, 'units': 'kg/s'}
        blob['mass_flow_pipe'] = {'value': self.m_flow_borehole, 'units': 'kg/s'}
        # blob['borehole'] = self.as_dict()
        blob['soil'] = self.soil.as_dict()
        blob['grout'] = self.grout.as_dict()
        blob['pipe'] = self.pipe.as_dict()
        # blob['fluid'] = self.fluid.as_dict()
        reynold_no = self.compute_reynolds_concentric(
            self.m_flow_borehole, self.pipe.r_in, self.pipe.roughness, self.fluid
        )
        blob['reynolds'] = {'value': reynold_no, 'units': ''}
        # blob['convection_coefficient'] = {'value': self.h_f, 'units': 'W/m2-K'}
        # blob['pipe_resistance'] = {'value': self.R_p, 'units': 'm-K/W'}
        # blob['fluid_resistance'] = {'value': self.R_f, 'units': 'm-K/W'}
        return blob

    def concentric_tube_volumes(self) -> Tuple[float, float, float, float]:
        # Unpack the radii to reduce confusion in the future
        r_in_in, r_in_out = self.r_inner
        r_out_in, r_out_out = self.r_outer
        # Compute volumes for concentric ghe geometry
        vol_fluid = pi * ((r_in_in**2) + (r_out_in**2) - (r_in_out**2))
        vol_pipe = pi * ((r_in_out**2) - (r_in_in**2) + (r_out_out**2) - (r_out_in**2))
        # V_grout = pi * ((coaxial.b.r_b**2) - (r_out_out**2))
        area_surf_outer = pi * 2 * r_out_in
        resist_conv = 1 / (self.h_f_a_in * area_surf_outer)
        resist_pipe = log(r_out_out / r_out_in) / (TWO_PI * self.pipe.k[1])
        return vol_fluid, vol_pipe, resist_conv, resist_pipe


def get_bhe_object(
    bhe_type: BHPipeType,
    m_flow_borehole: float,
    fluid: GHEFluid,
    _borehole: GHEBorehole,
    pipe: Pipe,
    grout: Grout,
    soil: Soil,
):
    if bhe_type == BHPipeType.SINGLEUTUBE:
        return SingleUTube(m_flow_borehole, fluid, _borehole, pipe, grout, soil)
    elif bhe_type == BHPipeType.DOUBLEUTUBEPARALLEL:
        return MultipleUTube(m_flow_borehole, fluid, _borehole, pipe, grout, soil, config=DoubleUTubeConnType.PARALLEL)
    elif bhe_type == BHPipeType.DOUBLEUTUBESERIES:
        return MultipleUTube(m_flow_borehole, fluid, _borehole, pipe, grout, soil, config=DoubleUTubeConnType.SERIES)
    elif bhe_type == BHPipeType.COAXIAL:
        return CoaxialPipe(m_flow_borehole, fluid, _borehole, pipe, grout, soil)
    else:
        raise TypeError("BHE type not implemented")
