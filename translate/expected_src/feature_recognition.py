from ghedesigner.shape import point_polygon_check


def remove_cutout(coordinates, boundaries, remove_inside=True, keep_contour=True, on_edge_tolerance=0.01):
    if isinstance(boundaries[0][0], (int, float)):
        boundaries = [boundaries]

    new_coordinates = []
    inside = 1
    on_edge = 0
    for coordinate in coordinates:
        boundary_results = []
        for boundary in boundaries:
            boundary_results.append(point_polygon_check(boundary, coordinate, on_edge_tolerance=on_edge_tolerance))
        if remove_inside:
            if (inside not in boundary_results) and not (on_edge in boundary_results and not keep_contour):
                new_coordinates.append(coordinate)
        elif (inside in boundary_results) or (on_edge in boundary_results and keep_contour):
            new_coordinates.append(coordinate)

    return new_coordinates


def determine_largest_rectangle(property_boundary):
    x_max = float('-inf')
    y_max = float('-inf')
    x_min = float('inf')
    y_min = float('inf')
    for bf_outline in property_boundary:
        for x, y in bf_outline:
            x_max = max(x, x_max)
            y_max = max(y, y_max)
            x_min = min(x, x_min)
            y_min = min(y, y_min)

    rectangle = [[x_min, y_min], [x_max, y_min], [x_max, y_max], [x_min, y_max], [x_min, y_min]]

    return rectangle
