from math import cos, pi, sin

from pygfunction.media import Fluid

from ghedesigner.enums import FluidType


class GHEFluid(Fluid):
    def __init__(self, fluid_str: str, percent: float, temperature: float = 20):
        fluid_str = fluid_str.upper()
        if fluid_str == FluidType.ETHYLALCOHOL.name:
            self.fluid_type = FluidType.ETHYLALCOHOL
        elif fluid_str == FluidType.ETHYLENEGLYCOL.name:
            self.fluid_type = FluidType.ETHYLENEGLYCOL
        elif fluid_str == FluidType.METHYLALCOHOL.name:
            self.fluid_type = FluidType.METHYLALCOHOL
        elif fluid_str == FluidType.PROPYLENEGLYCOL.name:
            self.fluid_type = FluidType.PROPYLENEGLYCOL
        elif fluid_str == FluidType.WATER.name:
            self.fluid_type = FluidType.WATER
        else:
            raise ValueError(f"FluidType \"{fluid_str}\" not implemented")

        fluid_map = {
            FluidType.ETHYLALCOHOL.name: "MEA",
            FluidType.ETHYLENEGLYCOL.name: "MEG",
            FluidType.METHYLALCOHOL.name: "MMA",
            FluidType.PROPYLENEGLYCOL.name: "MPG",
            FluidType.WATER.name: "WATER",
        }

        super().__init__(fluid_map[fluid_str], percent, temperature)
        self.concentration_percent = percent
        self.temperature = temperature

    def to_input(self):
        return {
            'fluid_name': self.fluid_type.name,
            'concentration_percent': self.concentration_percent,
            'temperature': self.temperature,
        }


class ThermalProperty:
    def __init__(self, k, rho_cp):
        self.k = k  # Thermal conductivity (W/m.K)
        self.rhoCp = rho_cp  # Volumetric heat capacity (J/K.m3)

    def as_dict(self) -> dict:
        output = {}
        output['type'] = str(self.__class__)
        output['thermal_conductivity'] = {'value': self.k, 'units': 'W/m-K'}
        output['volumetric_heat_capacity'] = {'value': self.rhoCp, 'units': 'J/K-m3'}
        return output

    def to_input(self) -> dict:
        return {'conductivity': self.k, 'rho_cp': self.rhoCp}


class Grout(ThermalProperty):
    pass


class Pipe(ThermalProperty):
    def __init__(self, pos, r_in, r_out, s, roughness, k, rho_cp):
        # Make variables from ThermalProperty available to Pipe
        super().__init__(k, rho_cp)

        # Pipe specific parameters
        self.pos = pos  # Pipe positions either a list of tuples or tuple
        self.r_in = r_in  # Pipe inner radius (m) can be a float or list
        self.r_out = r_out  # Pipe outer radius (m) can be a float or list
        self.s = s  # Center pipe to center pipe shank spacing
        self.roughness = roughness  # Pipe roughness (m)
        if type(pos) is list:
            self.n_pipes = int(len(pos) / 2)  # Number of pipes
        else:
            self.n_pipes = 1

    def as_dict(self) -> dict:
        output = {}
        output['base'] = super().as_dict()
        output['pipe_center_positions'] = str(self.pos)
        if type(self.r_in) is float:
            output["pipe_inner_diameter"] = str(self.r_in * 2.0)
            output["pipe_outer_diameter"] = str(self.r_out * 2.0)
        else:
            output["pipe_inner_diameters"] = str([x * 2.0 for x in self.r_in])
            output["pipe_outer_diameters"] = str([x * 2.0 for x in self.r_out])
        output['shank_spacing_pipe_to_pipe'] = {'value': self.s, 'units': 'm'}
        output['pipe_roughness'] = {'value': self.roughness, 'units': 'm'}
        output['number_of_pipes'] = self.n_pipes
        return output

    @staticmethod
    def place_pipes(s, r_out, n_pipes):
        """Positions pipes in an axis-symmetric configuration."""
        shank_space = s / 2 + r_out
        dt = pi / float(n_pipes)
        pos = [(0.0, 0.0) for _ in range(2 * n_pipes)]
        for i in range(n_pipes):
            pos[2 * i] = (shank_space * cos(2.0 * i * dt + pi), shank_space * sin(2.0 * i * dt + pi))
            pos[2 * i + 1] = (shank_space * cos(2.0 * i * dt + pi + dt), shank_space * sin(2.0 * i * dt + pi + dt))
        return pos


class Soil(ThermalProperty):
    def __init__(self, k, rho_cp, ugt):
        # Make variables from ThermalProperty available to Pipe
        ThermalProperty.__init__(self, k, rho_cp)

        # Soil specific parameters
        self.ugt = ugt

    def as_dict(self) -> dict:
        output = super().as_dict()
        output['undisturbed_ground_temperature'] = {'value': self.ugt, 'units': 'C'}
        return output

    def to_input(self) -> dict:
        return {'conductivity': self.k, 'rho_cp': self.rhoCp, 'undisturbed_temp': self.ugt}
