from json import loads
from math import sqrt
from pathlib import Path

import numpy as np
from scipy.optimize import brentq


# Time functions
# --------------
def eskilson_log_times():
    # Return a list of Eskilson's original 27 dimensionless points in time
    return [
        -8.5,
        -7.8,
        -7.2,
        -6.5,
        -5.9,
        -5.2,
        -4.5,
        -3.963,
        -3.27,
        -2.864,
        -2.577,
        -2.171,
        -1.884,
        -1.191,
        -0.497,
        -0.274,
        -0.051,
        0.196,
        0.419,
        0.642,
        0.873,
        1.112,
        1.335,
        1.679,
        2.028,
        2.275,
        3.003,
    ]


# Spatial functions
# -----------------
def borehole_spacing(borehole, coordinates):
    # Use the distance between the first pair of coordinates as the B-spacing
    x_0, y_0 = coordinates[0]
    if len(coordinates) == 1:
        # Set the spacing to be the borehole radius if there's just one borehole
        return borehole.r_b
    elif len(coordinates) > 1:
        x_1, y_1 = coordinates[1]
        return max(borehole.r_b, sqrt((x_1 - x_0) ** 2 + (y_1 - y_0) ** 2))
    else:
        raise ValueError("The coordinates_domain needs to contain a positive number of (x, y) pairs.")


def length_of_side(n, b):
    return (n - 1) * b


# Design oriented functions
# -------------------------
def sign(x: float) -> int:
    """
    Determine the sign of a value, pronounced "sig-na"
    :param x: the input value
    :type x: float
    :return: a 1 or a -1
    """
    return int(abs(x) / x)


def check_bracket(sign_x_l, sign_x_r) -> bool:
    return sign_x_l < 0 < sign_x_r or sign_x_r < 0 < sign_x_l
    # True if bracketed the root


def solve_root(x, objective_function, lower=None, upper=None, abs_tol=1.0e-6, rel_tol=1.0e-6, max_iter=50):
    # Vary flow rate to match the convective resistance

    # Use Brent Quadratic to find the root
    # Define a lower and upper for thermal conductivities
    if lower is None:
        lower = x / 100.0
    if upper is None:
        upper = x * 10.0
    # Check objective function upper and lower bounds to make sure the root is
    # bracketed
    minus = objective_function(lower)
    plus = objective_function(upper)
    # get signs of upper and lower thermal conductivity bounds
    kg_minus_sign = int(minus / abs(minus))
    kg_plus_sign = int(plus / abs(plus))

    # Solve the root if we can, if not, take the higher value
    if kg_plus_sign != kg_minus_sign:
        x = brentq(objective_function, lower, upper, xtol=abs_tol, rtol=rel_tol, maxiter=max_iter)
    elif kg_plus_sign == -1 and kg_minus_sign == -1:
        x = lower
    elif kg_plus_sign == 1 and kg_minus_sign == 1:
        x = upper

    return x


def write_idf_object(data: list):
    s = ''
    num_leading_pad_spaces = 4
    leading_pad = ' ' * num_leading_pad_spaces
    num_fields = len(data)

    for idx, (val, comment) in enumerate(data):
        len_val = len(val)
        comment_col_no = 30
        num_mid_pad = comment_col_no - num_leading_pad_spaces - len_val

        num_mid_pad = max(num_mid_pad, 2)

        mid_pad = ' ' * num_mid_pad

        if idx == 0:
            # writing object header
            s += f'{val},\n'
        elif (idx + 1) == num_fields:
            # writing last field. conclude with semicolon
            s += f'{leading_pad}{val};{mid_pad}!- {comment}\n'
        else:
            s += f'{leading_pad}{val},{mid_pad}!- {comment}\n'

    return s


def write_idf(summary_path: Path):
    data = loads(summary_path.read_text())

    # assuming the g-function file lives next to the summary file path...
    root_dir = summary_path.parent
    g_function_path = root_dir / 'Gfunction.csv'
    g_function_arr = np.genfromtxt(g_function_path, delimiter=',')

    nbh = data['ghe_system']['number_of_boreholes']
    fluid_density = data['ghe_system']['fluid_density']['value']
    fluid_mdot = data['ghe_system']['fluid_mass_flow_rate_per_borehole']['value']
    des_vdot = fluid_mdot * nbh / fluid_density

    soil_k = data['ghe_system']['soil_thermal_conductivity']['value']
    soil_rho_cp = data['ghe_system']['soil_volumetric_heat_capacity']['value'] * 1000

    system = [
        ('GroundHeatExchanger:System', ''),
        ('GHE System Name', 'Name'),
        ('Inlet Node Name', 'Inlet Node Name'),
        ('Outlet Node Name', 'Outlet Node Name'),
        (f'{des_vdot:0.3e}', 'Design Flow Rate {m3/s}'),
        ('Ground Temp Obj Type', 'Undisturbed Ground Temperature Model Type'),
        ('Ground Temp Obj Name', 'Undisturbed Ground Temperature Model Name'),
        (f'{soil_k:0.3f}', 'Ground Thermal Conductivity {W/m-K}'),
        (f'{soil_rho_cp:0.3e}', 'Ground Thermal Heat Capacity {J/m3-K}'),
        ('g-functions Obj Name', 'GHE:Vertical:ResponseFactors Object Name'),
    ]

    bh_depth = data['ghe_system']['borehole_buried_depth']['value']
    bh_length = data['ghe_system']['active_borehole_length']['value']
    bh_dia = data['ghe_system']['borehole_diameter']['value']
    grout_k = data['ghe_system']['grout_thermal_conductivity']['value']
    grout_rho_cp = data['ghe_system']['grout_volumetric_heat_capacity']['value'] * 1000
    pipe_k = data['ghe_system']['pipe_thermal_conductivity']['value']
    pipe_rho_cp = data['ghe_system']['pipe_volumetric_heat_capacity']['value'] * 1000
    pipe_outer_dia = data['ghe_system']['pipe_geometry']['pipe_outer_diameter']['value']
    pipe_inner_dia = data['ghe_system']['pipe_geometry']['pipe_inner_diameter']['value']
    pipe_thickness = (pipe_outer_dia - pipe_inner_dia) / 2.0
    shank_space = data['ghe_system']['shank_spacing']['value'] + pipe_outer_dia

    prpoerties = [
        ('GroundHeatExchanger:Vertical:Properties', ''),
        ('Vert Props Name', 'Name'),
        (f'{bh_depth:0.2f}', 'Depth of Top of Borehole {m}'),
        (f'{bh_length:0.2f}', 'Borehole Length {m}'),
        (f'{bh_dia:0.4f}', 'Borehole Diameter {m}'),
        (f'{grout_k:0.2f}', 'Grout Thermal Conductivity {W/m-K}'),
        (f'{grout_rho_cp:0.3e}', 'Grout Thermal Heat Capacity {J/m3-K}'),
        (f'{pipe_k:0.2f}', 'Pipe Thermal Conductivity {W/m-K}'),
        (f'{pipe_rho_cp:0.3e}', 'Pipe Thermal Heat Capacity {J/m3-K}'),
        (f'{pipe_outer_dia:0.3e}', 'Pipe Outer Diameter {m}'),
        (f'{pipe_thickness:0.3e}', 'Pipe Thickness {m}'),
        (f'{shank_space:0.3e}', 'U-Tube Distance {m}'),
    ]

    soil_density = 2500
    soil_cp = soil_rho_cp / soil_density
    ugt = data['ghe_system']['soil_undisturbed_ground_temp']['value']

    ground_temps = [
        ('Site:GroundTemperature:Undisturbed:KusudaAchenbach', ''),
        ('GTM Name', 'Name'),
        (f'{soil_k:0.2f}', 'Soil Thermal Conductivity {W/m-K}'),
        (f'{soil_density:0.2f}', 'Soil Density {kg/m3}'),
        (f'{soil_cp:0.2f}', 'Soil Specific Heat {J/kg-K}'),
        (f'{ugt}', 'Average Soil Surface Temperature {C}'),
        ('0', 'Average Amplitude of Surface Temperature {deltaC}'),
        ('0', 'Phase Shift of Minimum Surface Temperature {days}'),
    ]

    ref_ratio = (bh_dia / 2.0) / bh_length
    lntts_vals = g_function_arr[1:, 0]
    g_vals = g_function_arr[1:, 1]

    resp_factors = [
        ('GroundHeatExchanger:ResponseFactors', ''),
        ('Response Factors Name', 'Name'),
        ('Vert Props Name', 'GHE:Vertical:Properties Object Name'),
        (f'{int(nbh)}', 'Number of Boreholes'),
        (f'{ref_ratio:0.2e}', 'G-Function Reference Ratio {dimensionless}'),
    ]

    for idx in range(len(g_vals)):
        resp_factors.append((f'{lntts_vals[idx]:0.3f}', f'g-Function Ln(T/Ts) Value {idx + 1}'))
        resp_factors.append((f'{g_vals[idx]:0.3f}', f'g-Function g Value {idx + 1}'))

    s = ''
    s += write_idf_object(system)
    s += '\n'
    s += write_idf_object(prpoerties)
    s += '\n'
    s += write_idf_object(ground_temps)
    s += '\n'
    s += write_idf_object(resp_factors)

    idf_path = root_dir / 'out.idf'
    idf_path.write_text(s)
