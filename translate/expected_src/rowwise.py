from math import atan, cos, pi, sin, sqrt

import numpy as np

from ghedesigner.constants import DEG_TO_RAD, PI_OVER_2, RAD_TO_DEG
from ghedesigner.shape import Shapes, sort_intersections


def gen_shape(prop_bound, ng_zones=None):
    """Returns an array of shapes objects representing the coordinates given"""
    r_a = [Shapes(prop_bound)]
    if ng_zones is not None:
        r_n = []
        for ng_zone in ng_zones:
            r_n.append(Shapes(ng_zone))
        r_a.append(r_n)
    else:
        r_a.append(None)
    return r_a


def field_optimization_wp_space_fr(
    p_space,
    space_start,
    rotate_step,
    prop_bound,
    ng_zones=None,
    rotate_start=None,
    rotate_stop=None,
):
    """Optimizes a Field by iterating over input values w/o perimeter spacing

    Parameters: p_space(float): Ratio of perimeter spacing to other target spacing space_start(float): the initial
    target spacing that the optimization program will start with rotate_step(float): the amount of rotation that will
    be changed per step (in degrees) prop_bound([[float,float]]): 2d array of floats that represent the property
    boundary (counter clockwise) ng_zones([[[float,float]]]): 3d array representing the different zones on the
    property where no boreholes can be placed rotate_start(float): the rotation that the field will start at (-pi/2 <
    rotateStart < pi/2) rotate_stop(float): the rotation that the field will stop at (exclusive) (-pi/2 < rotateStop
    < pi/2)

    Outputs: CSVs containing the coordinates for the max field for each target spacing, their respective graphs,
    and their respective data

    """
    if rotate_start is None:
        rotate_start = (-90.0 + rotate_step) * DEG_TO_RAD
    if rotate_stop is None:
        rotate_stop = PI_OVER_2
    if rotate_start > PI_OVER_2 or rotate_start < -PI_OVER_2 or rotate_stop > PI_OVER_2 or rotate_stop < -PI_OVER_2:
        raise ValueError("Invalid Rotation")

    space = space_start
    rt = rotate_start

    y_s = space
    x_s = y_s

    max_l = 0
    max_hole = None
    max_rt = None

    while rt < rotate_stop:
        hole = two_space_gen_bhc(
            prop_bound,
            y_s,
            x_s,
            rotate=rt,
            no_go=ng_zones,
            p_space=p_space * x_s,
            intersection_tolerance=1e-5,
        )

        # Assuming that the rotation with the maximum number of boreholes is most efficiently using space
        if len(hole) > max_l:
            max_l = len(hole)
            max_rt = rt * RAD_TO_DEG
            max_hole = hole

        rt += rotate_step * DEG_TO_RAD

    # Ensures that there are no repeated boreholes
    max_hole = np.array(remove_duplicates(max_hole, p_space * x_s))

    field = max_hole
    field_name = f"P{p_space:0.1f}_S{space:0.1f}_rt{max_rt:0.1f}"
    return [field, field_name]


def field_optimization_fr(
    space_start,
    rotate_step,
    prop_bound,
    ng_zones=None,
    rotate_start=None,
    rotate_stop=None,
    intersection_tolerance=1e-5,
):
    """Optimizes a Field by iterating over input values w/o perimeter spacing

    Parameters: space_start(float): the initial target spacing that the optimization program will start with
    rotate_step(float): the amount of rotation that will be changed per step (in degrees) prop_bound([[float,
    float]]): 2d array of floats that represent the property boundary (counter clockwise) ng_zones([[[float,
    float]]]): 3d array representing the different zones on the property where no boreholes can be placed
    rotate_start(float): the rotation that the field will start at (-pi/2 < rotateStart < pi/2) rotate_stop(float):
    the rotation that the field will stop at (exclusive) (-pi/2 < rotateStop < pi/2) intersection_tolerance:

    Outputs: CSVs containing the coordinates for the max field for each target spacing, their respective graphs,
    and their respective data

    """
    if rotate_start is None:
        rotate_start = -90.0 * DEG_TO_RAD
    if rotate_stop is None:
        rotate_stop = PI_OVER_2
    if rotate_start > PI_OVER_2 or rotate_start < -PI_OVER_2 or rotate_stop > PI_OVER_2 or rotate_stop < -PI_OVER_2:
        raise ValueError("Invalid Rotation")

    # Target Spacing iterates

    space = space_start
    rt = rotate_start

    y_s = space
    x_s = y_s

    max_l = 0
    max_hole = None
    max_rt = None

    while rt < rotate_stop:
        hole = gen_borehole_config(
            prop_bound,
            y_s,
            x_s,
            rotate=rt,
            no_go=ng_zones,
            intersection_tolerance=intersection_tolerance,
        )

        # Assuming that the rotation with the maximum number of boreholes is most efficiently using space
        if len(hole) > max_l:
            max_l = len(hole)
            max_rt = rt * RAD_TO_DEG
            max_hole = hole

        rt += rotate_step * DEG_TO_RAD

    # Ensures that there are no repeated boreholes
    max_hole = np.array(remove_duplicates(max_hole, x_s * 1.2))

    field = max_hole
    field_name = f"S_{space:0.1f}_rt{max_rt:0.1f}"
    return [field, field_name]


def find_duplicates(borefield, space, disp=False):
    """
    The distance method :func:`Borehole.distance` is utilized to find all
    duplicate boreholes in a boreField.
    This function considers a duplicate to be any pair of points that fall
    within each other's radius. The lower index (i) is always stored in the
    0 position of the tuple, while the higher index (j) is stored in the 1
    position.
    Parameters
    ----------
    borefield : list
        A list of :class:`Borehole` objects
    space:
    disp : bool, optional
        Set to true to print progression messages.
        Default is False.
    Returns
    -------
    duplicate_pairs : list
        A list of tuples where the tuples are pairs of duplicates
    """

    square_space_tol = (space * 10**-1) ** 2

    duplicate_pairs = []  # define an empty list to be appended to
    for i, borehole_1 in enumerate(borefield):
        for j in range(i + 1, len(borefield)):  # only loop unique interactions
            borehole_2 = borefield[j]
            ssq_dist = sum_sq_dist(borehole_1, borehole_2)
            if ssq_dist < square_space_tol:
                duplicate_pairs.append((i, j))

    if disp:
        # pad with '-' align in center
        output = f"{'*gt.boreholes.find_duplicates()*' :-^50}"
        # keep a space between the function name
        print(output.replace("*", " "))
        print(f"The duplicate pairs of boreholes found: {duplicate_pairs}")
    return duplicate_pairs


def sum_sq_dist(p1, p2):
    """Returns the **sum of squared** cartesian distance between two points"""
    return (p1[0] - p2[0]) ** 2 + (p1[1] - p2[1]) ** 2


def pts_dist(p1, p2):
    """Returns the cartesian distance between two points"""
    return sqrt((p1[0] - p2[0]) ** 2 + (p1[1] - p2[1]) ** 2)


def remove_duplicates(borefield, space, disp=False):
    """
    Removes all the duplicates found from the duplicate pairs returned in
    :func:`check_duplicates`.
    For each pair of duplicates, the first borehole (with the lower index) is
    kept and the other (with the higher index) is removed.
    Parameters
    ----------
    borefield : list
        A list of :class:`Borehole` objects
    space:
    disp : bool, optional
        Set to true to print progression messages.
        Default is False.
    Returns
    -------
    new_borefield : list
        A boreField without duplicates
    """
    # get a list of tuple
    duplicate_pairs = find_duplicates(borefield, space, disp=disp)

    new_borefield = []

    # values not to be included
    duplicate_bores = []
    for i in range(len(duplicate_pairs)):
        duplicate_bores.append(duplicate_pairs[i][1])

    for i in range(len(borefield)):
        if i in duplicate_bores:
            continue
        else:
            new_borefield.append(borefield[i])
    if disp:
        # pad with '-' align in center
        print(
            f"{'*gt.boreholes.remove_duplicates()*' :-^50}".replace("*", " ")
        )  # keep a space between the function name
        n_duplicates = len(borefield) - len(new_borefield)
        print(f"The number of duplicates removed: {n_duplicates}")

    return new_borefield


def two_space_gen_bhc(
    field,
    y_space,
    x_space,
    no_go=None,
    rotate=0,
    p_space=None,
    i_space=None,
    intersection_tolerance=1e-5,
):
    """Generates a borefield that has perimeter spacing

    Parameters:
        field: The outer boundary of the property represented as an array of points
        y_space: Target Spacing in y-dir
        x_space: Target Spacing in x-dir
        no_go: a 3d array representing all the areas where boreholes cannot be placed
        rotate: the amount of rotation (rad)
        p_space: Perimeter spacing
        i_space: Spacing required between perimeter and the rest
        i_space: Min spacing required from all edges
        intersection_tolerance:

    """
    if p_space is None:
        p_space = 0.9 * x_space
    if i_space is None:
        i_space = x_space

    # calls the standard row-wise coord generator w/ the adjusted vertices
    holes = gen_borehole_config(
        field,
        y_space,
        x_space,
        no_go=no_go,
        rotate=rotate,
        intersection_tolerance=intersection_tolerance,
    )

    holes = holes.tolist()
    remove_points_too_close(field, holes, i_space, no_go_zones=no_go)

    # places the boreholes along the perimeter of the property boundary and no_go zone(s)
    perimeter_distribute(field, p_space, holes)
    if no_go is not None:
        for ng in no_go:
            perimeter_distribute(ng, p_space, holes)

    # returns the Holes as a numpy array for easier manipulation
    return_array = np.array(holes)
    return return_array


def remove_points_too_close(field, holes, i_space, no_go_zones=None):
    """
    Will remove all points too close to the field and no-go zones

    Parameters:
        field: The outer boundary of the property represented as an array of points
        no_go_zones: a 3d array representing all the areas where boreholes cannot be placed
        holes: 2d array containing all the current boreholes
        i_space: Min spacing required from all edges
    """
    field = field.c
    len_field = len(field)
    for i in range(len_field):
        p1 = field[i]
        p2 = field[0] if i == len_field - 1 else field[i + 1]
        remove_points_close_too_line(p1, p2, holes, i_space)
    if no_go_zones is not None:
        len_no_go_zones = len(no_go_zones)
        for i in range(len_no_go_zones):
            ng = no_go_zones[i].c
            len_ng = len(ng)
            for j in range(len_ng):
                p1 = ng[j]
                p2 = ng[0] if j == len_ng - 1 else ng[j + 1]
                remove_points_close_too_line(p1, p2, holes, i_space)


def remove_points_close_too_line(p1, p2, holes, i_space):
    """Removes points that are close to the given line

    Parameters:
        p1([float,float]): first point in line
        p2([float,float]): second point in line
        holes: 2d array containing a bunch of points
        i_space(float): distance cutoff for how close points can be

    """
    len_holes = len(holes)
    i = 0
    while i < len_holes:
        hole = holes[i]
        dp = dist_from_line(p1, p2, hole)
        if dp < i_space:
            del holes[i]
            len_holes -= 1
        else:
            i += 1


def dist_from_line(p1, p2, other_point):
    """Calculates the distance from a point to a line (closest distance):
    https://en.wikipedia.org/wiki/Distance_from_a_point_to_a_line

    Parameter:
        p1: first point on the line
        p2: second point on the line
        other_point: point which is being measured to

    """
    dxl = p2[0] - p1[0]
    dyl = p2[1] - p1[1]
    dx = p1[0] - other_point[0]
    dy = p1[1] - other_point[1]
    num = abs(dxl * dy - dx * dyl)
    den = sqrt(dxl * dxl + dyl * dyl)
    dp = num / den
    dist_l = pts_dist(p1, p2)
    d01 = pts_dist(p1, other_point)
    d02 = pts_dist(p2, other_point)
    if d01 * d01 - dp * dp < 0:
        return d01
    if sqrt(d01 * d01 - dp * dp) / dist_l > 1:
        return min(d01, d02)
    if min(p1[0], p2[0]) < other_point[0] < max(p1[0], p2[0]) or min(p1[1], p2[1]) < other_point[1] < max(p1[1], p2[1]):
        return min(d01, d02, dp)
    else:
        return min(d01, d02)


def perimeter_distribute(field, space, r):
    """
    Distributes boreholes along the perimeter of a given shape

    Parameters:
        field: array of points representing closed polygon
        space (float): spacing that the boreholes should have from one another
        r (dict{}): existing dictionary of boreholes which will be appended to
    """
    # print(r)
    for i in range(len(field.c)):
        if i == len(field.c) - 1:
            vert1 = field.c[i]
            vert2 = field.c[0]
        else:
            vert1 = field.c[i]
            vert2 = field.c[i + 1]
        dx = vert2[0] - vert1[0]
        dy = vert2[1] - vert1[1]

        # Checking how many boreholes can be distributed along the line
        dist = pts_dist(vert1, vert2)
        num_holes = int(dist // space)

        # Distributing the spacing to the x and y directions
        x_space = None
        y_space = None
        if num_holes > 0:
            x_space = dx / num_holes
            y_space = dy / num_holes

        current_p = [vert1[0], vert1[1]]

        # for loop is tuned to leave one spot empty for the next line
        for _ in range(num_holes):
            r.append([current_p[0], current_p[1]])
            current_p[0] += x_space
            current_p[1] += y_space


def gen_borehole_config(
    field,
    y_space,
    x_space,
    no_go=None,
    rotate=0,
    intersection_tolerance=1e-6,
):
    """
    Function generates a series of x,y points representing a field of boreholes
    in a trapezoidal shape. Returns empty if boreHole field does not meet given requirements

    Parameters
    -------------
        :param field:
        :param y_space: float
            the minimum spacing between points in the y-dir
        :param x_space: float
            the minimum spacing between points in the x-dir
        :param no_go:
        :param rotate:
        :param intersection_tolerance:

        :return: [[float]] -> 2 col + n rows
    """

    if no_go is None:
        no_go = []
    # Decides which vertex to start generating boreholes at by finding the "lowest" vertex relative to a rotated x-axis
    lowest_vert_val = float("inf")
    highest_vert_val = float("-inf")
    lowest_vert = None
    highest_vert = None
    for vert in field.c:
        phi = atan(vert[1] / vert[0]) if vert[0] != 0 else PI_OVER_2
        dist_vert = sqrt(vert[1] ** 2 + vert[0] ** 2)
        ref_angle = phi
        if phi > PI_OVER_2:
            if phi > pi:
                ref_angle = 2 * rotate + 3 * PI_OVER_2 - phi if phi > 3 * PI_OVER_2 else 2 * rotate + pi - phi
            else:
                ref_angle = pi - phi + 2 * rotate
        yp = dist_vert * sin(ref_angle - rotate)
        if yp < lowest_vert_val:
            lowest_vert_val = yp
            lowest_vert = vert
        if yp > highest_vert_val:
            highest_vert_val = yp
            highest_vert = vert

    # Determines the number of rows as well as the distance between the rows
    num_rows = int((highest_vert_val - lowest_vert_val) // y_space)
    d = highest_vert_val - lowest_vert_val
    s = d / num_rows
    row_space = [-1 * s * cos(PI_OVER_2 - rotate), s * sin(PI_OVER_2 - rotate)]

    # Establishes the dictionary where the boreholes will be added two as well as establishing a point on the first row
    boreholes = {}
    row_point = [lowest_vert[0], lowest_vert[1]]

    # This is just a value that is combined with the slope of the row's to establish two points defining a row (could
    # be any value)
    point_shift = 1000.0

    for _ in range(num_rows + 1):
        # Row Defined by two points. Rows are vertical when cos(rotate) is negligible: rotate = -pi/2 gives
        # cos = 6e-17, not 0, and a row of slope -8e15 through two points 1000 m apart intersects a vertical
        # property edge at a garbage ordinate (catastrophic cancellation in vector_intersect).
        if abs(row_space[1]) <= 1.0e-12 * abs(row_space[0]):
            row = [
                row_point[0],
                row_point[1],
                row_point[0],
                row_point[1] + point_shift,
            ]
        else:
            row = [
                row_point[0],
                row_point[1],
                row_point[0] + point_shift,
                row_point[1] + (-row_space[0] / row_space[1]) * point_shift,
            ]

        # Gets Intersection between current row and property boundary
        f_inters = field.line_intersect(row, rotate, intersection_tolerance)

        # Stores the number of intersections with the row
        len_f_inters = len(f_inters)

        # Checks for edge case where a single intersection is reported as two and treats it as one
        if (
            len_f_inters > 1
            and abs(f_inters[0][0] - f_inters[1][0]) <= intersection_tolerance
            and abs(f_inters[0][1] - f_inters[1][1]) <= intersection_tolerance
        ):
            fi = 0
            fij = 0
            while fi < len_f_inters:
                while fij < len_f_inters:
                    if fij == fi:
                        fij += 1
                        continue
                    if (
                        abs(f_inters[fi][0] - f_inters[fij][0]) <= intersection_tolerance
                        and abs(f_inters[fi][1] - f_inters[fij][1]) <= intersection_tolerance
                    ):
                        f_inters.pop(fij)
                        if fi >= fij:
                            fi -= 1
                        fij -= 1
                        len_f_inters -= 1
                    fij += 1
                fi += 1

        # Checks for edge case where there are no intersections detected due to a rounding error (can sometimes
        # happen with the last row)
        """

        if len_f_inters == 0 and ri == num_rows:
            ins = False

            # Checks if the predicted point (ghost point that was expected but not found) is inside one of the no_go
            zones for shape in no_go: if shape.point_intersect(highest_vert): ins = True if not ins: #Double checks
            that this borehole has not already been included if len(boreholes)==0 or not (boreholes[len(boreholes) -
            1][0] == highest_vert[0] and boreholes[len(boreholes) - 1][1] ==highest_vert[1]): boreholes[len(
            boreholes)] = highest_vert """
        # Handles cases with odd number of intersections
        if len_f_inters % 2 == 0:
            # Specific case with two intersections
            if len_f_inters == 2:  # noqa: SIM102
                # Checks for the edge case where two intersections are very close together and replaces them with one
                # point
                if (
                    sqrt(
                        (f_inters[0][0] - f_inters[1][0]) * (f_inters[0][0] - f_inters[1][0])
                        + (f_inters[0][1] - f_inters[1][1]) * (f_inters[0][1] - f_inters[1][1])
                    )
                    < x_space
                ):
                    ins = False
                    for ng_shape in no_go:
                        if ng_shape.point_intersect(highest_vert):
                            ins = True
                    if not ins:
                        boreholes[len(boreholes)] = f_inters[0]
                        len_f_inters = 0  # skips the while loop

            i = 0
            while i < len_f_inters - 1:
                left_offset = [0, 0]
                right_offset = [0, 0]

                # Checks if there is enough distance between this point and another and then will offset the point if
                # there is not enough room
                dls_check = sqrt(
                    (f_inters[i][0] - f_inters[i - 1][0]) * (f_inters[i][0] - f_inters[i - 1][0])
                    + (f_inters[i][1] - f_inters[i - 1][1]) * (f_inters[i][1] - f_inters[i - 1][1])
                )

                drs_check = sqrt(
                    (f_inters[i][0] - f_inters[i + 1][0]) * (f_inters[i][0] - f_inters[i + 1][0])
                    + (f_inters[i][1] - f_inters[i + 1][1]) * (f_inters[i][1] - f_inters[i + 1][1])
                )

                if i > 0 and (dls := dls_check) < x_space:
                    left_offset = [dls * cos(rotate), dls * sin(rotate)]
                elif i < len_f_inters - 1 and (drs := drs_check) < x_space:
                    right_offset = [-drs * cos(rotate), -drs * sin(rotate)]

                process_rows(
                    row,
                    [f_inters[i][0] + left_offset[0], f_inters[i][1] + left_offset[1]],
                    [
                        f_inters[i + 1][0] + right_offset[0],
                        f_inters[i + 1][1] + right_offset[1],
                    ],
                    no_go,
                    x_space,
                    boreholes,
                    rotate=rotate,
                )

                i += 2
        elif len_f_inters == 1:
            ins = False
            for ng_shape in no_go:
                if ng_shape.point_intersect(highest_vert):
                    ins = True
            if not ins:
                if len(boreholes) == 0:
                    boreholes[len(boreholes)] = f_inters[0]
                if not (
                    boreholes[len(boreholes) - 1][0] == f_inters[0][0]
                    and boreholes[len(boreholes) - 1][1] == f_inters[0][1]
                ):
                    boreholes[len(boreholes)] = f_inters[0]
        else:
            i = 0
            while i < len_f_inters - 1:
                if field.point_intersect(
                    [
                        (f_inters[i][0] + f_inters[i + 1][0]) / 2,
                        (f_inters[i][1] + f_inters[i + 1][1]) / 2,
                    ]
                ):
                    process_rows(
                        row,
                        f_inters[i],
                        f_inters[i + 1],
                        no_go,
                        x_space,
                        boreholes,
                        rotate=rotate,
                    )
                i += 1
        row_point[0] += row_space[0]
        row_point[1] += row_space[1]
    r_a = [boreholes[element] for element in boreholes]
    r_a = np.array(remove_duplicates(r_a, x_space))
    return r_a


def process_rows(row, row_sx, row_ex, no_go, row_space, r_a, rotate, intersection_tolerance=1e-5):
    """
    Function generates a row of the borefield
    *Note: the formatting from the rows can be a little unexpected. Some adjustment
    may be required to correct the formatting. The genBoreHoleConfig function already accounts for this.
    Parameters
    -------------
    :param row:
    :param row_sx:
    :param row_ex:
    :param no_go:
    :param row_space:
    :param r_a:
    :param rotate:
    :param intersection_tolerance:
    """

    if no_go is None:
        distribute(row_sx, row_ex, row_space, r_a, rotate)
        return r_a
    num_col = int(
        sqrt((row_sx[0] - row_ex[0]) * (row_sx[0] - row_ex[0]) + (row_sx[1] - row_ex[1]) * (row_sx[1] - row_ex[1]))
        // row_space
    )

    inters = [
        point
        for shape in no_go
        for point in shape.line_intersect(row, rotate=rotate, intersection_tolerance=intersection_tolerance)
    ]
    inters = sort_intersections(inters, rotate)
    num_inters = len(inters)

    if num_inters > 1:  # noqa: SIM102
        if less_than(
            inters[0],
            row_sx,
            rotate=rotate,
            intersection_tolerance=intersection_tolerance,
        ) and less_than(
            row_ex,
            inters[len(inters) - 1],
            rotate=rotate,
            intersection_tolerance=intersection_tolerance,
        ):
            inside = False
            for _ in inters:
                if less_than(
                    row_sx,
                    inters[0],
                    rotate=rotate,
                    intersection_tolerance=intersection_tolerance,
                ) and less_than(
                    inters[0],
                    row_ex,
                    rotate=rotate,
                    intersection_tolerance=intersection_tolerance,
                ):
                    inside = True
            if not inside:
                point_in = False
                for ng_shape in no_go:
                    if ng_shape.point_intersect([(row_ex[0] + row_sx[0]) / 2, (row_ex[1] + row_sx[1]) / 2]):
                        point_in = True
                if point_in:
                    return []
    inters = np.array(inters)
    indices = []
    for j in range(num_inters):
        less_than_1 = less_than(row_ex, inters[j], rotate=rotate, intersection_tolerance=intersection_tolerance)
        less_than_2 = less_than(inters[j], row_sx, rotate=rotate, intersection_tolerance=intersection_tolerance)
        if not (less_than_1 or less_than_2):
            indices.append(j)
    inters = inters[indices]
    num_inters = len(inters)
    for i in range(num_inters - 1):
        space = sqrt(
            (inters[i + 1][0] - inters[i][0]) * (inters[i + 1][0] - inters[i][0])
            + (inters[i + 1][1] - inters[i][1]) * (inters[i + 1][1] - inters[i][1])
        )
        if space < row_space:
            i_none = False
            for shape in no_go:
                if shape.point_intersect(
                    [
                        (inters[i + 1][0] + inters[i][0]) / 2,
                        (inters[i + 1][1] + inters[i][1]) / 2,
                    ]
                ):
                    i_none = True
            if i_none:
                d = (row_space - space) / 2
                inters[i + 1][0] += d * cos(rotate)
                inters[i + 1][1] += d * sin(rotate)
                inters[i][0] -= d * cos(rotate)
                inters[i][1] -= d * sin(rotate)
    if num_col < 1:
        ins = False
        for shape in no_go:
            if shape.point_intersect([(row_ex[0] + row_sx[0]) / 2, (row_ex[1] + row_sx[1]) / 2]):
                ins = True
        if not ins:
            if len(r_a) == 0 or not (
                r_a[len(r_a) - 1][0] == (row_ex[0] + row_sx[0]) / 2
                and r_a[len(r_a) - 1][1] == (row_ex[1] + row_sx[1]) / 2
            ):
                r_a[len(r_a)] = [(row_ex[0] + row_sx[0]) / 2, (row_ex[1] + row_sx[1]) / 2]
            return r_a
    elif num_inters == 0:
        if not_inside(row_sx, no_go) and not_inside(row_ex, no_go):
            distribute(row_sx, row_ex, row_space, r_a, rotate)
    elif num_inters == 2:
        distribute(row_sx, inters[0], row_space, r_a, rotate)
        distribute(inters[1], row_ex, row_space, r_a, rotate)
    elif num_inters == 1:
        ins = False
        for shape in no_go:
            if shape.point_intersect([(inters[0][0] + row_sx[0]) / 2, (inters[0][1] + row_sx[1]) / 2]):
                ins = True
        if not ins:
            distribute(row_sx, inters[0], row_space, r_a, rotate)
        else:
            distribute(inters[0], row_ex, row_space, r_a, rotate)
    elif num_inters % 2 == 0:
        i = 0
        while i < num_inters:
            if i == 0:
                distribute(row_sx, inters[0], row_space, r_a, rotate)
                i = 1
                continue
            elif i == num_inters - 1:
                distribute(inters[num_inters - 1], row_ex, row_space, r_a, rotate)
            else:
                distribute(inters[i], inters[i + 1], row_space, r_a, rotate)
            i += 2
    else:
        ins = False
        for shape in no_go:
            if shape.point_intersect([(inters[0][0] + row_sx[0]) / 2, (inters[0][1] + row_sx[1]) / 2]):
                ins = True
        if not ins:
            i = 0
            while i < num_inters:
                if i == 0:
                    distribute(row_sx, inters[0], row_space, r_a, rotate)
                    i = 1
                    continue
                elif i == num_inters - 1:
                    i += 2
                    continue
                else:
                    distribute(inters[i], inters[i + 1], row_space, r_a, rotate)
                i += 2
        else:
            i = 0
            while i < num_inters:
                if i == 0:
                    distribute(inters[0], inters[1], row_space, r_a, rotate)
                    i = 2
                    continue
                elif i == num_inters - 1:
                    distribute(inters[i], row_ex, row_space, r_a, rotate)
                    i += 2
                    continue
                else:
                    distribute(inters[i], inters[i + 1], row_space, r_a, rotate)
                i += 2

    return r_a


def not_inside(p, ngs):
    inside = False
    for ng in ngs:
        if ng.point_intersect(p):
            inside = True
    return not inside


def less_than(p1, p2, rotate=0, intersection_tolerance=1e-5):
    x1, y1 = p1
    x2, y2 = p2
    dx = x2 - x1
    dy = y2 - y1

    if abs(dx) < intersection_tolerance:
        dx_sign = 0
    elif dx > 0:
        dx_sign = 1
    else:
        dx_sign = -1

    if abs(dy) < intersection_tolerance:
        dy_sign = 0
    elif dy > 0:
        dy_sign = 1
    else:
        dy_sign = -1

    if rotate >= 0:
        if dx_sign == 0:
            return dy_sign == 1
        elif dy_sign in (0, dx_sign):
            return dx_sign == 1
        else:
            raise ValueError("Slope between points does not match field orientation.")
    elif dx_sign == 0:
        if dy_sign == 1:
            return False
        else:
            return False
    elif dy_sign == 0 or dx_sign != dy_sign:
        return dx_sign == 1
    else:
        raise ValueError("Slope between points does not match field orientation.")


def distribute(x1, x2, spacing, r, rotate):
    """
      Function generates a series of boreholes between x1 and x2
    Parameters
    -------------
    :param x1: float
        left x value
    :param x2: float
        right x value
    :param spacing: float
        spacing between columns
    :param r: [[float]]
        existing array of points
    :param rotate:
    :return:
    """
    dx = sqrt((x1[0] - x2[0]) * (x1[0] - x2[0]) + (x1[1] - x2[1]) * (x1[1] - x2[1]))
    if dx < spacing:
        if len(r) == 0 or not (r[len(r) - 1][0] == (x1[0] + x2[0]) / 2 and r[len(r) - 1][1] == (x1[1] + x2[1]) / 2):
            r[len(r)] = [(x1[0] + x2[0]) / 2, (x1[1] + x2[1]) / 2]
        return
    current_x = x1
    act_num_col = int(dx // spacing)
    act_space = dx / act_num_col
    tolerance = 1e-8
    while (
        sqrt((current_x[0] - x2[0]) * (current_x[0] - x2[0]) + (current_x[1] - x2[1]) * (current_x[1] - x2[1]))
    ) >= tolerance:
        if len(r) == 0 or not (r[len(r) - 1][0] == current_x[0] and r[len(r) - 1][1] == current_x[1]):
            r[len(r)] = [current_x[0], current_x[1]]
        current_x[0] += act_space * cos(rotate)
        current_x[1] += act_space * sin(rotate)
    if not (r[len(r) - 1][0] == x2[0] and r[len(r) - 1][1] == x2[1]):
        r[len(r)] = [x2[0], x2[1]]
    return
