from __future__ import annotations

import logging
from json import dumps, loads
from pathlib import Path
from sys import exit, stderr
from time import time

import click

from ghedesigner import VERSION
from ghedesigner.borehole import GHEBorehole
from ghedesigner.constants import DEG_TO_RAD
from ghedesigner.design import (
    AnyBisectionType,
    DesignBase,
    DesignBiRectangle,
    DesignBiRectangleConstrained,
    DesignBiZoned,
    DesignNearSquare,
    DesignRectangle,
    DesignRowWise,
)
from ghedesigner.enums import BHPipeType, DesignGeomType, FlowConfigType, TimestepType
from ghedesigner.geometry import (
    GeometricConstraints,
    GeometricConstraintsBiRectangle,
    GeometricConstraintsBiRectangleConstrained,
    GeometricConstraintsBiZoned,
    GeometricConstraintsNearSquare,
    GeometricConstraintsRectangle,
    GeometricConstraintsRowWise,
)
from ghedesigner.media import GHEFluid, Grout, Pipe, Soil
from ghedesigner.output import OutputManager
from ghedesigner.simulation import SimulationParameters
from ghedesigner.utilities import write_idf
from ghedesigner.validate import validate_input_file

logging.basicConfig(level=logging.WARN, format="%(message)s", datefmt="[%X]")
logger = logging.getLogger(__name__)


class GHEManager:
    def __init__(self):
        self._fluid: GHEFluid | None = None
        self._grout: Grout | None = None
        self._soil: Soil | None = None
        self._pipe: Pipe | None = None
        self.pipe_type: BHPipeType | None = None
        self._borehole: GHEBorehole | None = None
        self._simulation_parameters: SimulationParameters | None = None
        self._ground_loads: list[float | None] = None
        # OK so geometric_constraints is tricky.  We have base classes, yay!
        # Unfortunately, the functionality between the child classes is not actually
        # collapsed into a base class function ... yet.  So there will be complaints
        # about types temporarily.  It's going in the right direction though.
        self.geom_type: DesignGeomType | None = None
        self._geometric_constraints: GeometricConstraints | None = None
        self._design: DesignBase | None = None
        self._search: AnyBisectionType | None = None
        self.results: OutputManager | None = None

        # some things for results
        self._search_time: int = 0
        self.summary_results: dict = {}

    def set_design_geometry_type(self, design_geometry_str: str, throw: bool = True) -> int:
        """
        Sets the design type.

        :param design_geometry_str: design geometry input string.
        :param throw: By default, function will raise an exception on error, override to false to not raise exception
        :returns: Zero if successful, nonzero if failure
        :rtype: int
        """
        design_geometry_str = str(design_geometry_str).upper()
        if design_geometry_str == DesignGeomType.BIRECTANGLE.name:
            self.geom_type = DesignGeomType.BIRECTANGLE
        elif design_geometry_str == DesignGeomType.BIRECTANGLECONSTRAINED.name:
            self.geom_type = DesignGeomType.BIRECTANGLECONSTRAINED
        elif design_geometry_str == DesignGeomType.BIZONEDRECTANGLE.name:
            self.geom_type = DesignGeomType.BIZONEDRECTANGLE
        elif design_geometry_str == DesignGeomType.NEARSQUARE.name:
            self.geom_type = DesignGeomType.NEARSQUARE
        elif design_geometry_str == DesignGeomType.RECTANGLE.name:
            self.geom_type = DesignGeomType.RECTANGLE
        elif design_geometry_str == DesignGeomType.ROWWISE.name:
            self.geom_type = DesignGeomType.ROWWISE
        else:
            message = "Geometry constraint method not supported."
            print(message, file=stderr)
            if throw:
                raise ValueError(message)
            return 1

        return 0

    def set_pipe_type(self, bh_pipe_str: str, throw: bool = True) -> int:
        """
        Sets the borehole pipe type.

        :param bh_pipe_str: pipe type input string.
        :param throw: By default, function will raise an exception on error, override to false to not raise exception
        :returns: Zero if successful, nonzero if failure
        :rtype: int
        """
        bh_pipe_str = str(bh_pipe_str).upper()
        if bh_pipe_str == BHPipeType.SINGLEUTUBE.name:
            self.pipe_type = BHPipeType.SINGLEUTUBE
        elif bh_pipe_str == BHPipeType.DOUBLEUTUBEPARALLEL.name:
            self.pipe_type = BHPipeType.DOUBLEUTUBEPARALLEL
        elif bh_pipe_str == BHPipeType.DOUBLEUTUBESERIES.name:
            self.pipe_type = BHPipeType.DOUBLEUTUBESERIES
        elif bh_pipe_str == BHPipeType.COAXIAL.name:
            self.pipe_type = BHPipeType.COAXIAL
        else:
            message = f"Borehole pipe type \"{bh_pipe_str}\" not supported."
            print(message, file=stderr)
            if throw:
                raise ValueError(message)
            return 1

        return 0

    def set_fluid(
        self,
        fluid_name: str = "Water",
        concentration_percent: float = 0.0,
        temperature: float = 20.0,
        throw: bool = True,
    ) -> int:
        """
        Sets the fluid instance.

        :param fluid_name: fluid name input string.
        :param concentration_percent: concentration percent of antifreeze mixture.
        :param temperature: design fluid temperature, in C.
        :param throw: By default, function will raise an exception on error, override to false to not raise exception
        :returns: Zero if successful, nonzero if failure
        :rtype: int
        """
        try:
            self._fluid = GHEFluid(fluid_str=fluid_name, percent=concentration_percent, temperature=temperature)
            return 0
        except ValueError:
            message = "Invalid fluid property input data."
            print(message, file=stderr)
            if throw:
                raise ValueError(message)
            return 1

    def set_grout(self, conductivity: float, rho_cp: float) -> int:
        """
        Sets the grout instance.

        :param conductivity: thermal conductivity, in W/m-K.
        :param rho_cp: volumetric heat capacity, in J/m^3-K.
        :returns: Zero if successful, nonzero if failure
        :rtype: int
        """
        self._grout = Grout(conductivity, rho_cp)
        return 0

    def set_soil(self, conductivity: float, rho_cp: float, undisturbed_temp: float) -> int:
        """
        Sets the soil instance.

        :param conductivity: thermal conductivity, in W/m-K.
        :param rho_cp: volumetric heat capacity, in J/m^3-K.
        :param undisturbed_temp: undisturbed soil temperature, in C.
        :returns: Zero if successful, nonzero if failure
        :rtype: int
        """
        self._soil = Soil(conductivity, rho_cp, undisturbed_temp)
        return 0

    def set_single_u_tube_pipe(
        self,
        inner_diameter: float,
        outer_diameter: float,
        shank_spacing: float,
        roughness: float,
        conductivity: float,
        rho_cp: float,
    ) -> int:
        """
        Sets the pipe instance for a single u-tube pipe.

        :param inner_diameter: inner pipe diameter, in m.
        :param outer_diameter: outer pipe diameter, in m.
        :param shank_spacing: shank spacing between the u-tube legs, in m, as measured edge-to-edge.
        :param roughness: pipe surface roughness, in m.
        :param conductivity: thermal conductivity, in W/m-K.
        :param rho_cp: volumetric heat capacity, in J/m^3-K.
        :returns: Zero if successful, nonzero if failure
        :rtype: int
        """

        r_in = inner_diameter / 2.0
        r_out = outer_diameter / 2.0

        self.pipe_type = BHPipeType.SINGLEUTUBE
        pipe_positions = Pipe.place_pipes(shank_spacing, r_out, 1)
        self._pipe = Pipe(pipe_positions, r_in, r_out, shank_spacing, roughness, conductivity, rho_cp)
        return 0

    def set_double_u_tube_pipe_parallel(
        self,
        inner_diameter: float,
        outer_diameter: float,
        shank_spacing: float,
        roughness: float,
        conductivity: float,
        rho_cp: float,
    ) -> int:
        """
        Sets the pipe instance for a double u-tube pipe in a parallel configuration.

        :param inner_diameter: inner pipe diameter, in m.
        :param outer_diameter: outer pipe diameter, in m.
        :param shank_spacing: shank spacing between the u-tube legs, in m, as measured edge-to-edge.
        :param roughness: pipe surface roughness, in m.
        :param conductivity: thermal conductivity, in W/m-K.
        :param rho_cp: volumetric heat capacity, in J/m^3-K.
        :returns: Zero if successful, nonzero if failure
        :rtype: int
        """

        r_in = inner_diameter / 2.0
        r_out = outer_diameter / 2.0

        self.pipe_type = BHPipeType.DOUBLEUTUBEPARALLEL
        pipe_positions = Pipe.place_pipes(shank_spacing, r_out, 2)
        self._pipe = Pipe(pipe_positions, r_in, r_out, shank_spacing, roughness, conductivity, rho_cp)
        return 0

    def set_double_u_tube_pipe_series(
        self,
        inner_diameter: float,
        outer_diameter: float,
        shank_spacing: float,
        roughness: float,
        conductivity: float,
        rho_cp: float,
    ) -> int:
        """
        Sets the pipe instance for a double u-tube pipe in a series configuration.

        :param inner_diameter: inner pipe diameter, in m.
        :param outer_diameter: outer pipe diameter, in m.
        :param shank_spacing: shank spacing between the u-tube legs, in m, as measured edge-to-edge.
        :param roughness: pipe surface roughness, in m.
        :param conductivity: thermal conductivity, in W/m-K.
        :param rho_cp: volumetric heat capacity, in J/m^3-K.
        :returns: Zero if successful, nonzero if failure
        :rtype: int
        """

        r_in = inner_diameter / 2.0
        r_out = outer_diameter / 2.0

        self.pipe_type = BHPipeType.DOUBLEUTUBESERIES
        pipe_positions = Pipe.place_pipes(shank_spacing, r_out, 2)
        self._pipe = Pipe(pipe_positions, r_in, r_out, shank_spacing, roughness, conductivity, rho_cp)
        return 0

    def set_coaxial_pipe(
        self,
        inner_pipe_d_in: float,
        inner_pipe_d_out: float,
        outer_pipe_d_in: float,
        outer_pipe_d_out: float,
        roughness: float,
        conductivity_inner: float,
        conductivity_outer: float,
        rho_cp: float,
    ) -> int:
        """
        Sets the pipe instance for a coaxial pipe.

        :param inner_pipe_d_in: inner pipe inner diameter, in m.
        :param inner_pipe_d_out: inner pipe outer diameter, in m.
        :param outer_pipe_d_in: outer pipe inner diameter, in m.
        :param outer_pipe_d_out: outer pipe outer diameter, in m.
        :param roughness: pipe surface roughness, in m.
        :param conductivity_inner: thermal conductivity of inner pipe, in W/m-K.
        :param conductivity_outer: thermal conductivity of outer pipe, in W/m-K.
        :param rho_cp: volumetric heat capacity, in J/m^3-K.
        :returns: Zero if successful, nonzero if failure
        :rtype: int
        """

        self.pipe_type = BHPipeType.COAXIAL

        # Note: This convention is different from pygfunction
        r_inner = [inner_pipe_d_in / 2.0, inner_pipe_d_out / 2.0]  # The radii of the inner pipe from in to out
        r_outer = [outer_pipe_d_in / 2.0, outer_pipe_d_out / 2.0]  # The radii of the outer pipe from in to out
        k_p = [conductivity_inner, conductivity_outer]
        self._pipe = Pipe((0, 0), r_inner, r_outer, 0, roughness, k_p, rho_cp)
        return 0

    def set_borehole(self, height: float, buried_depth: float, diameter: float) -> int:
        """
        Sets the borehole instance

        :param height: height, or active length, of the borehole, in m.
        :param buried_depth: depth of top of borehole below the ground surface, in m.
        :param diameter: diameter of the borehole, in m.
        :returns: Zero if successful, nonzero if failure
        :rtype: int
        """
        radius = diameter / 2.0
        self._borehole = GHEBorehole(height, buried_depth, radius, x=0.0, y=0.0)
        return 0

    def set_simulation_parameters(
        self,
        num_months: int,
        max_eft: float,
        min_eft: float,
        max_height: float,
        min_height: float,
        max_boreholes: int | None = None,
        continue_if_design_unmet: bool = False,
    ) -> int:
        """
        Sets the simulation parameters

        :param num_months: number of months in simulation.
        :param max_eft: maximum heat pump entering fluid temperature, in C.
        :param min_eft: minimum heat pump entering fluid temperature, in C.
        :param max_height: maximum height of borehole, in m.
        :param min_height: minimum height of borehole, in m.
        :param max_boreholes: maximum boreholes in search algorithms.
        :param continue_if_design_unmet: continues to process if design unmet.
        :returns: Zero if successful, nonzero if failure
        :rtype: int
        """
        self._simulation_parameters = SimulationParameters(
            1, num_months, max_eft, min_eft, max_height, min_height, max_boreholes, continue_if_design_unmet
        )
        return 0

    def set_ground_loads_from_hourly_list(self, hourly_ground_loads: list[float]) -> int:
        """
        Sets the ground loads based on a list input.

        :param hourly_ground_loads: annual, hourly ground loads, in W.
         positive values indicate heat extraction, negative values indicate heat rejection.
        :returns: Zero if successful, nonzero if failure
        :rtype: int
        """
        # TODO: Add API methods for different load inputs
        self._ground_loads = hourly_ground_loads
        return 0

    def set_geometry_constraints_near_square(self, b: float, length: float) -> int:
        """
        Sets the geometry constraints for the near-square design method.

        :param b: borehole-to-borehole spacing, in m.
        :param length: side length of the sizing domain, in m.
        :returns: Zero if successful, nonzero if failure
        :rtype: int
        """
        self._geometric_constraints = GeometricConstraintsNearSquare(b, length)
        return 0

    def set_geometry_constraints_rectangle(self, length: float, width: float, b_min: float, b_max: float) -> int:
        """
        Sets the geometry constraints for the rectangle design method.

        :param length: side length of the sizing domain, in m.
        :param width: side width of the sizing domain, in m.
        :param b_min: minimum borehole-to-borehole spacing, in m.
        :param b_max: maximum borehole-to-borehole spacing, in m.
        :returns: Zero if successful, nonzero if failure
        :rtype: int
        """
        self.geom_type = DesignGeomType.RECTANGLE
        self._geometric_constraints = GeometricConstraintsRectangle(width, length, b_min, b_max)
        return 0

    def set_geometry_constraints_bi_rectangle(
        self, length: float, width: float, b_min: float, b_max_x: float, b_max_y: float
    ) -> int:
        """
        Sets the geometry constraints for the bi-rectangle design method.

        :param length: side length of the sizing domain, in m.
        :param width: side width of the sizing domain, in m.
        :param b_min: minimum borehole-to-borehole spacing, in m.
        :param b_max_x: maximum borehole-to-borehole spacing in the x-direction, in m.
        :param b_max_y: maximum borehole-to-borehole spacing in the y-direction, in m.
        :returns: Zero if successful, nonzero if failure
        :rtype: int
        """
        self.geom_type = DesignGeomType.BIRECTANGLE
        self._geometric_constraints = GeometricConstraintsBiRectangle(width, length, b_min, b_max_x, b_max_y)
        return 0

    def set_geometry_constraints_bi_zoned_rectangle(
        self, length: float, width: float, b_min: float, b_max_x: float, b_max_y: float
    ) -> int:
        """
        Sets the geometry constraints for the bi-zoned rectangle design method.

        :param length: side length of the sizing domain, in m.
        :param width: side width of the sizing domain, in m.
        :param b_min: minimum borehole-to-borehole spacing, in m.
        :param b_max_x: maximum borehole-to-borehole spacing in the x-direction, in m.
        :param b_max_y: maximum borehole-to-borehole spacing in the y-direction, in m.
        :returns: Zero if successful, nonzero if failure
        :rtype: int
        """
        self.geom_type = DesignGeomType.BIZONEDRECTANGLE
        self._geometric_constraints = GeometricConstraintsBiZoned(width, length, b_min, b_max_x, b_max_y)
        return 0

    def set_geometry_constraints_bi_rectangle_constrained(
        self, b_min: float, b_max_x: float, b_max_y: float, property_boundary: list, no_go_boundaries: list
    ) -> int:
        """
        Sets the geometry constraints for the bi-rectangle constrained design method.

        :param b_min: minimum borehole-to-borehole spacing, in m.
        :param b_max_x: maximum borehole-to-borehole spacing in the x-direction, in m.
        :param b_max_y: maximum borehole-to-borehole spacing in the y-direction, in m.
        :param property_boundary: property boundary points, in m.
        :param no_go_boundaries: boundary points for no-go zones, in m.
        :returns: Zero if successful, nonzero if failure
        :rtype: int
        """
        self.geom_type = DesignGeomType.BIRECTANGLECONSTRAINED
        self._geometric_constraints = GeometricConstraintsBiRectangleConstrained(
            b_min, b_max_x, b_max_y, property_boundary, no_go_boundaries
        )
        return 0

    def set_geometry_constraints_rowwise(
        self,
        perimeter_spacing_ratio: float | None,
        max_spacing: float,
        min_spacing: float,
        spacing_step: float,
        max_rotation: float,
        min_rotation: float,
        rotate_step: float,
        property_boundary: list,
        no_go_boundaries: list,
    ) -> int:
        """
        Sets the geometry constraints for the row-wise design method.

        :param perimeter_spacing_ratio: the ratio between the minimum spacing between
            boreholes placed along the property and no-go zones and the standard borehole-to-borehole
            spacing used for internal boreholes.
        :param max_spacing: the largest minimum spacing that will be used to generate a RowWise field.
        :param min_spacing: the smallest minimum spacing that will be used to generate a RowWise field.
        :param spacing_step: the distance in spacing from the design found in the first part of first
            search to exhaustively check in the second part.
        :param max_rotation: the maximum rotation of the rows of each field relative to horizontal that
            will be used in the search.
        :param min_rotation: the minimum rotation of the rows of each field relative to horizontal that
            will be used in the search.
        :param rotate_step: step size for field rotation search.
        :param property_boundary: property boundary points.
        :param no_go_boundaries: boundary points for no-go zones.
        :returns: Zero if successful, nonzero if failure
        :rtype: int
        """

        # convert from degrees to radians
        max_rotation_deg = max_rotation
        min_rotation_deg = min_rotation
        max_rotation = max_rotation * DEG_TO_RAD
        min_rotation = min_rotation * DEG_TO_RAD

        self.geom_type = DesignGeomType.ROWWISE
        self._geometric_constraints = GeometricConstraintsRowWise(
            perimeter_spacing_ratio,
            min_spacing,
            max_spacing,
            spacing_step,
            min_rotation,
            max_rotation,
            rotate_step,
            property_boundary,
            no_go_boundaries,
            min_rotation_deg=min_rotation_deg,
            max_rotation_deg=max_rotation_deg,
        )
        return 0

    def set_design(self, flow_rate: float, flow_type_str: str, throw: bool = True) -> int:
        """
        Set the design method.

        :param flow_rate: design flow rate, in lps.
        :param flow_type_str: flow type string input.
        :param throw: By default, function will raise an exception on error, override to false to not raise exception
        :returns: Zero if successful, nonzero if failure
        :rtype: int
        """

        flow_type_str = flow_type_str.upper()
        if flow_type_str == FlowConfigType.SYSTEM.name:
            flow_type = FlowConfigType.SYSTEM
        elif flow_type_str == FlowConfigType.BOREHOLE.name:
            flow_type = FlowConfigType.BOREHOLE
        else:
            message = f"FlowConfig \"{flow_type_str}\" is not implemented."
            print(message, file=stderr)
            if throw:
                raise ValueError(message)
            return 1

        if self._geometric_constraints.type is None:
            message = "Geometric constraints must be set before `set_design` is called."
            print(message, file=stderr)
            if throw:
                raise ValueError(message)
            return 1

        if self._geometric_constraints.type == DesignGeomType.NEARSQUARE:
            # temporary disable of the type checker because of the _geometric_constraints member
            # noinspection PyTypeChecker
            self._design = DesignNearSquare(
                flow_rate,
                self._borehole,
                self.pipe_type,
                self._fluid,
                self._pipe,
                self._grout,
                self._soil,
                self._simulation_parameters,
                self._geometric_constraints,
                self._ground_loads,
                flow_type=flow_type,
                method=TimestepType.HYBRID,
            )
        elif self._geometric_constraints.type == DesignGeomType.RECTANGLE:
            # temporary disable of the type checker because of the _geometric_constraints member
            # noinspection PyTypeChecker
            self._design = DesignRectangle(
                flow_rate,
                self._borehole,
                self.pipe_type,
                self._fluid,
                self._pipe,
                self._grout,
                self._soil,
                self._simulation_parameters,
                self._geometric_constraints,
                self._ground_loads,
                flow_type=flow_type,
                method=TimestepType.HYBRID,
            )
        elif self._geometric_constraints.type == DesignGeomType.BIRECTANGLE:
            # temporary disable of the type checker because of the _geometric_constraints member
            # noinspection PyTypeChecker
            self._design = DesignBiRectangle(
                flow_rate,
                self._borehole,
                self.pipe_type,
                self._fluid,
                self._pipe,
                self._grout,
                self._soil,
                self._simulation_parameters,
                self._geometric_constraints,
                self._ground_loads,
                flow_type=flow_type,
                method=TimestepType.HYBRID,
            )
        elif self._geometric_constraints.type == DesignGeomType.BIZONEDRECTANGLE:
            # temporary disable of the type checker because of the _geometric_constraints member
            # noinspection PyTypeChecker
            self._design = DesignBiZoned(
                flow_rate,
                self._borehole,
                self.pipe_type,
                self._fluid,
                self._pipe,
                self._grout,
                self._soil,
                self._simulation_parameters,
                self._geometric_constraints,
                self._ground_loads,
                flow_type=flow_type,
                method=TimestepType.HYBRID,
            )
        elif self._geometric_constraints.type == DesignGeomType.BIRECTANGLECONSTRAINED:
            # temporary disable of the type checker because of the _geometric_constraints member
            # noinspection PyTypeChecker
            self._design = DesignBiRectangleConstrained(
                flow_rate,
                self._borehole,
                self.pipe_type,
                self._fluid,
                self._pipe,
                self._grout,
                self._soil,
                self._simulation_parameters,
                self._geometric_constraints,
                self._ground_loads,
                flow_type=flow_type,
                method=TimestepType.HYBRID,
            )
        elif self._geometric_constraints.type == DesignGeomType.ROWWISE:
            # temporary disable of the type checker because of the _geometric_constraints member
            # noinspection PyTypeChecker
            self._design = DesignRowWise(
                flow_rate,
                self._borehole,
                self.pipe_type,
                self._fluid,
                self._pipe,
                self._grout,
                self._soil,
                self._simulation_parameters,
                self._geometric_constraints,
                self._ground_loads,
                flow_type=flow_type,
                method=TimestepType.HYBRID,
            )
        else:
            message = "This design method has not been implemented"
            print(message, file=stderr)
            if throw:
                raise ValueError(message)
            return 1
        return 0

    def find_design(self, throw: bool = True) -> int:
        """
        Calls design methods to execute sizing.

        :param throw: By default, function will raise an exception on error, override to false to not raise exception
        :returns: Zero if successful, nonzero if failure
        :rtype: int
        """

        if not all(
            [
                self._fluid,
                self._grout,
                self._soil,
                self._pipe,
                self._borehole,
                self._simulation_parameters,
                self._ground_loads,
                self._geometric_constraints,
                self._design,
            ]
        ):
            message = "All GHE properties must be set before GHEManager.find_design is called."
            print(message, file=stderr)
            if throw:
                raise ValueError(message)
            return 1

        start_time = time()
        self._search = self._design.find_design()
        self._search.ghe.compute_g_functions()
        self._search_time = time() - start_time
        self._search.ghe.size(method=TimestepType.HYBRID)
        return 0

    def prepare_results(self, project_name: str, note: str, author: str, iteration_name: str):
        """
        Prepares the output results.
        """
        self.results = OutputManager(
            self._search,
            self._search_time,
            project_name,
            note,
            author,
            iteration_name,
            load_method=TimestepType.HYBRID,
        )

    def write_output_files(self, output_directory: Path, output_file_suffix: str = ""):
        """
        Writes the output files.

        :param output_directory: output directory for output files.
        :param output_file_suffix: adds a string suffix to the output files.
        """
        self.results.write_all_output_files(output_directory=output_directory, file_suffix=output_file_suffix)

    def write_input_file(self, output_file_path: Path, throw: bool = True) -> int:
        """
        Writes an input file based on current simulation configuration.

        :param output_file_path: output directory to write input file.
        :param throw: By default, function will raise an exception on error, override to false to not raise exception
        :returns: Zero if successful, nonzero if failure
        :rtype: int
        """

        # TODO: geometric constraints are currently held in two places
        #       SimulationParameters and GeometricConstraints
        #       these should be consolidated
        d_geo = self._geometric_constraints.to_input()
        d_geo['max_height'] = self._simulation_parameters.max_height
        d_geo['min_height'] = self._simulation_parameters.min_height

        # TODO: data held in different places
        d_des = self._design.to_input()
        d_des['max_eft'] = self._simulation_parameters.max_EFT_allowable
        d_des['min_eft'] = self._simulation_parameters.min_EFT_allowable

        if self._simulation_parameters.max_boreholes is not None:
            d_des['max_boreholes'] = self._simulation_parameters.max_boreholes
        if self._simulation_parameters.continue_if_design_unmet is True:
            d_des['continue_if_design_unmet'] = self._simulation_parameters.continue_if_design_unmet

        # pipe data
        d_pipe = {'rho_cp': self._pipe.rhoCp, 'roughness': self._pipe.roughness}

        if self.pipe_type in [BHPipeType.SINGLEUTUBE, BHPipeType.DOUBLEUTUBEPARALLEL, BHPipeType.DOUBLEUTUBESERIES]:
            d_pipe['inner_diameter'] = self._pipe.r_in * 2.0
            d_pipe['outer_diameter'] = self._pipe.r_out * 2.0
            d_pipe['shank_spacing'] = self._pipe.s
            d_pipe['conductivity'] = self._pipe.k
        elif self.pipe_type == BHPipeType.COAXIAL:
            d_pipe['inner_pipe_d_in'] = self._pipe.r_in[0] * 2.0
            d_pipe['inner_pipe_d_out'] = self._pipe.r_in[1] * 2.0
            d_pipe['outer_pipe_d_in'] = self._pipe.r_out[0] * 2.0
            d_pipe['outer_pipe_d_out'] = self._pipe.r_out[1] * 2.0
            d_pipe['conductivity_inner'] = self._pipe.k[0]
            d_pipe['conductivity_outer'] = self._pipe.k[1]
        else:
            message = 'Invalid pipe type'
            print(message, file=stderr)
            if throw:
                raise ValueError(message)
            return 1

        if self.pipe_type == BHPipeType.SINGLEUTUBE:
            d_pipe['arrangement'] = BHPipeType.SINGLEUTUBE.name
        elif self.pipe_type == BHPipeType.DOUBLEUTUBEPARALLEL:
            d_pipe['arrangement'] = BHPipeType.DOUBLEUTUBEPARALLEL.name
        elif self.pipe_type == BHPipeType.DOUBLEUTUBESERIES:
            d_pipe['arrangement'] = BHPipeType.DOUBLEUTUBESERIES.name
        elif self.pipe_type == BHPipeType.COAXIAL:
            d_pipe['arrangement'] = BHPipeType.COAXIAL.name
        else:
            message = 'Invalid pipe type'
            print(message, file=stderr)
            if throw:
                raise ValueError(message)
            return 1

        d = {
            'version': VERSION,
            'fluid': self._fluid.to_input(),
            'grout': self._grout.to_input(),
            'soil': self._soil.to_input(),
            'pipe': d_pipe,
            'borehole': self._borehole.to_input(),
            'simulation': self._simulation_parameters.to_input(),
            'geometric_constraints': d_geo,
            'design': d_des,
            'loads': {'ground_loads': list(self._ground_loads)},
        }

        with open(output_file_path, 'w') as f:
            f.write(dumps(d, sort_keys=True, indent=2, separators=(',', ': ')))
        return 0


def _run_manager_from_cli_worker(input_file_path: Path, output_directory: Path) -> int:
    """
    Worker function to run simulation.

    :param input_file_path: path to input file. Input file must exist.
    :param output_directory: path to write output files. Output directory must be a valid path.
    """

    # validate inputs against schema before doing anything
    if validate_input_file(input_file_path) != 0:
        return 1

    inputs = loads(input_file_path.read_text())

    ghe = GHEManager()

    version = inputs['version']

    if version != VERSION:
        print("Mismatched version, could be a problem", file=stderr)

    fluid_props = inputs['fluid']  # type: dict
    grout_props = inputs['grout']  # type: dict
    soil_props = inputs['soil']  # type: dict
    pipe_props = inputs['pipe']  # type: dict
    borehole_props = inputs['borehole']  # type: dict
    sim_props = inputs['simulation']  # type: dict
    constraint_props = inputs['geometric_constraints']  # type: dict
    design_props = inputs['design']  # type: dict
    ground_load_props = inputs['loads']['ground_loads']  # type: list

    ghe.set_fluid(**fluid_props, throw=False)
    ghe.set_grout(**grout_props)
    ghe.set_soil(**soil_props)
    ghe.set_pipe_type(pipe_props["arrangement"], throw=False)

    if ghe.pipe_type == BHPipeType.SINGLEUTUBE:
        ghe.set_single_u_tube_pipe(
            inner_diameter=pipe_props["inner_diameter"],
            outer_diameter=pipe_props["outer_diameter"],
            shank_spacing=pipe_props["shank_spacing"],
            roughness=pipe_props["roughness"],
            conductivity=pipe_props["conductivity"],
            rho_cp=pipe_props["rho_cp"],
        )
    elif ghe.pipe_type == BHPipeType.DOUBLEUTUBEPARALLEL:
        ghe.set_double_u_tube_pipe_parallel(
            inner_diameter=pipe_props["inner_diameter"],
            outer_diameter=pipe_props["outer_diameter"],
            shank_spacing=pipe_props["shank_spacing"],
            roughness=pipe_props["roughness"],
            conductivity=pipe_props["conductivity"],
            rho_cp=pipe_props["rho_cp"],
        )
    elif ghe.pipe_type == BHPipeType.DOUBLEUTUBESERIES:
        ghe.set_double_u_tube_pipe_series(
            inner_diameter=pipe_props["inner_diameter"],
            outer_diameter=pipe_props["outer_diameter"],
            shank_spacing=pipe_props["shank_spacing"],
            roughness=pipe_props["roughness"],
            conductivity=pipe_props["conductivity"],
            rho_cp=pipe_props["rho_cp"],
        )
    elif ghe.pipe_type == BHPipeType.COAXIAL:
        ghe.set_coaxial_pipe(
            inner_pipe_d_in=pipe_props["inner_pipe_d_in"],
            inner_pipe_d_out=pipe_props["inner_pipe_d_out"],
            outer_pipe_d_in=pipe_props["outer_pipe_d_in"],
            outer_pipe_d_out=pipe_props["outer_pipe_d_out"],
            roughness=pipe_props["roughness"],
            conductivity_inner=pipe_props["conductivity_inner"],
            conductivity_outer=pipe_props["conductivity_outer"],
            rho_cp=pipe_props["rho_cp"],
        )

    ghe.set_borehole(
        height=constraint_props["max_height"],
        buried_depth=borehole_props["buried_depth"],
        diameter=borehole_props["diameter"],
    )

    ghe.set_ground_loads_from_hourly_list(ground_load_props)
    max_bh = design_props.get("max_boreholes", None)
    continue_if_design_unmet = design_props.get("continue_if_design_unmet", False)
    ghe.set_simulation_parameters(
        num_months=sim_props["num_months"],
        max_eft=design_props["max_eft"],
        min_eft=design_props["min_eft"],
        max_height=constraint_props["max_height"],
        min_height=constraint_props["min_height"],
        max_boreholes=max_bh,
        continue_if_design_unmet=continue_if_design_unmet,
    )

    if ghe.set_design_geometry_type(constraint_props["method"], throw=False) != 0:
        return 1

    if ghe.geom_type == DesignGeomType.RECTANGLE:
        ghe.set_geometry_constraints_rectangle(
            length=constraint_props["length"],
            width=constraint_props["width"],
            b_min=constraint_props["b_min"],
            b_max=constraint_props["b_max"],
        )
    elif ghe.geom_type == DesignGeomType.NEARSQUARE:
        ghe.set_geometry_constraints_near_square(b=constraint_props["b"], length=constraint_props["length"])
    elif ghe.geom_type == DesignGeomType.BIRECTANGLE:
        ghe.set_geometry_constraints_bi_rectangle(
            length=constraint_props["length"],
            width=constraint_props["width"],
            b_min=constraint_props["b_min"],
            b_max_x=constraint_props["b_max_x"],
            b_max_y=constraint_props["b_max_y"],
        )
    elif ghe.geom_type == DesignGeomType.BIZONEDRECTANGLE:
        ghe.set_geometry_constraints_bi_zoned_rectangle(
            length=constraint_props["length"],
            width=constraint_props["width"],
            b_min=constraint_props["b_min"],
            b_max_x=constraint_props["b_max_x"],
            b_max_y=constraint_props["b_max_y"],
        )
    elif ghe.geom_type == DesignGeomType.BIRECTANGLECONSTRAINED:
        ghe.set_geometry_constraints_bi_rectangle_constrained(
            b_min=constraint_props["b_min"],
            b_max_x=constraint_props["b_max_x"],
            b_max_y=constraint_props["b_max_y"],
            property_boundary=constraint_props["property_boundary"],
            no_go_boundaries=constraint_props["no_go_boundaries"],
        )
    elif ghe.geom_type == DesignGeomType.ROWWISE:
        # use perimeter calculations if present
        perimeter_spacing_ratio = constraint_props.get("perimeter_spacing_ratio", None)

        ghe.set_geometry_constraints_rowwise(
            perimeter_spacing_ratio=perimeter_spacing_ratio,
            max_spacing=constraint_props["max_spacing"],
            min_spacing=constraint_props["min_spacing"],
            spacing_step=constraint_props["spacing_step"],
            max_rotation=constraint_props["max_rotation"],
            min_rotation=constraint_props["min_rotation"],
            rotate_step=constraint_props["rotate_step"],
            property_boundary=constraint_props["property_boundary"],
            no_go_boundaries=constraint_props["no_go_boundaries"],
        )
    else:
        print("Geometry constraint method not supported.", file=stderr)
        return 1

    ghe.set_design(flow_rate=design_props["flow_rate"], flow_type_str=design_props["flow_type"], throw=False)

    ghe.find_design(throw=False)
    ghe.prepare_results("GHEDesigner Run from CLI", "Notes", "Author", "Iteration Name")
    ghe.write_output_files(output_directory)

    return 0


@click.command(name="GHEDesignerCommandLine")
@click.argument("input-path", type=click.Path(exists=True), required=True)
@click.argument("output-directory", type=click.Path(exists=False), required=False)
@click.version_option(VERSION)
@click.option("--validate-only", default=False, is_flag=True, show_default=False, help="Validate input file and exit.")
@click.option("-c", "--convert", help="Convert output to specified format. Options supported: 'IDF'.")
def run_manager_from_cli(input_path, output_directory, validate_only, convert):
    input_path = Path(input_path).resolve()

    if validate_only:
        if validate_input_file(input_path) != 0:
            logger.error("Schema validation error. See previous error message for details.")
            exit(1)
        logger.info("Valid input file.")
        exit(0)

    if convert:
        if convert == "IDF":
            try:
                write_idf(input_path)
                print("Output converted to IDF objects.")
                exit(0)
            except Exception as e:  # noqa: BLE001
                logger.warning(f"Conversion to IDF error: {e}")
                exit(1)

        else:
            print(f"Unsupported conversion format type: {convert}", file=stderr)
            exit(1)

    if output_directory is None:
        print('Output directory path must be passed as an argument, aborting', file=stderr)
        exit(1)

    output_path = Path(output_directory).resolve()

    # click discards a command's return value: the status must be raised as the process exit code
    exit(_run_manager_from_cli_worker(input_path, output_path))


if __name__ == "__main__":
    exit(run_manager_from_cli())
