from math import ceil, floor

from ghedesigner.coordinates import c_shape, l_shape, lop_u, rectangle, transpose_coordinates, zoned_rectangle
from ghedesigner.feature_recognition import determine_largest_rectangle, remove_cutout


def square_and_near_square(lower: int, upper: int, b: float):
    if lower < 1 or upper < 1:
        raise ValueError("The lower and upper arguments must be positive" "integer values.")
    if upper < lower:
        raise ValueError("The lower argument should be less than or equal to" "the upper.")

    field_descriptors = []
    coordinates_domain = []
    # field_descriptors = ["1X1", "1X2", "1X3"]
    # coordinates_domain = [
    #     [[0, 0]],
    #     [[0, 0], [0, b]],
    #     [[0, 0], [0, b], [0, 2 * b]]
    # ]

    for i in range(lower, upper + 1):
        for j in range(2):
            coordinates = rectangle(i, i + j, b, b)

            coordinates_domain.append(coordinates)
            field_descriptors.append(f"{i}X{i + j}")

    return coordinates_domain, field_descriptors


def rectangular(length_x: float, length_y: float, b_min: float, b_max: float, disp: bool = False):
    # Make this work for the transpose
    if length_x >= length_y:
        length_1 = length_x
        length_2 = length_y
        transpose = False
    else:
        length_1 = length_y
        length_2 = length_x
        transpose = True

    rectangle_domain = []
    field_descriptors = []
    # find the maximum number of boreholes as a float
    n_1_max = (length_1 / b_min) + 1
    n_1_min = (length_1 / b_max) + 1

    n_min = ceil(n_1_min)
    n_max = floor(n_1_max)

    n_2_old = 1

    if disp:
        print(50 * "-")
        print("Rectangular Domain\nNx\tNy\tBx\tBy")

    _iter = 0

    for num_borehole in range(n_min, n_max + 1):
        # Check to see if we bracket
        b = length_1 / (num_borehole - 1)
        n_2 = floor((length_2 / b) + 1)

        if _iter == 0:
            for i in range(1, n_min):
                r = rectangle(i, 1, b, b)
                if transpose:
                    r = transpose_coordinates(r)
                rectangle_domain.append(r)
                field_descriptors.append(f"{i}X{1}_B{b:0.2f}")
            for j in range(1, n_2):
                r = rectangle(n_min, j, b, b)
                if transpose:
                    r = transpose_coordinates(r)
                rectangle_domain.append(r)
                field_descriptors.append(f"{n_min}X{j}_B{b:0.2f}")

            _iter += 1
        if n_2_old == n_2:
            pass
        else:
            r = rectangle(num_borehole, n_2, b, b)
            if disp:
                print(f"{num_borehole}\t{n_2}\t{b}\t{b}")
            if transpose:
                r = transpose_coordinates(r)
            rectangle_domain.append(r)
            field_descriptors.append(f"{num_borehole}X{n_2}_B{b:0.2f}")
            n_2_old = n_2

        num_borehole += 1  # noqa: PLW2901

    return rectangle_domain, field_descriptors


def bi_rectangular(length_x, length_y, b_min, b_max_x, b_max_y, transpose=False, disp=False):
    # Make this work for the transpose
    if length_x >= length_y:
        length_1 = length_x
        length_2 = length_y
        b_max_1 = b_max_x
        b_max_2 = b_max_y
    else:
        length_1 = length_y
        length_2 = length_x
        b_max_1 = b_max_y
        b_max_2 = b_max_x

    bi_rectangle_domain = []
    field_descriptors = []
    # find the maximum number of boreholes as a float
    n_1_max = (length_1 / b_min) + 1
    n_1_min = (length_1 / b_max_1) + 1

    # if it is the first case in the domain, we want to step up from one
    # borehole, to a line, to adding the rows
    _iter = 0

    n_min = ceil(n_1_min)
    n_max = floor(n_1_max)
    for n_1 in range(n_min, n_max + 1):
        # b_max_2 is often length_2 / (n - 1) (see bi_rectangle_nested): the quotient can round to
        # n - 1 + 1 ulp and ceil() would then add a whole row, pushing the spacing below b_min
        n_2 = ceil(round(length_2 / b_max_2, 9) + 1)
        b_2 = length_2 / (n_2 - 1)

        b_1 = length_1 / (n_1 - 1)

        if _iter == 0:
            for i in range(1, n_1):
                coordinates = rectangle(i, 1, b_1, b_2)
                if transpose:
                    coordinates = transpose_coordinates(coordinates)
                bi_rectangle_domain.append(coordinates)
                field_descriptors.append(f"{i}X{1}_B1{b_1:0.2f}_B2{b_2:0.2f}")
            for j in range(1, n_2):
                coordinates = rectangle(n_1, j, b_1, b_2)
                if transpose:
                    coordinates = transpose_coordinates(coordinates)
                bi_rectangle_domain.append(coordinates)
                field_descriptors.append(f"{n_1}X{j}_B1{b_1:0.2f}_B2{b_2:0.2f}")

            _iter += 1

        if disp:
            print(f"{n_1}x{n_2} with {b_1:0.1f}x{b_2:0.1f}")

        coordinates = rectangle(n_1, n_2, b_1, b_2)
        if transpose:
            coordinates = transpose_coordinates(coordinates)
        bi_rectangle_domain.append(coordinates)
        field_descriptors.append(f"{n_1}X{n_2}_B1{b_1:0.2f}_B2{b_2:0.2f}")

        n_1 += 1  # noqa: PLW2901

    return bi_rectangle_domain, field_descriptors


def bi_rectangle_nested(length_x, length_y, b_min, b_max_x, b_max_y, disp=False):
    # Make this work for the transpose
    if length_x >= length_y:
        length_1 = length_x
        length_2 = length_y
        b_max_1 = b_max_x
        b_max_2 = b_max_y
        transpose = False
    else:
        length_1 = length_y
        length_2 = length_x
        b_max_1 = b_max_y
        b_max_2 = b_max_x
        transpose = True

    # find the maximum number of boreholes as a float
    n_2_max = (length_2 / b_min) + 1
    n_2_min = (length_2 / b_max_2) + 1

    n_min = ceil(n_2_min)
    n_max = floor(n_2_max)

    bi_rectangle_nested_domain = []
    field_descriptors = []

    for n_2 in range(n_min, n_max + 1):
        b_2 = length_2 / (n_2 - 1)
        bi_rectangle_domain, f_d = bi_rectangular(
            length_1, length_2, b_min, b_max_1, b_2, transpose=transpose, disp=disp
        )
        # print("Bi-Rectangular: ",bi_rectangle_domain)
        bi_rectangle_nested_domain.append(bi_rectangle_domain)
        # fieldDescriptors.append(
        #     str(length_1) + "X" + str(length_2) + "_" + str(B_min) + "_" + str(B_max_1)+"_"+str(b_2)
        # )
        field_descriptors.append(f_d)

    return bi_rectangle_nested_domain, field_descriptors


def zoned_rectangle_domain(length_x, length_y, n_x, n_y, transpose=False):
    # Make this work for the transpose
    if length_x >= length_y:
        length_1 = length_x
        length_2 = length_y
        n_1 = n_x
        n_2 = n_y
    else:
        length_1 = length_y
        length_2 = length_x
        n_1 = n_y
        n_2 = n_x

    b_1 = length_1 / (n_1 - 1)
    b_2 = length_2 / (n_2 - 1)

    _zoned_rectangle_domain = []
    field_descriptors = []

    n_i1 = 1
    n_i2 = 1

    z = zoned_rectangle(n_1, n_2, b_1, b_2, n_i1, n_i2)
    if transpose:
        z = transpose_coordinates(z)
    _zoned_rectangle_domain.append(z)
    field_descriptors.append(f"{n_1}X{n_2}_{n_i1}X{n_i2}_B1{b_1:0.2f}_B2{b_2:0.2f}")

    while n_i1 < (n_1 - 2) or n_i2 < (n_2 - 2):
        ratio = b_1 / b_2

        # general case where we can reduce in either direction
        # inner rectangular spacing
        bi_1 = (n_1 - 1) * b_1 / (n_i1 + 1)
        # bi_2 = (n_2 - 1) * b_2 / (n_i2 + 1)
        # inner spacings for increasing each row
        # bi_1_p1 = (n_1 - 1) * b_1 / (n_i1 + 2)
        bi_2_p1 = (n_2 - 1) * b_2 / (n_i2 + 2)

        ratio_1 = bi_1 / bi_2_p1
        # ratio_2 = bi_2 / bi_1_p1

        # we only want to increase one at a time, and we want to increase
        # the one that will keep the inner rectangle furthest from the perimeter

        if ratio_1 > ratio:
            n_i1 += 1
        elif ratio_1 <= ratio:
            n_i2 += 1
        else:
            raise ValueError(
                "This function should not have ever made it to "
                "this point, there may be a problem with the "
                "inputs."
            )
        z = zoned_rectangle(n_1, n_2, b_1, b_2, n_i1, n_i2)
        if transpose:
            z = transpose_coordinates(z)
        _zoned_rectangle_domain.append(z)
        field_descriptors.append(f"{n_1}X{n_2}_{n_i1}X{n_i2}_B1{b_1:0.2f}_B2{b_2:0.2f}")

    return _zoned_rectangle_domain, field_descriptors


def bi_rectangle_zoned_nested(length_x, length_y, b_min, b_max_x, b_max_y):
    # Make this work for the transpose
    if length_x >= length_y:
        length_1 = length_x
        length_2 = length_y
        b_max_1 = b_max_x
        b_max_2 = b_max_y
        transpose = False
    else:
        length_1 = length_y
        length_2 = length_x
        b_max_1 = b_max_y
        b_max_2 = b_max_x
        transpose = True

    # find the maximum number of boreholes as a float
    n_1_max = (length_1 / b_min) + 1
    n_1_min = (length_1 / b_max_1) + 1

    n_2_max = (length_2 / b_min) + 1
    n_2_min = (length_2 / b_max_2) + 1

    n_min_1 = ceil(n_1_min)
    n_max_1 = floor(n_1_max)

    n_min_2 = ceil(n_2_min)
    n_max_2 = floor(n_2_max)

    bi_rectangle_zoned_nested_domain = []
    field_descriptors = []

    n_1_values = list(range(n_min_1, n_max_1 + 1))
    n_2_values = list(range(n_min_2, n_max_2 + 1))

    j = 0  # pertains to n_1_values
    k = 0  # pertains to n_2_values
    index_l = 0

    domain = []
    f_d = []
    for i in range(len(n_1_values) + len(n_2_values) - 1):
        if index_l == 0:
            # spacings along the longer (1) and shorter (2) side; transposed back below
            b_x = length_1 / (n_min_1 - 1)
            b_y = length_2 / (n_min_2 - 1)

            # go from one borehole to a line
            for index_l in range(1, n_min_1 + 1):
                r = rectangle(index_l, 1, b_x, b_y)
                if transpose:
                    r = transpose_coordinates(r)
                domain.append(r)
                f_d.append(f"{index_l}X{1}_{b_x:0.2f}X{b_y:0.2f}")

            # go from a line to an L
            for index_l in range(2, n_min_2 + 1):
                l_shape_object = l_shape(n_min_1, index_l, b_x, b_y)
                if transpose:
                    l_shape_object = transpose_coordinates(l_shape_object)
                domain.append(l_shape_object)
                f_d.append(f"{n_min_1}X{index_l}_{b_x:0.2f}X{b_y:0.2f}")

            # go from an L to a U
            for index_l in range(2, n_min_2 + 1):
                lop_u_field = lop_u(n_min_1, n_min_2, b_x, b_y, index_l)
                if transpose:
                    lop_u_field = transpose_coordinates(lop_u_field)
                domain.append(lop_u_field)
                f_d.append(f"{n_min_1}X{n_min_2}_{b_x:0.2f}X{b_y:0.2f}")

            # go from a U to an open
            for index_l in range(1, n_min_1 - 1):
                c = c_shape(n_min_1, n_min_2, b_x, b_y, index_l)
                if transpose:
                    c = transpose_coordinates(c)
                domain.append(c)
                f_d.append(f"{n_min_1}X{n_min_2}_{b_x:0.2f}X{b_y:0.2f}")

            index_l += 1

        if i % 2 == 0:
            bi_rectangle_zoned_domain, f_ds = zoned_rectangle_domain(
                length_1, length_2, n_1_values[j], n_2_values[k], transpose=transpose
            )
            domain.extend(bi_rectangle_zoned_domain)
            f_d.extend(f_ds)
            if j < len(n_1_values) - 1:
                j += 1
            else:
                k += 1
        else:
            bi_rectangle_zoned_domain, f_ds = zoned_rectangle_domain(
                length_1, length_2, n_1_values[j], n_2_values[k], transpose=transpose
            )
            domain.extend(bi_rectangle_zoned_domain)
            f_d.extend(f_ds)
            if k < len(n_2_values) - 1:
                k += 1
            else:
                j += 1

    bi_rectangle_zoned_nested_domain.append(domain)
    field_descriptors.append(f_d)

    return bi_rectangle_zoned_nested_domain, field_descriptors


def polygonal_land_constraint(
    b_min, b_max_x, b_max_y, property_boundary, no_go_boundaries=None, keep_contour=[True, False]
):
    if no_go_boundaries is None:
        no_go_boundaries = []

    outer_rectangle = determine_largest_rectangle(property_boundary)

    x, y = list(zip(*outer_rectangle))
    length = max(x)
    width = max(y)
    coordinates_domain_nested, field_descriptors = bi_rectangle_nested(length, width, b_min, b_max_x, b_max_y)

    coordinates_domain_nested_cutout = []

    for domain in coordinates_domain_nested:
        new_coordinates_domain = []
        for coordinates in domain:
            # Remove boreholes outside of property
            new_coordinates = remove_cutout(
                coordinates, property_boundary, remove_inside=False, keep_contour=keep_contour[0]
            )
            if len(new_coordinates) == 0:
                continue
            # Remove boreholes inside of building
            if len(no_go_boundaries) > 0:
                new_coordinates = remove_cutout(
                    new_coordinates, no_go_boundaries, remove_inside=True, keep_contour=keep_contour[1]
                )
            if len(new_coordinates) == 0:
                continue
            new_coordinates_domain.append(new_coordinates)
        coordinates_domain_nested_cutout.append(new_coordinates_domain)

    coordinates_domain_nested_cutout_reordered = []
    field_descriptors_reordered = []
    for idx, domain in enumerate(coordinates_domain_nested_cutout):
        domain_reordered, f_d_reordered = reorder_domain(domain, field_descriptors[idx])
        coordinates_domain_nested_cutout_reordered.append(domain_reordered)
        field_descriptors_reordered.append(f_d_reordered)

    return coordinates_domain_nested_cutout_reordered, field_descriptors_reordered


def reorder_domain(domain, descriptors):
    """
    Sort domains by length. Rearrange descriptors accordingly.
    Solution from: https://stackoverflow.com/a/9764364

    # TODO: Investigate whether this is needed.
    # TODO: Domains may already be presorted by the nature of the preceding algorithms.
    """

    return zip(*sorted(zip(domain, descriptors), key=lambda x: len(x[0])))
