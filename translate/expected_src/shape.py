from math import cos, sin, sqrt

import numpy as np



class Shapes:
    def __init__(self, c):
        """
        constructs a shape object
        """
        self.c = np.array(c)
        # print(c)
        xs = [0] * len(self.c)
        ys = [0] * len(self.c)
        for i in range(len(self.c)):
            xs[i] = self.c[i][0]
            ys[i] = self.c[i][1]
        self.max_x = max(xs)
        self.min_x = min(xs)
        self.max_y = max(ys)
        self.min_y = min(ys)

    def line_intersect(self, xy, rotate=0, intersection_tolerance=1e-6):
        """
        returns the intersections between a line segment and the shape

        Parameters
        -----------
        :param xy: [float,float,float,float]
            the x,y values of both endpoints of the line segment
        :param rotate:
        :param intersection_tolerance:

        :return: [[float]]
            the x,y values of the intersections
        """
        x1, y1, x2, y2 = xy
        r_a = []
        for i in range(len(self.c)):
            if i == len(self.c) - 1:
                c1 = self.c[len(self.c) - 1]
                c2 = self.c[0]
                r = vector_intersect(
                    [c1[0], c1[1], c2[0], c2[1]],
                    [x1, y1, x2, y2],
                    intersection_tolerance,
                )
                # print(r)
                if len(r) == 1:
                    r = r[0]
                    if (
                        (r[0] - max(c2[0], c1[0])) > intersection_tolerance
                        or (r[0] - min(c2[0], c1[0])) < -1 * intersection_tolerance
                        or (r[1] - max(c2[1], c1[1])) > intersection_tolerance
                        or (r[1] - min(c2[1], c1[1])) < -1 * intersection_tolerance
                    ):
                        continue
                    r_a.append(r)
            else:
                c1 = self.c[i]
                c2 = self.c[i + 1]
                r = vector_intersect(
                    [c1[0], c1[1], c2[0], c2[1]],
                    [x1, y1, x2, y2],
                    intersection_tolerance,
                )
                if len(r) == 1:
                    r = r[0]
                    if (
                        (r[0] - max(c2[0], c1[0])) > intersection_tolerance
                        or (r[0] - min(c2[0], c1[0])) < -1 * intersection_tolerance
                        or (r[1] - max(c2[1], c1[1])) > intersection_tolerance
                        or (r[1] - min(c2[1], c1[1])) < -1 * intersection_tolerance
                    ):
                        continue
                    r_a.append(r)
        # print("x value: %f, r values:"%x1)
        # print(r_a)

        r_a = sort_intersections(r_a, rotate)
        # print(r_a)
        return r_a

    def point_intersect(self, xy):
        """
        returns whether the given point is inside the rectangle

        Parameters
        -----------
        :param xy: [float,float]
            x,y value of point

        :return: boolean
            true if inside, false if not
        """
        x, y = xy
        if (x > self.max_x or x < self.min_x) or (y > self.max_y or y < self.min_y):
            # print("Returning False b/c outside of box")
            return False
        far_x = self.min_x - 10
        inters = self.line_intersect([far_x, y, far_x + 1, y])
        # print(inters)
        inters = [inter for inter in inters if inter[0] <= x]
        # print("x: %f"%x,inters)
        if len(inters) == 1:
            # print("Returning True")
            return True
        i = 0
        while i < len(inters):
            for vert in self.c:
                if inters[i][0] == vert[0] and inters[i][1] == vert[1]:
                    inters.pop(i)
                    i -= 1
                    break
            i += 1
        return len(inters) % 2 != 0
        # False if even, True if odd

    def get_area(self):
        """
        returns area of shape

        :return: float
            area of shape
        """
        area_sum = 0
        for i in range(len(self.c)):
            if i == len(self.c) - 1:
                area_sum += self.c[len(self.c) - 1][0] * self.c[0][1] - (self.c[len(self.c) - 1][1] * self.c[0][0])
                continue
            area_sum += self.c[i][0] * self.c[i + 1][1] - (self.c[i][1] * self.c[i + 1][0])
        return 0.5 * area_sum


def sort_intersections(r_a, rotate):
    if len(r_a) == 0:
        return r_a
    vals = [0] * len(r_a)
    for i, inter in enumerate(r_a):
        # position of the intersection along the row direction. (The former polar form,
        # dist * sin(pi/2 - atan(y/x) + rotate), equals this projection for x > 0 but changes sign
        # for x < 0, which reversed the order for intersections computed at x = -1e-15 on a
        # boundary lying on the y-axis.)
        vals[i] = inter[0] * cos(rotate) + inter[1] * sin(rotate)
    zipped = sorted(zip(vals, r_a))
    r_a = [row for _, row in zipped]
    return r_a


def vector_intersect(l1, l2, intersection_tolerance):
    """
     gives the intersection between two line segments

    Parameters
    -----------
    :param l1: [[float]]
        endpoints of first line segment
    :param l2: [[float]]
        endpoints of the second line segment
    :param intersection_tolerance:

    :return: [float,float]
        x,y values of intersection (returns None if there is none)
    """
    x11, y11, x12, y12 = l1
    x21, y21, x22, y22 = l2
    if x12 - x11 == 0:
        a1 = float("inf")
    else:
        a1 = (y12 - y11) / (x12 - x11)
        c1 = y11 - x11 * a1
    if x22 - x21 == 0:
        a2 = float("inf")
    else:
        a2 = (y22 - y21) / (x22 - x21)
        c2 = y21 - x21 * a2
    if a1 == float("inf") or a2 == float("inf"):
        if a1 == float("inf") and a2 == float("inf"):
            if abs(x11 - x21) < intersection_tolerance:
                return [[x11, y11], [x12, y12]]
            else:
                return []
        elif a1 == float("inf"):
            return [[x11, a2 * x11 + c2]]
        else:
            return [[x21, a1 * x21 + c1]]
    if abs(a1 - a2) <= intersection_tolerance:
        if abs(y22 - (a1 * x22 + c1)) <= intersection_tolerance:
            # return [[x11,y11],[x12,y12]]
            return []
        else:
            return []
    rx = (c2 - c1) / (a1 - a2)
    ry = a1 * (c2 - c1) / (a1 - a2) + c1
    return [[rx, ry]]


def point_polygon_check(contour, point, on_edge_tolerance=0.001):
    """
    Mimics pointPolygonTest from OpenCV-Python

    Adapted from the methods outlined in the links below.
    https://stackoverflow.com/a/63436180/5965685
    https://stackoverflow.com/a/17693146/5965685

    :param contour: list of tuples containing (x, y) contour boundary points
    :param point: tuple containing the (x, y) point to test

    :returns: -1 if outside, 0 if on edge, 1 if inside
    :rtype: int
    """

    # check if on edge
    # use Pythagoras to check whether the distance between the test point
    # and the line vertices add to the distance between the line vertices
    # if they are within tolerance, the point is co-linear
    # if not, it is off the line

    def distance(pt_1, pt_2) -> float:
        return sqrt((pt_1[0] - pt_2[0]) ** 2 + (pt_1[1] - pt_2[1]) ** 2)

    for idx, vertex in enumerate(contour):
        v1 = contour[idx - 1]
        v2 = vertex
        test_dist = distance(v1, point) + distance(v2, point)
        v12_dist = distance(v1, v2)

        if abs(test_dist - v12_dist) < on_edge_tolerance:
            return 0

    # if made it to here, not on edge and check if inside/outside
    def between(p, a, b) -> bool:
        return ((p >= a) and (p <= b)) or ((p <= a) and (p >= b))

    inside = True
    px = point[0]
    py = point[1]

    for idx, vertex in enumerate(contour):
        v1 = contour[idx - 1]
        v2 = vertex
        v1x = v1[0]
        v1y = v1[1]
        v2x = v2[0]
        v2y = v2[1]

        if between(py, v1y, v2y):  # points inside vertical range
            if ((py == v1y) and (v2y >= v1y)) or ((py == v2y) and (v1y >= v2y)):
                continue

            # calc cross product `PA X PB`, P lays on left side of AB if c > 0
            c = (v1x - px) * (v2y - py) - (v2x - px) * (v1y - py)

            if c == 0:
                return 0

            if (v1y < v2y) == (c > 0):
                inside = not inside

    return -1 if inside else 1
