import warnings
from calendar import monthrange
from json import dumps
from math import floor

import numpy as np
from scipy.interpolate import interp1d

from ghedesigner.borehole_heat_exchangers import SingleUTube
from ghedesigner.constants import HRS_IN_DAY, SEC_IN_HR, TWO_PI
from ghedesigner.radial_numerical_borehole import RadialNumericalBH
from ghedesigner.simulation import SimulationParameters


class HybridLoad:
    def __init__(
        self,
        raw_loads: list,
        bhe: SingleUTube,
        radial_numerical: RadialNumericalBH,
        sim_params: SimulationParameters,
        years=None,
    ):
        # Split the hourly loads into heating and cooling (kW)
        if years is None:
            years = [2019]

        self.hourly_rejection_loads, self.hourly_extraction_loads = self.split_heat_and_cool(raw_loads)

        # Simulation start and end month
        self.start_month = sim_params.start_month
        self.end_month = sim_params.end_month
        if len(years) <= 1:
            self.peak_retain_start = 12  # use peak loads for first 12 months
            self.peak_retain_end = 12  # use peak loads for last 12 months
        else:
            self.peak_retain_start = len(years) * 6
            self.peak_retain_end = len(years) * 6

        # Store the borehole heat exchanger
        self.bhe = bhe
        # Store the radial numerical g-function value
        # Note: this is intended to be a scipy.interp1d object
        self.radial_numerical = radial_numerical
        self.years = years

        # Get the number of days in each month for a given year (make 0 NULL)
        self.days_in_month = [0]
        for year in years:
            self.days_in_month.extend([monthrange(year, i)[1] for i in range(1, 13)])

        # TODO: verify whether errors are possible here and raise exception if needed
        # assert (len(hourly_rejection_loads) == sum(self.days_in_month) * 24.0
        #         and len(hourly_extraction_loads) == sum(self.days_in_month) * 24.0), (
        #     "The total number of hours in the year are not equal. Is this a leap year?")

        # This block of data holds the compact monthly representation of the
        # loads. The intention is that these loads will usually repeat. It's
        # possible that for validation or design purposes, users may wish to
        # specify loads that differ from year to year. For these arrays,
        # January is the second item (1) and December the last (12)
        # We'll reserve the first item (0) for an annual total or peak

        num_unique_months = len(years) * 12 + 1

        # monthly cooling loads (or heat rejection) in kWh
        self.monthly_cl = [0] * num_unique_months
        # monthly heating loads (or heat extraction) in kWh
        self.monthly_hl = [0] * num_unique_months
        # monthly peak cooling load (or heat rejection) in kW
        self.monthly_peak_cl = [0] * num_unique_months
        # monthly peak heating load (or heat extraction) in kW
        self.monthly_peak_hl = [0] * num_unique_months
        # monthly average cooling load (or heat rejection) in kW
        self.monthly_avg_cl = [0] * num_unique_months
        # monthly average heating load (or heat extraction) in kW
        self.monthly_avg_hl = [0] * num_unique_months
        # day of the month on which peak clg load occurs (e.g. 1-31)
        self.monthly_peak_cl_day = [0] * num_unique_months
        # day of the month on which peak htg load occurs (e.g. 1-31)
        self.monthly_peak_hl_day = [0] * num_unique_months
        # Process the loads by month
        self.split_loads_by_month()

        # 48 hour loads are going to be necessary for the hourly simulation for
        # finding the peak load duration
        # These will be a 2D list, a list of 48 hour loads in each index
        # Make 0 position NULL
        # list of two day (48 hour) cooling loads (or heat rejection) in kWh
        self.two_day_hourly_peak_cl_loads = [[0]]
        # list of two day (48 hour) heating loads (or heat extraction) in kWh
        self.two_day_hourly_peak_hl_loads = [[0]]
        self.process_two_day_loads()

        # Now we need to perform 48-hour simulations to determine the
        # monthly peak load hours
        # Stores two day (48 hour) fluid temperatures for cooling with nominal
        # load
        self.two_day_fluid_temps_cl_nm = [[0]]
        # Stores two day (48 hour) fluid temperatures for cooling with peak load
        self.two_day_fluid_temps_cl_pk = [[0]]
        # Stores two day (48 hour) fluid temperatures for heating with nominal
        # load
        self.two_day_fluid_temps_hl_nm = [[0]]
        # Stores two day (48 hour) fluid temperatures for heating with peak load
        self.two_day_fluid_temps_hl_pk = [[0]]

        # duration of monthly peak clg load in hours
        self.monthly_peak_cl_duration = [0] * num_unique_months
        # duration of monthly peak htg load in hours
        self.monthly_peak_hl_duration = [0] * num_unique_months
        self.find_peak_durations()

        # This block of data holds the sequence of loads. This is an
        # intermediate form, where the load values hold the actual loads,
        # not the de-convoluted loads
        self.load = np.array(0)  # holds the load during the period
        self.hour = np.array(0)  # holds the last hour of a period
        self.step_func_load = np.array(0)  # holds the load in terms of step functions
        self.process_month_loads()

    def as_dict(self) -> dict:
        output = {}
        output['type'] = str(self.__class__)
        output['results'] = self.create_dataframe_of_peak_analysis()
        return output

    @staticmethod
    def split_heat_and_cool(raw_loads):
        """
        Split the provided loads into heating and cooling.
        Heating is positive, cooling is negative.

        :param raw_loads: raw loads entered by the user, in Watts
        :return: Loads split into heating and cooling
        """
        hourly_extraction_loads = [x / 1000.0 if x >= 0.0 else 0.0 for x in raw_loads]
        hourly_rejection_loads = [abs(x) / 1000.0 if x < 0.0 else 0.0 for x in raw_loads]

        return hourly_rejection_loads, hourly_extraction_loads

    def split_loads_by_month(self) -> None:
        # Split the loads into peak, total and average loads for each month

        # Store the index of the last months hours
        hours_in_previous_months = 0
        for i in range(1, len(self.days_in_month)):
            hours_in_month = HRS_IN_DAY * self.days_in_month[i]
            # Slice the hours in this current month
            month_rejection_loads = self.hourly_rejection_loads[
                hours_in_previous_months : hours_in_previous_months + hours_in_month
            ]
            month_extraction_loads = self.hourly_extraction_loads[
                hours_in_previous_months : hours_in_previous_months + hours_in_month
            ]

            # TODO: verify whether errors are possible here and raise exception if needed
            # assert (len(month_extraction_loads) == hours_in_month and len(month_rejection_loads) == hours_in_month)

            # Sum
            # monthly cooling loads (or heat rejection) in kWh
            self.monthly_cl[i] = sum(month_rejection_loads)
            # monthly heating loads (or heat extraction) in kWh
            self.monthly_hl[i] = sum(month_extraction_loads)

            # Peak
            # monthly peak cooling load (or heat rejection) in kW
            self.monthly_peak_cl[i] = max(month_rejection_loads)
            # monthly peak heating load (or heat extraction) in kW
            self.monthly_peak_hl[i] = max(month_extraction_loads)

            # Average
            # monthly average cooling load (or heat rejection) in kW
            self.monthly_avg_cl[i] = self.monthly_cl[i] / len(month_rejection_loads)
            # monthly average heating load (or heat extraction) in kW
            self.monthly_avg_hl[i] = self.monthly_hl[i] / len(month_extraction_loads)

            # Day of month the peak heating load occurs
            # day of the month on which peak clg load occurs (e.g. 1-31)
            self.monthly_peak_cl_day[i] = floor(month_rejection_loads.index(self.monthly_peak_cl[i]) / HRS_IN_DAY)
            # day of the month on which peak clg load occurs (e.g. 1-31)
            self.monthly_peak_hl_day[i] = floor(month_extraction_loads.index(self.monthly_peak_hl[i]) / HRS_IN_DAY)
            # print("Monthly Peak HL Hour",month_extraction_loads.index(
            # self.monthly_peak_hl[i]) / HRS_IN_DAY)
            # print("Monthly Peak HL Day: ",self.monthly_peak_hl_day[i])
            # print("")

            hours_in_previous_months += hours_in_month

    def process_two_day_loads(self) -> None:
        # The two day (48 hour) two day loads are selected by locating the day
        # the peak load of the month occurs on, and pulling a 48-hour load
        # profile -- the day before and the day of

        hours_in_year = len(self.hourly_rejection_loads)

        # Add the last day of the year to the beginning of the loads to account
        # for the possibility that a peak load occurs on the first day of the
        # year

        hourly_rejection_loads = self.hourly_rejection_loads[hours_in_year - HRS_IN_DAY :] + self.hourly_rejection_loads
        hourly_extraction_loads = (
            self.hourly_extraction_loads[hours_in_year - HRS_IN_DAY :] + self.hourly_extraction_loads
        )

        # Keep track of how many hours are in
        # start at 24 since we added the last day of the year to the beginning
        hours_in_previous_months = HRS_IN_DAY
        # loop over all 12 months
        for i in range(1, len(self.days_in_month)):
            hours_in_month = HRS_IN_DAY * self.days_in_month[i]

            # day of the month on which peak clg load occurs (e.g. 1-31)
            monthly_peak_cl_day = self.monthly_peak_cl_day[i]
            # day of the month on which peak clg load occurs (e.g. 1-31)
            monthly_peak_hl_day = self.monthly_peak_hl_day[i]
            # Get the starting hour of the day before the peak cooling load day
            monthly_peak_cl_hour_start = hours_in_previous_months + (monthly_peak_cl_day - 1) * HRS_IN_DAY
            # Get the starting hour of the day before the peak heating load day
            monthly_peak_hl_hour_start = hours_in_previous_months + (monthly_peak_hl_day - 1) * HRS_IN_DAY

            # monthly cooling loads (or heat rejection) in kWh
            two_day_hourly_peak_cl_load = hourly_rejection_loads[
                monthly_peak_cl_hour_start : monthly_peak_cl_hour_start + 2 * HRS_IN_DAY
            ]
            # monthly heating loads (or heat extraction) in kWh
            two_day_hourly_peak_hl_load = hourly_extraction_loads[
                monthly_peak_hl_hour_start : monthly_peak_hl_hour_start + 2 * HRS_IN_DAY
            ]

            # monthly cooling loads (or heat rejection) in kWh
            self.two_day_hourly_peak_cl_loads.append(two_day_hourly_peak_cl_load)
            # monthly heating loads (or heat extraction) in kWh
            self.two_day_hourly_peak_hl_loads.append(two_day_hourly_peak_hl_load)

            hours_in_previous_months += hours_in_month

    @staticmethod
    def simulate_hourly(hour_time, q, g_sts, resist_bh, two_pi_k, ts):
        # An hourly simulation for the fluid temperature
        # Chapter 2 of Advances in Ground Source Heat Pumps

        q_dt = np.hstack(q[1:] - q[:-1])

        delta_t_fluid = [0]
        for n in range(1, len(hour_time)):
            # Take the last i elements of the reversed time array
            _time = hour_time[n] - hour_time[0:n]
            # _time = time_values_reversed[n - i:n]
            g_values = g_sts(np.log((_time * SEC_IN_HR) / ts))
            # Tb = Tg + (q_dt * g)  (Equation 2.12)
            delta_tb_i = (q_dt[0:n] / two_pi_k).dot(g_values)
            # Delta mean heat pump entering fluid temperature
            tf_mean = delta_tb_i + q[n] * resist_bh
            delta_t_fluid.append(tf_mean)

        return delta_t_fluid

    def perform_current_month_simulation(
        self,
        two_day_hourly_peak_load,
        peak_load,
        avg_load,
        two_day_fluid_temps_pk,
        two_day_fluid_temps_nm,
    ):
        ts = self.radial_numerical.t_s
        two_pi_k = TWO_PI * self.bhe.soil.k
        resist_bh_effective = self.bhe.calc_effective_borehole_resistance()
        g_sts = self.radial_numerical.g_sts

        hour_time = np.array(range(2 * HRS_IN_DAY + 1))
        # Two day peak cooling load scaled down by average (q_max - q_avg)
        q_peak = np.array([0.0] + [peak_load - avg_load] * (2 * HRS_IN_DAY))
        # Two day nominal cooling load (q_i - q_avg) / q_max * q_i
        q_nominal = np.array(
            [0.0]
            + [
                (two_day_hourly_peak_load[i] - avg_load) / peak_load * two_day_hourly_peak_load[i]
                for i in range(1, len(q_peak))
            ]
        )
        # Get peak fluid temperatures using peak load
        delta_t_fluid_peak = self.simulate_hourly(hour_time, q_peak, g_sts, resist_bh_effective, two_pi_k, ts)
        two_day_fluid_temps_pk.append(delta_t_fluid_peak)
        # Get nominal fluid temperatures using nominal load
        delta_t_fluid_nom = self.simulate_hourly(hour_time, q_nominal, g_sts, resist_bh_effective, two_pi_k, ts)
        two_day_fluid_temps_nm.append(delta_t_fluid_nom)

        delta_t_fluid_nom_max = max(delta_t_fluid_nom)

        if delta_t_fluid_nom_max > 0.0:
            f = interp1d(delta_t_fluid_peak, hour_time, fill_value="extrapolate")
            peak_duration = f(delta_t_fluid_nom_max).tolist()
        else:
            peak_duration = 1.0e-6

        return peak_duration, q_peak, q_nominal

    def find_peak_durations(self) -> None:
        # Find the peak durations using hourly simulations for 2 days

        for i in range(1, len(self.days_in_month)):
            # Scale all the loads by the peak load
            # Perform an hourly simulation with the scaled loads
            # Perform an hourly simulation with a load of 1, or the peak loads
            # divided by the peak

            # two day cooling loads (or heat rejection) in kWh
            current_two_day_cl_load = [0.0] + self.two_day_hourly_peak_cl_loads[i]

            # This tolerance applies to the difference between the current
            # months peak load and the maximum of the two-day load. If the
            # absolute value of the difference between the current months
            # peak load and the current two-day peak load is within this
            # tolerance, then the maximum of the two-day load is equal to the
            # maximum of the current month. If the absolute difference is
            # greater than the tolerance, then the two-day peak load contains
            # a load greater than the current months peak load. The tolerance
            # could ONLY be exceeded when the first 24 hours is located in the
            # previous month.
            tol = 0.1

            # Ensure the peak load for the two-day load profile is the same or
            # greater than the monthly peak load. This check is done in case
            # the previous month contains a higher load than the current month.
            load_diff = self.monthly_peak_cl[i] - max(current_two_day_cl_load)
            # monthly peak cooling load (or heat rejection) in kW
            current_month_peak_cl = self.monthly_peak_cl[i] if abs(load_diff) < tol else max(current_two_day_cl_load)

            # monthly average cooling load (or heat rejection) in kW
            current_month_avg_cl = self.monthly_avg_cl[i]

            if current_month_peak_cl != 0.0:
                peak_duration, _, _ = self.perform_current_month_simulation(
                    current_two_day_cl_load,
                    current_month_peak_cl,
                    current_month_avg_cl,
                    self.two_day_fluid_temps_cl_pk,
                    self.two_day_fluid_temps_cl_nm,
                )
            else:
                peak_duration = 1.0e-6

            # Set the monthly cooling load duration
            self.monthly_peak_cl_duration[i] = peak_duration

            # two day heating loads (or heat extraction) in kWh
            current_two_day_hl_load = [0.0] + self.two_day_hourly_peak_hl_loads[i]

            # Ensure the peak load for the two-day load profile is the same or
            # greater than the monthly peak load. This check is done in case
            # the previous month contains a higher load than the current month.
            load_diff = self.monthly_peak_hl[i] - max(current_two_day_hl_load)
            # monthly peak cooling load (or heat rejection) in kW
            current_month_peak_hl = self.monthly_peak_hl[i] if abs(load_diff) < tol else max(current_two_day_hl_load)

            # monthly average heating load (or heat extraction) in kW
            current_month_avg_hl = self.monthly_avg_hl[i]

            if current_month_peak_hl != 0.0:
                peak_duration, _, _ = self.perform_current_month_simulation(
                    current_two_day_hl_load,
                    current_month_peak_hl,
                    current_month_avg_hl,
                    self.two_day_fluid_temps_hl_pk,
                    self.two_day_fluid_temps_hl_nm,
                )
            else:
                peak_duration = 1.0e-6

            # Set the monthly cooling load duration
            self.monthly_peak_hl_duration[i] = peak_duration

    def create_dataframe_of_peak_analysis(self) -> str:
        # The fields are: sum, peak, avg, peak day, peak duration
        hybrid_time_step_fields = {
            "Total": {},
            "Peak": {},
            "Average": {},
            "Peak Day": {},
            "Peak Duration": {},
        }

        d: dict = {}
        # For all the months, create dictionary of fields
        for i in range(1, 13):
            m_n = number_to_month(i)
            d[m_n] = hybrid_time_step_fields

            # set total
            d[m_n]["Total"]["rejection"] = self.monthly_cl[i]
            d[m_n]["Total"]["extraction"] = self.monthly_hl[i]
            # set peak
            d[m_n]["Peak"]["rejection"] = self.monthly_peak_cl[i]
            d[m_n]["Peak"]["extraction"] = self.monthly_peak_hl[i]
            # set average
            d[m_n]["Average"]["rejection"] = self.monthly_avg_cl[i]
            d[m_n]["Average"]["extraction"] = self.monthly_avg_hl[i]
            # set peak day
            d[m_n]["Peak Day"]["rejection"] = self.monthly_peak_cl_day[i]
            d[m_n]["Peak Day"]["extraction"] = self.monthly_peak_hl_day[i]
            # set peak duration
            d[m_n]["Peak Duration"]["rejection"] = self.monthly_peak_cl_duration[i]
            d[m_n]["Peak Duration"]["extraction"] = self.monthly_peak_hl_duration[i]

        return dumps(d, indent=2)

    def process_month_loads(self):
        # Converts monthly load format to sequence of loads needed for
        # simulation
        # This routine is taking loads applied to the ground NOT to a heat pump.

        warn_msg_neg_timestep = (
            "A negative time step has been generated in the hybrid loading scheme. \n"
            "This will reduce the accuracy of the simulation."
        )

        # First, begin array with zero load before simulation starts.
        self.load = np.append(self.load, 0)
        last_zero_hour = first_month_hour(self.start_month, self.years) - 1
        self.hour = np.append(self.hour, last_zero_hour)
        if len(self.years) <= 1:
            # Second, replicate months. [if we want to add an option where all
            # monthly loads are explicitly given, this code will be in an if block]
            for i in range(self.start_month, self.end_month + 1):
                num_months_in_year = 12
                if i > num_months_in_year:
                    mi = i % num_months_in_year
                    if mi == 0:
                        mi = num_months_in_year
                    self.monthly_cl.append(self.monthly_cl[mi])
                    self.monthly_hl.append(self.monthly_hl[mi])
                    self.monthly_peak_cl.append(self.monthly_peak_cl[mi])
                    self.monthly_peak_hl.append(self.monthly_peak_hl[mi])
                    self.monthly_peak_cl_duration.append(self.monthly_peak_cl_duration[mi])
                    self.monthly_peak_hl_duration.append(self.monthly_peak_hl_duration[mi])
                    self.monthly_peak_cl_day.append(self.monthly_peak_cl_day[mi])
                    self.monthly_peak_hl_day.append(self.monthly_peak_hl_day[mi])
        # Set the ipf (include peak flag)
        if len(self.years) <= 1:
            ipf = [False] * (self.end_month + 1)
            for i in range(self.start_month, self.end_month + 1):
                # set flag that determines if peak load will be included
                if i < self.start_month + self.peak_retain_start:
                    ipf[i] = True
                if i > self.end_month - self.peak_retain_end:
                    ipf[i] = True
        else:
            ipf = [True] * (self.end_month + 1)
        peak_last_avg_hour = 0.0
        for i in range(self.start_month, (self.end_month + 1)):
            # There may be a more sophisticated way to do this, but I will loop
            # through the lists month duration is the number of hours over which to
            # calculate the average value for the month
            if ipf[i]:
                current_year = self.years[0] if len(self.years) <= 1 else self.years[(i - 1) // 12]
                # only the pulses that are emitted below (non-zero monthly peak) shorten the period
                # over which the remaining load is averaged
                month_duration = (
                    monthdays(i, current_year) * HRS_IN_DAY
                    - (self.monthly_peak_cl_duration[i] if self.monthly_peak_cl[i] > 0 else 0.0)
                    - (self.monthly_peak_hl_duration[i] if self.monthly_peak_hl[i] > 0 else 0.0)
                )
                # gives htg load pk energy in kWh
                month_peak_hl = self.monthly_peak_hl[i] * self.monthly_peak_hl_duration[i]
                # gives htg load pk energy in kWh
                month_peak_cl = self.monthly_peak_cl[i] * self.monthly_peak_cl_duration[i]
                month_load = self.monthly_cl[i] - self.monthly_hl[i] - month_peak_cl + month_peak_hl
                month_rate = month_load / month_duration
                peak_day_diff = self.monthly_peak_cl_day[i] - self.monthly_peak_hl_day[i]
                # Place the peaks roughly midway through the day they occur on.
                # (In JDS's opinion, this should be amply accurate for the
                # hybrid time step.)
                # Catch the first and last peak hours to make sure they aren't 0
                # Could only be 0 when the first month has no load.
                first_hour_heating_peak = (
                    first_month_hour(i, self.years)
                    + (self.monthly_peak_hl_day[i]) * HRS_IN_DAY
                    + 12
                    - (self.monthly_peak_hl_duration[i] / 2)
                )
                if first_hour_heating_peak < 0.0:
                    first_hour_heating_peak = 1.0e-6
                last_hour_heating_peak = first_hour_heating_peak + self.monthly_peak_hl_duration[i]
                if last_hour_heating_peak < 0.0:
                    last_hour_heating_peak = 1.0e-6
                first_hour_cooling_peak = (
                    first_month_hour(i, self.years)
                    + (self.monthly_peak_cl_day[i]) * HRS_IN_DAY
                    + 12
                    - self.monthly_peak_cl_duration[i] / 2
                )
                if first_hour_cooling_peak < 0.0:
                    first_hour_cooling_peak = 1.0e-06
                last_hour_cooling_peak = first_hour_cooling_peak + self.monthly_peak_cl_duration[i]
                if last_hour_cooling_peak < 0.0:
                    last_hour_cooling_peak = 1.0e-06
            else:  # peak load not used this month
                month_duration = monthdays(i, current_year) * HRS_IN_DAY

                month_load = self.monthly_cl[i] - self.monthly_hl[i]
                month_rate = month_load / month_duration
                peak_day_diff = 0

            last_avg_hour = 0.0
            if peak_day_diff < 0:
                # monthly peak heating day occurs after peak cooling day
                # monthly average conditions before cooling peak
                if self.monthly_peak_cl[i] > 0 and ipf[i]:
                    # last_avg_hour = first_hour_cooling_peak - 1 JDS corrected 20200604
                    last_avg_hour = first_hour_cooling_peak
                    self.load = np.append(self.load, month_rate)
                    self.hour = np.append(self.hour, last_avg_hour)
                    # cooling peak
                    # self.load = np.append(self.load, -self.monthly_peak_cl[i]) JDS corrected 20200604
                    self.load = np.append(self.load, self.monthly_peak_cl[i])
                    self.hour = np.append(self.hour, last_hour_cooling_peak)

                    if last_avg_hour - peak_last_avg_hour < 0.0:
                        warnings.warn(warn_msg_neg_timestep)
                    peak_last_avg_hour = last_avg_hour
                # monthly average conditions between cooling peak and heating peak
                if self.monthly_peak_hl[i] > 0 and ipf[i]:
                    # last_avg_hour = first_hour_heating_peak - 1 JDS corrected 20200604
                    last_avg_hour = first_hour_heating_peak
                    self.load = np.append(self.load, month_rate)
                    self.hour = np.append(self.hour, last_avg_hour)
                    # heating peak
                    # self.load = np.append(self.load, self.monthly_peak_hl[i]) JDS corrected 20200604
                    self.load = np.append(self.load, -self.monthly_peak_hl[i])
                    self.hour = np.append(self.hour, last_hour_heating_peak)

                    if last_avg_hour - peak_last_avg_hour < 0.0:
                        warnings.warn(warn_msg_neg_timestep)
                    peak_last_avg_hour = last_avg_hour
                # rest of month
                last_avg_hour = last_month_hour(i, self.years)
                self.load = np.append(self.load, month_rate)
                self.hour = np.append(self.hour, last_avg_hour)

                if last_avg_hour - peak_last_avg_hour < 0.0:
                    warnings.warn(warn_msg_neg_timestep)
                peak_last_avg_hour = last_avg_hour

            elif peak_day_diff > 0:
                # monthly peak heating day occurs before peak cooling day
                # monthly average conditions before cooling peak
                if self.monthly_peak_hl[i] > 0 and ipf[i]:
                    last_avg_hour = first_hour_heating_peak
                    self.load = np.append(self.load, month_rate)
                    self.hour = np.append(self.hour, last_avg_hour)
                    # heating peak
                    self.load = np.append(self.load, -self.monthly_peak_hl[i])
                    self.hour = np.append(self.hour, last_hour_heating_peak)

                    if last_avg_hour - peak_last_avg_hour < 0.0:
                        warnings.warn(warn_msg_neg_timestep)
                    peak_last_avg_hour = last_avg_hour
                # monthly average conditions between heating peak and cooling peak
                if self.monthly_peak_cl[i] > 0 and ipf[i]:
                    last_avg_hour = first_hour_cooling_peak
                    self.load = np.append(self.load, month_rate)
                    self.hour = np.append(self.hour, last_avg_hour)
                    # cooling peak
                    self.load = np.append(self.load, self.monthly_peak_cl[i])
                    self.hour = np.append(self.hour, last_hour_cooling_peak)

                    if last_avg_hour - peak_last_avg_hour < 0.0:
                        warnings.warn(warn_msg_neg_timestep)
                    peak_last_avg_hour = last_avg_hour
                # rest of month
                last_avg_hour = last_month_hour(i, self.years)
                self.load = np.append(self.load, month_rate)
                self.hour = np.append(self.hour, last_avg_hour)

                if last_avg_hour - peak_last_avg_hour < 0.0:
                    warnings.warn(warn_msg_neg_timestep)
                peak_last_avg_hour = last_avg_hour
            else:
                # monthly peak heating day and cooling day are the same
                # Cooling Load placed before noon, and the heating load is placed after noon
                # Currently the exact times of the heating and cooling peaks are not stored. If further work is done
                # this default can be made to be more accurate.
                if ipf[i]:
                    # monthly average conditions before cooling peak
                    if self.monthly_peak_cl[i] > 0 and ipf[i]:
                        # last_avg_hour = first_hour_cooling_peak - 1 JDS corrected 20200604
                        last_avg_hour = first_hour_cooling_peak - self.monthly_peak_cl_duration[i] / 2
                        self.load = np.append(self.load, month_rate)
                        self.hour = np.append(self.hour, last_avg_hour)
                        # cooling peak
                        # self.load = np.append(self.load, -self.monthly_peak_cl[i]) JDS corrected 20200604
                        self.load = np.append(self.load, self.monthly_peak_cl[i])
                        self.hour = np.append(
                            self.hour,
                            last_hour_cooling_peak - self.monthly_peak_cl_duration[i] / 2,
                        )

                        if last_avg_hour - peak_last_avg_hour < 0.0:
                            warnings.warn(warn_msg_neg_timestep)
                        peak_last_avg_hour = last_avg_hour
                    # monthly average conditions between cooling peak and heating peak
                    if self.monthly_peak_hl[i] > 0 and ipf[i]:
                        if not self.monthly_peak_cl[i] > 0:
                            # no cooling peak ends at noon: monthly average conditions before heating peak
                            last_avg_hour = first_hour_heating_peak + self.monthly_peak_hl_duration[i] / 2
                            self.load = np.append(self.load, month_rate)
                            self.hour = np.append(self.hour, last_avg_hour)
                        # heating peak
                        # self.load = np.append(self.load, self.monthly_peak_hl[i]) JDS corrected 20200604

                        self.load = np.append(self.load, -self.monthly_peak_hl[i])
                        self.hour = np.append(
                            self.hour,
                            last_hour_heating_peak + self.monthly_peak_hl_duration[i] / 2,
                        )

                        if last_avg_hour - peak_last_avg_hour < 0.0:
                            warnings.warn(warn_msg_neg_timestep)
                        peak_last_avg_hour = last_avg_hour
                    # rest of month
                    last_avg_hour = last_month_hour(i, self.years)
                    self.load = np.append(self.load, month_rate)
                    self.hour = np.append(self.hour, last_avg_hour)

                    if last_avg_hour - peak_last_avg_hour < 0.0:
                        warnings.warn(warn_msg_neg_timestep)
                    peak_last_avg_hour = last_avg_hour

                else:
                    last_avg_hour = last_month_hour(i, self.years)
                    self.load = np.append(self.load, month_rate)
                    self.hour = np.append(self.hour, last_avg_hour)

                if last_avg_hour - peak_last_avg_hour < 0.0:
                    warnings.warn(warn_msg_neg_timestep)
                peak_last_avg_hour = last_avg_hour

        #       Now fill array containing step function loads
        #       Note they are paired with the ending hour, so the ith load will start with the (i-1)th time

        n = self.hour.size
        # Note at this point the load and hour np arrays contain zeroes in indices zero and one, then continue from
        # there.
        for i in range(1, n):
            step_load = self.load[i] - self.load[i - 1]
            self.step_func_load = np.append(self.step_func_load, step_load)


def number_to_month(x):
    return [
        "NULL",
        "January",
        "February",
        "March",
        "April",
        "May",
        "June",
        "July",
        "August",
        "September",
        "October",
        "November",
        "December",
    ][x]


def monthdays(month, year):
    leap_year = year % 4 == 0
    months_in_year = 12
    md = month % months_in_year if month > months_in_year else month
    if leap_year:
        num_days = [31, 31, 29, 31, 30, 31, 30, 31, 31, 30, 31, 30, 31]
    else:
        num_days = [31, 31, 28, 31, 30, 31, 30, 31, 31, 30, 31, 30, 31]
    return num_days[md]


def first_month_hour(month, years):
    fmh = 1
    if month > 1:
        for i in range(1, month):
            current_year = years[(i - 1) // 12] if len(years) > 1 else years[0]
            mi = i % 12
            fmh = fmh + HRS_IN_DAY * monthdays(mi, current_year)
    return fmh


def last_month_hour(month, years):
    lmh = 0
    for i in range(1, month + 1):
        current_year = years[(i - 1) // 12] if len(years) > 1 else years[0]
        lmh = lmh + monthdays(i, current_year) * HRS_IN_DAY
    if month == 1:
        lmh = 31 * HRS_IN_DAY
    return lmh
