from enum import IntEnum, auto
from math import exp, log, pi, sqrt

import numpy as np
from scipy.interpolate import interp1d
from scipy.linalg.lapack import dgtsv

from ghedesigner.borehole_heat_exchangers import SingleUTube
from ghedesigner.constants import SEC_IN_HR, TWO_PI


class CellProps(IntEnum):
    R_IN = 0
    R_CENTER = auto()
    R_OUT = auto()
    K = auto()
    RHO_CP = auto()
    TEMP = auto()
    VOL = auto()


class RadialNumericalBH:
    """
    X. Xu and Jeffrey D. Spitler. 2006. 'Modeling of Vertical Ground Loop Heat
    Exchangers with Variable Convective Resistance and Thermal Mass of the
    Fluid.' in Proceedings of the 10th International Conference on Thermal
    Energy Storage-EcoStock. Pomona, NJ, May 31-June 2.
    """

    def __init__(self, single_u_tube: SingleUTube):
        self.single_u_tube = single_u_tube

        # "The one dimensional model has a fluid core, an equivalent convective
        # resistance layer, a tube layer, a grout layer and is surrounded by the
        # ground."

        # cell numbers
        self.num_fluid_cells = 3
        self.num_conv_cells = 1
        self.num_pipe_cells = 4
        self.num_grout_cells = 27
        self.num_soil_cells = 500

        self.num_cells = sum(
            (self.num_fluid_cells, self.num_conv_cells, self.num_pipe_cells, self.num_grout_cells, self.num_soil_cells)
        )
        self.bh_wall_idx = sum((self.num_fluid_cells, self.num_conv_cells, self.num_pipe_cells, self.num_grout_cells))

        # Geometry and grid procedure

        # far-field radius is set to 10m
        self.r_far_field = 10

        # borehole radius is set to the actual radius of the borehole
        self.r_borehole = single_u_tube.b.r_b

        # outer tube radius is set to sqrt(2) * r_p_o, tube region has 4 cells
        self.r_out_tube = sqrt(2) * single_u_tube.pipe.r_out

        # inner tube radius is set to r_out_tube - t_p
        self.t_pipe_wall_actual = single_u_tube.pipe.r_out - single_u_tube.pipe.r_in
        self.r_in_tube = self.r_out_tube - self.t_pipe_wall_actual

        # r_convection is set to r_in_tube - 1/4 * t_p
        self.r_convection = self.r_in_tube - self.t_pipe_wall_actual / 4.0

        # r_fluid is set to r_in_convection - 3/4 * t_p
        self.r_fluid = self.r_convection - (3.0 / 4.0 * self.t_pipe_wall_actual)

        # Thicknesses of the grid regions
        self.thickness_soil_cell = (self.r_far_field - self.r_borehole) / self.num_soil_cells
        self.thickness_grout_cell = (self.r_borehole - self.r_out_tube) / self.num_grout_cells
        self.thickness_pipe_cell = (self.r_out_tube - self.r_in_tube) / self.num_pipe_cells
        self.thickness_conv_cell = (self.r_in_tube - self.r_convection) / self.num_conv_cells
        self.thickness_fluid_cell = (self.r_convection - self.r_fluid) / self.num_fluid_cells

        # other
        self.init_temp = 20

        # other
        self.g = np.array([], dtype=np.double)
        self.g_bhw = np.array([], dtype=np.double)
        self.lntts = np.array([], dtype=np.double)
        self.c_0 = TWO_PI * single_u_tube.soil.k
        soil_diffusivity = single_u_tube.k_s / single_u_tube.soil.rhoCp
        self.t_s = single_u_tube.b.H**2 / (9 * soil_diffusivity)
        # default is at least 49 hours, or up to -8.6 log time
        self.calc_time_in_sec = max([self.t_s * exp(-8.6), 49.0 * SEC_IN_HR])
        self.g_sts = None

    def partial_init(self, single_u_tube: SingleUTube):
        # TODO: unravel how to eliminate this.
        # - It was calling the full class ctor "self.__init__()" which is just plain wrong...
        # - Now we're calling a stripped down version with only the most essential
        #   variables which are required.
        # - This is here partially because equivalent boreholes are generated.
        self.single_u_tube = single_u_tube
        # the grid geometry and c_0 belong to the exchanger handed in, not to the one the object was
        # created with (same formulas as in __init__)
        self.r_borehole = single_u_tube.b.r_b
        self.r_out_tube = sqrt(2) * single_u_tube.pipe.r_out
        self.t_pipe_wall_actual = single_u_tube.pipe.r_out - single_u_tube.pipe.r_in
        self.r_in_tube = self.r_out_tube - self.t_pipe_wall_actual
        self.r_convection = self.r_in_tube - self.t_pipe_wall_actual / 4.0
        self.r_fluid = self.r_convection - (3.0 / 4.0 * self.t_pipe_wall_actual)
        self.thickness_soil_cell = (self.r_far_field - self.r_borehole) / self.num_soil_cells
        self.thickness_grout_cell = (self.r_borehole - self.r_out_tube) / self.num_grout_cells
        self.thickness_pipe_cell = (self.r_out_tube - self.r_in_tube) / self.num_pipe_cells
        self.thickness_conv_cell = (self.r_in_tube - self.r_convection) / self.num_conv_cells
        self.thickness_fluid_cell = (self.r_convection - self.r_fluid) / self.num_fluid_cells
        self.c_0 = TWO_PI * single_u_tube.soil.k
        soil_diffusivity = single_u_tube.k_s / single_u_tube.soil.rhoCp
        self.t_s = single_u_tube.b.H**2 / (9 * soil_diffusivity)
        self.calc_time_in_sec = max([self.t_s * exp(-8.6), 49.0 * SEC_IN_HR])

    def fill_radial_cells(self, resist_f_effective, resist_pg_effective):
        radial_cells = np.zeros(shape=(len(CellProps), self.num_cells), dtype=np.double)

        cell_summation = 0

        def fill_single_cell(inner_radius, thickness, conductivity, rho_cp):
            center_radius = inner_radius + thickness / 2.0
            outer_radius = inner_radius + thickness
            volume = pi * (outer_radius**2 - inner_radius**2)
            return np.array(
                [inner_radius, center_radius, outer_radius, conductivity, rho_cp, self.init_temp, volume],
                dtype=np.double,
            )

        # load fluid cells
        # The equivalent thermal mass of the fluid can be calculated from
        # equation (2)
        # pi (r_in_conv ** 2 - r_f **2) C_eq_f = 2pi r_p_in**2 * C_f
        rho_cp_eq_fluid = 2.0 * (self.single_u_tube.pipe.r_in**2) * self.single_u_tube.fluid.rhoCp
        rho_cp_eq_fluid /= (self.r_convection**2) - (self.r_fluid**2)
        conductivity_fluid = 200
        for idx in range(cell_summation, self.num_fluid_cells + cell_summation):
            inner_radius_fluid_cell = self.r_fluid + idx * self.thickness_fluid_cell
            radial_cells[:, idx] = fill_single_cell(
                inner_radius_fluid_cell, self.thickness_fluid_cell, conductivity_fluid, rho_cp_eq_fluid
            )

        cell_summation += self.num_fluid_cells

        # load convection cells
        conductivity_conv = log(self.r_in_tube / self.r_convection) / (TWO_PI * resist_f_effective)
        rho_cp_conv = 1.0
        for j, idx in enumerate(range(cell_summation, self.num_conv_cells + cell_summation)):
            inner_radius_conv_cell = self.r_convection + j * self.thickness_conv_cell
            radial_cells[:, idx] = fill_single_cell(
                inner_radius_conv_cell, self.thickness_conv_cell, conductivity_conv, rho_cp_conv
            )

        cell_summation += self.num_conv_cells

        # load pipe cells
        conductivity_pipe_grout = log(self.r_borehole / self.r_in_tube) / (TWO_PI * resist_pg_effective)
        rho_cp_pipe = self.single_u_tube.pipe.rhoCp
        for j, idx in enumerate(range(cell_summation, self.num_pipe_cells + cell_summation)):
            inner_radius_pipe_cell = self.r_in_tube + j * self.thickness_pipe_cell
            radial_cells[:, idx] = fill_single_cell(
                inner_radius_pipe_cell, self.thickness_pipe_cell, conductivity_pipe_grout, rho_cp_pipe
            )

        cell_summation += self.num_pipe_cells

        # load grout cells
        rho_cp_grout = self.single_u_tube.grout.rhoCp
        for j, idx in enumerate(range(cell_summation, self.num_grout_cells + cell_summation)):
            inner_radius_grout_cell = self.r_out_tube + j * self.thickness_grout_cell
            radial_cells[:, idx] = fill_single_cell(
                inner_radius_grout_cell, self.thickness_grout_cell, conductivity_pipe_grout, rho_cp_grout
            )

        cell_summation += self.num_grout_cells

        # load soil cells
        conductivity_soil = self.single_u_tube.soil.k
        rho_cp_soil = self.single_u_tube.soil.rhoCp
        for j, idx in enumerate(range(cell_summation, self.num_soil_cells + cell_summation)):
            inner_radius_soil_cell = self.r_borehole + j * self.thickness_soil_cell
            radial_cells[:, idx] = fill_single_cell(
                inner_radius_soil_cell, self.thickness_soil_cell, conductivity_soil, rho_cp_soil
            )

        cell_summation += self.num_soil_cells

        return radial_cells

    def calc_sts_g_functions(self, single_u_tube, final_time=None) -> tuple:
        self.partial_init(single_u_tube)

        # effective borehole resistance
        resist_bh_effective = self.single_u_tube.calc_effective_borehole_resistance()

        # effective convection resistance, assumes 2 pipes
        resist_f_effective = self.single_u_tube.R_f / 2.0

        # effective combined pipe-grout resistance. assumes Rees 2016, eq. 3.6 applies
        resist_pg_effective = resist_bh_effective - resist_f_effective

        radial_cells = self.fill_radial_cells(resist_f_effective, resist_pg_effective)

        if final_time is None:
            final_time = self.calc_time_in_sec

        g = []
        g_bhw = []
        lntts = []

        _dl = np.zeros(self.num_cells - 1)
        _d = np.zeros(self.num_cells)
        _du = np.zeros(self.num_cells - 1)
        _b = np.zeros(self.num_cells)

        heat_flux = 1.0
        init_temp = self.init_temp

        time = 1e-12 - 120
        time_step = 120

        _fe_1 = np.zeros(shape=(self.num_cells - 2), dtype=np.double)
        _fe_2 = np.zeros_like(_fe_1)
        _ae = np.zeros_like(_fe_2)
        _fw_1 = np.zeros_like(_ae)
        _fw_2 = np.zeros_like(_fw_1)
        _aw = np.zeros_like(_fw_2)
        _ad = np.zeros_like(_aw)

        _west_cell = radial_cells[:, 0 : self.num_cells - 2]
        _center_cell = radial_cells[:, 1 : self.num_cells - 1]
        _east_cell = radial_cells[:, 2 : self.num_cells - 0]

        fe_1 = log(radial_cells[CellProps.R_OUT, 0] / radial_cells[CellProps.R_CENTER, 0])
        fe_1 /= TWO_PI * radial_cells[CellProps.K, 0]

        fe_2 = log(radial_cells[CellProps.R_CENTER, 1] / radial_cells[CellProps.R_IN, 1])
        fe_2 /= TWO_PI * radial_cells[CellProps.K, 1]

        ae = 1 / (fe_1 + fe_2)
        ad = radial_cells[CellProps.RHO_CP, 0] * radial_cells[CellProps.VOL, 0] / time_step
        _d[0] = -ae / ad - 1
        _du[0] = ae / ad

        def fill_f1(fx_1, cell):
            fx_1[:] = np.log(cell[CellProps.R_OUT, :] / cell[CellProps.R_CENTER, :]) / (TWO_PI * cell[CellProps.K, :])

        def fill_f2(fx_2, cell):
            fx_2[:] = np.log(cell[CellProps.R_CENTER, :] / cell[CellProps.R_IN, :]) / (TWO_PI * cell[CellProps.K, :])

        fill_f1(_fe_1, _center_cell)
        fill_f2(_fe_2, _east_cell)
        _ae[:] = 1.0 / (_fe_1 + _fe_2)

        fill_f1(_fw_1, _west_cell)
        fill_f2(_fw_2, _center_cell)
        _aw[:] = -1.0 / (_fw_1 + _fw_2)

        _ad[:] = _center_cell[CellProps.RHO_CP, :] * _center_cell[CellProps.VOL, :] / time_step
        _dl[0 : self.num_cells - 2] = -_aw / _ad
        _d[1 : self.num_cells - 1] = _aw / _ad - _ae / _ad - 1.0
        _du[1 : self.num_cells - 1] = _ae / _ad

        while True:
            time += time_step

            # For the idx == 0 case:

            _b[0] = -radial_cells[CellProps.TEMP, 0] - heat_flux / ad

            # For the idx == n-1 case

            _dl[self.num_cells - 2] = 0.0
            _d[self.num_cells - 1] = 1.0
            _b[self.num_cells - 1] = radial_cells[CellProps.TEMP, self.num_cells - 1]

            # Now handle the 1 to n-2 cases with numpy slicing and vectorization
            _b[1 : self.num_cells - 1] = -radial_cells[CellProps.TEMP, 1 : self.num_cells - 1]

            # Tri-diagonal matrix solver
            # High level interface to LAPACK routine
            # https://docs.scipy.org/doc/scipy/reference/generated/scipy.linalg.lapack.dgtsv.html#scipy.linalg.lapack.dgtsv
            dgtsv(_dl, _d, _du, _b, overwrite_b=1)  # TODO: Do we really need lapack just to do a TDMA solution?

            radial_cells[CellProps.TEMP, :] = _b

            # compute standard g-functions
            g.append(self.c_0 * ((radial_cells[CellProps.TEMP, 0] - init_temp) / heat_flux - resist_bh_effective))

            # compute g-functions at bh wall
            bh_wall_temp = radial_cells[CellProps.TEMP, self.bh_wall_idx]
            g_bhw.append(self.c_0 * ((bh_wall_temp - init_temp) / heat_flux))

            lntts.append(log(time / self.t_s))

            if time >= final_time - time_step:
                break

        # quickly chop down the total values to a more manageable set
        num_intervals = 30
        g_tmp = interp1d(lntts, g)
        uniform_lntts_vals = np.linspace(lntts[0], lntts[-1], num_intervals)
        uniform_g_vals = g_tmp(uniform_lntts_vals)

        g_bhw_tmp = interp1d(lntts, g_bhw)
        uniform_g_bhw_vals = g_bhw_tmp(uniform_lntts_vals)

        # set the final arrays and interpolator objects
        self.lntts = np.array(uniform_lntts_vals)
        self.g = np.array(uniform_g_vals)
        self.g_bhw = np.array(uniform_g_bhw_vals)
        self.g_sts = interp1d(self.lntts, self.g)

        return self.lntts, self.g
