import sys
from json import loads
from pathlib import Path

from jsonschema import ValidationError, validate

from ghedesigner.enums import BHPipeType, DesignGeomType

# Note: JSON schema does not currently have a good way to handle case-insensitive enums.
#       Some fields are upper-cased manually here for validation purposes.
#       More details here: https://github.com/json-schema-org/community/discussions/148


def validate_schema_instance(schema_file_name: str, instance: dict, error_msg: str) -> int:
    """
    Base-level worker function to validate schema instances
    """
    try:
        schema_dir = Path(__file__).parent / "schemas"
        schema_path = schema_dir / schema_file_name
        schema = loads(schema_path.read_text())
        validate(instance=instance, schema=schema)
        return 0
    except ValidationError:
        print(error_msg, file=sys.stderr)
        return 1


def validate_file_structure(instance: dict) -> int:
    return validate_schema_instance(
        schema_file_name="file_structure.schema.json",
        instance=instance,
        error_msg="Errors in input file structure. See demo files for examples.",
    )


def validate_fluid(instance: dict) -> int:
    fluid_name = str(instance["fluid_name"]).upper()
    instance["fluid_name"] = fluid_name
    return validate_schema_instance(
        schema_file_name="fluid.schema.json", instance=instance, error_msg="Errors in \"fluid\" input object."
    )


def validate_grout(instance: dict) -> int:
    return validate_schema_instance(
        schema_file_name="grout.schema.json", instance=instance, error_msg="Errors in \"grout\" input object."
    )


def validate_soil(instance: dict) -> int:
    return validate_schema_instance(
        schema_file_name="soil.schema.json", instance=instance, error_msg="Errors in \"soil\" input object."
    )


def validate_pipe(instance: dict) -> int:
    pipe_arrangement = str(instance["arrangement"]).upper()
    instance["arrangement"] = pipe_arrangement

    schema_map = {
        BHPipeType.SINGLEUTUBE.name: "pipe_single_double_u_tube.schema.json",
        BHPipeType.DOUBLEUTUBESERIES.name: "pipe_single_double_u_tube.schema.json",
        BHPipeType.DOUBLEUTUBEPARALLEL.name: "pipe_single_double_u_tube.schema.json",
        BHPipeType.COAXIAL.name: "pipe_coaxial.schema.json",
    }

    if pipe_arrangement not in schema_map:
        print("Pipe arrangement not found.", file=sys.stderr)
        return 1

    return validate_schema_instance(
        schema_file_name=schema_map[pipe_arrangement], instance=instance, error_msg="Errors in \"pipe\" input object."
    )


def validate_borehole(instance: dict) -> int:
    return validate_schema_instance(
        schema_file_name="borehole.schema.json", instance=instance, error_msg="Errors in \"borehole\" input object."
    )


def validate_simulation(instance: dict) -> int:
    if "timestep" in instance:
        timestep = str(instance["timestep"]).upper()
        instance["timestep"] = timestep

    return validate_schema_instance(
        schema_file_name="simulation.schema.json", instance=instance, error_msg="Errors in \"simulation\" input object."
    )


def validate_geometric(instance: dict) -> int:
    method = str(instance["method"]).upper()
    instance["method"] = method

    schema_map = {
        DesignGeomType.BIRECTANGLE.name: "geometric_bi_rectangle.schema.json",
        DesignGeomType.BIRECTANGLECONSTRAINED.name: "geometric_bi_rectangle_constrained.schema.json",
        DesignGeomType.BIZONEDRECTANGLE.name: "geometric_bi_zoned_rectangle.schema.json",
        DesignGeomType.NEARSQUARE.name: "geometric_near_square.schema.json",
        DesignGeomType.RECTANGLE.name: "geometric_rectangle.schema.json",
        DesignGeomType.ROWWISE.name: "geometric_rowwise.schema.json",
    }

    if method not in schema_map:
        print("Geometric constraint method not recognized.", file=sys.stderr)
        return 1

    return validate_schema_instance(
        schema_file_name=schema_map[method],
        instance=instance,
        error_msg="Errors in \"geometric_constraints\" input object.",
    )


def validate_design(instance: dict) -> int:
    flow_type = str(instance["flow_type"]).upper()
    instance["flow_type"] = flow_type
    return validate_schema_instance(
        schema_file_name="design.schema.json", instance=instance, error_msg="Errors in \"design\" input object."
    )


def validate_loads(instance: dict) -> int:
    return validate_schema_instance(
        schema_file_name="loads.schema.json", instance=instance, error_msg="Errors in \"loads\" input object."
    )


def validate_input_file(input_file_path: Path) -> int:
    """
    Validate input file against all schemas
    """

    # get instance data
    instance = loads(input_file_path.read_text())

    # validate
    err_count = 0
    err_count += validate_file_structure(instance)
    err_count += validate_fluid(instance["fluid"])
    err_count += validate_grout(instance["grout"])
    err_count += validate_soil(instance["soil"])
    err_count += validate_pipe(instance["pipe"])
    err_count += validate_borehole(instance["borehole"])
    err_count += validate_simulation(instance["simulation"])
    err_count += validate_geometric(instance["geometric_constraints"])
    err_count += validate_design(instance["design"])
    err_count += validate_loads(instance["loads"])
    return err_count


if __name__ == "__main__":
    instance_path = Path(sys.argv[1]).resolve()
    sys.exit(validate_input_file(instance_path))
