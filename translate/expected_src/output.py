import csv
import os
import re
import warnings
from datetime import datetime
from json import dumps
from math import floor
from pathlib import Path

from ghedesigner.borehole_heat_exchangers import CoaxialPipe, GHEDesignerBoreholeBase
from ghedesigner.constants import HRS_IN_DAY
from ghedesigner.design import AnyBisectionType
from ghedesigner.enums import TimestepType


class OutputManager:
    def __init__(
        self,
        design: AnyBisectionType,
        time: float,
        project_name: str,
        notes: str,
        author: str,
        model_name: str,
        load_method: TimestepType,
        allocated_width=100,
    ):
        # this constructor should take all the args to build out a full output manager
        # then the client code can decide what to do -- just access data through functions?
        # write all the data to files in a directory?
        # make individual hidden worker functions to build out each part
        # but then add individual public functions to write specific files
        # have one routine to write all of them
        self.text_summary = self.get_summary_text(
            allocated_width, project_name, model_name, notes, author, time, design, load_method
        )
        self.loading_data_rows = self.get_loading_data(design)
        self.borehole_location_data_rows = self.get_borehole_location_data(design)
        self.hourly_loading_data_rows = self.get_hourly_loading_data(design)
        self.g_function_data_rows = self.get_g_function_data(design)
        self.output_dict = self.get_summary_object(design, time, project_name, notes, author, model_name, load_method)

    def write_all_output_files(self, output_directory: Path, file_suffix: str = ""):
        output_directory.mkdir(exist_ok=True, parents=True)
        (output_directory / f"SimulationSummary{file_suffix}.txt").write_text(self.text_summary)
        with open(
            os.path.join(output_directory, f"TimeDependentValues{file_suffix}.csv"), "w", newline=""
        ) as csv1_output_file:
            csv.writer(csv1_output_file).writerows(self.loading_data_rows)
        with open(os.path.join(output_directory, f"BoreFieldData{file_suffix}.csv"), "w", newline="") as f_csv:
            csv.writer(f_csv).writerows(self.borehole_location_data_rows)
        with open(os.path.join(output_directory, f"Loadings{file_suffix}.csv"), "w", newline="") as f_csv:
            csv.writer(f_csv).writerows(self.hourly_loading_data_rows)
        with open(os.path.join(output_directory, f"Gfunction{file_suffix}.csv"), "w", newline="") as f_csv:
            csv.writer(f_csv).writerows(self.g_function_data_rows)
        with open(str(output_directory / f"SimulationSummary{file_suffix}.json"), "w", newline="") as f_json:
            f_json.write(dumps(self.output_dict, indent=2))

    def get_loading_data(self, design):
        csv_array = [
            [
                "Time (hr)",
                "Time (month)",
                "Q (Rejection) (w) (before time)",
                "Q (Rejection) (W/m) (before time)",
                "Tb (C)",
                "GHE ExFT (C)",
            ]
        ]
        loading_values = design.ghe.loading
        for i, (tv, d_tb, lv) in enumerate(zip(design.ghe.times, design.ghe.dTb, loading_values)):
            if i + 1 < len(design.ghe.times):
                current_time = tv
                loading = loading_values[i + 1]
                current_month = self.hours_to_month(tv)
                normalized_loading = loading / (design.ghe.bhe.b.H * design.ghe.nbh)
                wall_temperature = design.ghe.bhe.soil.ugt + d_tb
                hp_eft_val = design.ghe.hp_eft[i]
                csv_row = [tv, self.hours_to_month(tv)]
                if i > 1:
                    csv_row.append(lv)
                    csv_row.append(lv / (design.ghe.bhe.b.H * design.ghe.nbh))
                else:
                    csv_row.append(0)
                    csv_row.append(0)
                csv_row.append(design.ghe.bhe.soil.ugt + design.ghe.dTb[i - 1])
                csv_row.append(design.ghe.hp_eft[i - 1])
                csv_array.append(csv_row)
            else:
                csv_row = [tv, self.hours_to_month(tv)]
                if i > 1:
                    csv_row.append(lv)
                    csv_row.append(lv / (design.ghe.bhe.b.H * design.ghe.nbh))
                else:
                    csv_row.append(0)
                    csv_row.append(0)
                csv_row.append(design.ghe.bhe.soil.ugt + design.ghe.dTb[i - 1])
                csv_row.append(design.ghe.hp_eft[i - 1])
                csv_array.append(csv_row)

                current_time = tv
                loading = 0
                current_month = self.hours_to_month(tv)
                normalized_loading = loading / (design.ghe.bhe.b.H * design.ghe.nbh)
                wall_temperature = design.ghe.bhe.soil.ugt + d_tb
                hp_eft_val = design.ghe.hp_eft[i]
            csv_row = [current_time, current_month, loading, normalized_loading, wall_temperature, hp_eft_val]
            csv_array.append(csv_row)
        return csv_array

    @staticmethod
    def get_borehole_location_data(design):
        csv_array = [["x", "y"]]
        for bore_location in design.ghe.gFunction.bore_locations:
            csv_array.append([bore_location[0], bore_location[1]])
        return csv_array

    def get_hourly_loading_data(self, design):
        hourly_loadings = design.ghe.hourly_extraction_ground_loads
        csv_array = [["Month", "Day", "Hour", "Time (Hours)", "Loading (W) (Extraction)"]]
        for hour, hour_load in enumerate(hourly_loadings):
            month, day_in_month, hour_in_day = self.ghe_time_convert(hour)
            csv_array.append([month, day_in_month, hour_in_day, hour, hour_load])
        return csv_array

    @staticmethod
    def get_g_function_data(design):
        title = f"H: {design.ghe.bhe.b.H:0.2f} m"
        csv_array = [["ln(t/ts)", f"{title}", f"{title} bhw"]]
        gf_adjusted, gf_bhw_adjusted = design.ghe.grab_g_function(design.ghe.B_spacing / float(design.ghe.bhe.b.H))

        gf_log_vals = gf_adjusted.x
        gf_g_vals = gf_adjusted.y

        gf_bhw_g_vals = gf_bhw_adjusted.y

        for log_val, g_val, g_bhw_val in zip(gf_log_vals, gf_g_vals, gf_bhw_g_vals):
            csv_array.append([log_val, g_val, g_bhw_val])
        return csv_array

    @staticmethod
    def get_timestep_str(load_method: TimestepType):
        if load_method == TimestepType.HYBRID:
            return TimestepType.HYBRID.name
        if load_method == TimestepType.HOURLY:
            return TimestepType.HOURLY.name
        warnings.warn("Load method not implemented")
        return ""

    def get_summary_object(
        self,
        design: AnyBisectionType,
        time: float,
        project_name: str,
        notes: str,
        author: str,
        model_name: str,
        load_method: TimestepType,
    ) -> dict:
        # gFunction LTS Table
        g_function_col_titles = ["ln(t/ts)"]
        for g_function_name in list(design.ghe.gFunction.g_lts):
            g_function_col_titles.append(f"H: {g_function_name:0.2f} m")
        g_function_col_titles.append(f"H: {design.ghe.bhe.b.H:0.2f} m")
        g_function_data = []
        ghe_gf = design.ghe.gFunction.g_function_interpolation(float(design.ghe.B_spacing) / design.ghe.bhe.b.H)[0]
        for i in range(len(design.ghe.gFunction.log_time)):
            gf_row = [design.ghe.gFunction.log_time[i]]
            for g_function_name in list(design.ghe.gFunction.g_lts):
                gf_row.append(design.ghe.gFunction.g_lts[g_function_name][i])
            gf_row.append(ghe_gf[i])
            g_function_data.append(gf_row)

        def add_with_units(val, units):
            return {'units': units, 'value': val}

        # these are dependent on the # pipes in each borehole, so precalculate
        if isinstance(design.ghe.bhe.pipe.r_out, float):
            pipe_geometry = {
                'pipe_outer_diameter': add_with_units(design.ghe.bhe.pipe.r_out * 2.0, 'm'),
                'pipe_inner_diameter': add_with_units(design.ghe.bhe.pipe.r_in * 2.0, 'm'),
            }
            reynolds = GHEDesignerBoreholeBase.compute_reynolds(
                design.ghe.bhe.m_flow_borehole, design.ghe.bhe.pipe.r_in, design.ghe.bhe.fluid
            )
        else:
            pipe_geometry = {
                'inner_pipe_inner_diameter': add_with_units(design.ghe.bhe.pipe.r_in[0] * 2.0, 'm'),
                'inner_pipe_outer_diameter': add_with_units(design.ghe.bhe.pipe.r_in[1] * 2.0, 'm'),
                'outer_pipe_inner_diameter': add_with_units(design.ghe.bhe.pipe.r_out[0] * 2.0, 'm'),
                'outer_pipe_outer_diameter': add_with_units(design.ghe.bhe.pipe.r_out[1] * 2.0, 'm'),
            }
            reynolds = CoaxialPipe.compute_reynolds_concentric(
                design.ghe.bhe.m_flow_borehole, design.ghe.bhe.r_in_out, design.ghe.bhe.r_out_in, design.ghe.bhe.fluid
            )
        # build out the actual output dictionary
        output_dict = {
            'project_name': project_name,
            'notes': notes,
            'model_name': model_name,
            'simulation_time_stamp': datetime.now().strftime("%m/%d/%Y %H:%M:%S %p"),
            'simulation_author': author,
            'simulation_runtime': add_with_units(time, 's'),
            'design_selection_search_log': {
                'titles': ["Field", "Excess Temperature", "Max Temperature", "Min Temperature"],
                'units': [" ", "(C)", "(C)", "(C)"],
                'data': design.searchTracker,
            },
            'ghe_system': {
                'search_log': {'titles': g_function_col_titles, 'units': None, 'data': g_function_data},
                'active_borehole_length': add_with_units(design.ghe.bhe.b.H, 'm'),
                'borehole_diameter': add_with_units(design.ghe.bhe.b.r_b * 2.0, 'm'),
                'borehole_buried_depth': add_with_units(design.ghe.bhe.b.D, 'm'),
                'borehole_spacing': add_with_units(design.ghe.B_spacing, 'm'),
                'total_drilling': add_with_units(design.ghe.bhe.b.H * len(design.ghe.gFunction.bore_locations), 'm'),
                'field_type': design.ghe.fieldType,
                'field_specifier': design.ghe.fieldSpecifier,
                'number_of_boreholes': len(design.ghe.gFunction.bore_locations),
                'shank_spacing': add_with_units(design.ghe.bhe.pipe.s, 'm'),
                'pipe_geometry': pipe_geometry,
                'pipe_roughness': add_with_units(design.ghe.bhe.pipe.roughness, 'm'),
                'pipe_thermal_conductivity': add_with_units(design.ghe.bhe.pipe.k, 'W/m-K'),
                'pipe_volumetric_heat_capacity': add_with_units(design.ghe.bhe.pipe.rhoCp / 1000, 'kJ/m3-K'),
                'grout_thermal_conductivity': add_with_units(design.ghe.bhe.grout.k, 'W/m-K'),
                'grout_volumetric_heat_capacity': add_with_units(design.ghe.bhe.grout.rhoCp / 1000, 'kJ/m3-K'),
                'reynolds_number': reynolds,
                'effective_borehole_resistance': add_with_units(
                    design.ghe.bhe.calc_effective_borehole_resistance(), 'W/m-K'
                ),
                # TODO: are the units right here?
                'soil_thermal_conductivity': add_with_units(design.ghe.bhe.soil.k, 'W/m-K'),
                'soil_volumetric_heat_capacity': add_with_units(design.ghe.bhe.soil.rhoCp / 1000, 'kJ/m3-K'),
                'soil_undisturbed_ground_temp': add_with_units(design.ghe.bhe.soil.ugt, 'C'),
                'fluid_volumetric_heat_capacity': add_with_units(design.ghe.bhe.fluid.rhoCp / 1000, 'kJ/m3-K'),
                'fluid_thermal_conductivity': add_with_units(design.ghe.bhe.fluid.k, 'W/m-K'),
                'fluid_viscosity': add_with_units(design.ghe.bhe.fluid.dynamic_viscosity(), 'Pa-s'),
                'fluid_mixture': design.ghe.bhe.fluid.fluid.fluid_name,  # TODO: Is this the right lookup!?!?!? :)
                'fluid_density': add_with_units(design.ghe.bhe.fluid.rho, 'kg/m3'),
                'fluid_mass_flow_rate_per_borehole': add_with_units(design.ghe.bhe.m_flow_borehole, 'kg/s'),
            },
            'simulation_parameters': {
                'start_month': design.ghe.sim_params.start_month,
                'end_month': design.ghe.sim_params.end_month,
                'maximum_allowable_hp_eft': add_with_units(design.ghe.sim_params.max_EFT_allowable, 'C'),
                'minimum_allowable_hp_eft': add_with_units(design.ghe.sim_params.min_EFT_allowable, 'C'),
                'maximum_allowable_height': add_with_units(design.ghe.sim_params.max_height, 'm'),
                'minimum_allowable_height': add_with_units(design.ghe.sim_params.min_height, 'm'),
                'simulation_time': add_with_units(int(design.ghe.sim_params.end_month / 12), 'years'),
                'simulation_load_method': self.get_timestep_str(load_method),
            },
            'simulation_results': {},
        }

        # potentially add convection coefficient -- not sure why we wouldn't do it
        if hasattr(design.ghe.bhe, "h_f"):
            # TODO: Should be W/m2-K?
            output_dict['ghe_system']['fluid_convection_coefficient'] = add_with_units(design.ghe.bhe.h_f, 'W/m-K')

        # add monthly load summary
        monthly_load_values = []
        n_months = len(design.ghe.hybrid_load.monthly_cl) - 1
        n_years = int(n_months / 12)
        months = n_years * [
            "January",
            "February",
            "March",
            "April",
            "May",
            "June",
            "July",
            "August",
            "September",
            "October",
            "November",
            "December",
        ]
        start_ind = 1
        stop_ind = n_months
        for i in range(start_ind, stop_ind + 1):
            monthly_load_values.append(
                [
                    months[i - 1],
                    design.ghe.hybrid_load.monthly_hl[i],
                    design.ghe.hybrid_load.monthly_cl[i],
                    design.ghe.hybrid_load.monthly_peak_hl[i],
                    design.ghe.hybrid_load.monthly_peak_hl_duration[i],
                    design.ghe.hybrid_load.monthly_peak_cl[i],
                    design.ghe.hybrid_load.monthly_peak_cl_duration[i],
                ]
            )
        output_dict['ghe_system']['glhe_monthly_loads'] = {
            'titles': [
                "Month",
                "Total Heating",
                "Total Cooling",
                "Peak Heating",
                "PH Duration",
                "Peak Cooling",
                "PC Duration",
            ],
            'units': ["", "kWh", "kWh", "kW", "hr", "kW", "hr"],
            'data': monthly_load_values,
        }

        # add simulation results stuff
        n_years = 0
        out_array = []
        last_month = -1
        month_tb_vals = []
        month_eft_vals = []
        for tv, d_tb, eft in zip(design.ghe.times, design.ghe.dTb, design.ghe.hp_eft):
            current_month = floor(self.hours_to_month(tv))
            if current_month == last_month:
                month_tb_vals.append(d_tb)
                month_eft_vals.append(eft)
            elif current_month != last_month:
                if len(month_tb_vals) > 0:
                    previous_temp = design.ghe.bhe.soil.ugt
                    out_array.append(
                        [
                            current_month,
                            previous_temp + month_tb_vals[-1],
                            max(month_eft_vals),
                            min(month_eft_vals),
                        ]
                    )
                last_month = current_month
                month_tb_vals = [d_tb]
                month_eft_vals = [eft]
            if current_month % 11 == 0:
                n_years += 1
        max_eft = max(design.ghe.hp_eft)
        min_eft = min(design.ghe.hp_eft)
        max_eft_time = design.ghe.times[design.ghe.hp_eft.index(max(design.ghe.hp_eft))]
        min_eft_time = design.ghe.times[design.ghe.hp_eft.index(min(design.ghe.hp_eft))]
        max_eft_time = self.hours_to_month(max_eft_time)
        min_eft_time = self.hours_to_month(min_eft_time)
        output_dict['simulation_results'] = {
            'max_hp_eft': add_with_units(max_eft, 'C'),
            'max_hp_eft_time': add_with_units(max_eft_time, 'months'),
            'min_hp_eft': add_with_units(min_eft, 'C'),
            'min_hp_eft_time': add_with_units(min_eft_time, 'months'),
            'monthly_temp_summary': {
                'titles': ["Time", "BH Wall Temp", "Max HP EFT", "Min HP EFT"],
                'units': ["(months)", "(C)", "(C)", "(C)"],
                'data': out_array,
            },
        }

        return output_dict

    def get_summary_text(self, width, project_name, model_name, notes, author, time, design, load_method):
        f_int = ".0f"
        f_1f = ".1f"
        f_2f = ".2f"
        f_3f = ".3f"
        f_4f = ".4f"
        f_str = "s"
        f_sci = ".3e"

        blank_line = self.create_line(width)
        empty_line = self.create_line(width, character=" ")

        o = blank_line
        o += self.d_row(width, "Project Name:", project_name, f_str)
        o += blank_line
        o += "Notes:\n\n" + notes + "\n"
        o += blank_line
        o += self.d_row(width, "File/Model Name:", model_name, f_str)
        now = datetime.now()
        time_string = now.strftime("%m/%d/%Y %H:%M:%S %p")
        o += self.d_row(width, "Simulated On:", time_string, f_str)
        o += self.d_row(width, "Simulated By:", author, f_str)
        o += self.d_row(width, "Calculation Time, s:", time, f_3f)
        o += empty_line
        o += self.create_title(width, "Design Selection", filler_symbol="-")

        design_header = [
            ["Field", "Excess Temperature", "Max Temperature", "Min Temperature"],
            [" ", "(C)", "(C)", "(C)"],
        ]
        try:
            design_values = design.searchTracker
        except Exception as e:  # noqa: BLE001
            print(f"Error getting design values: {e}")
            design_values = ""
        design_formats = [f_str, f_2f, f_2f, f_2f]

        o += self.create_table(
            "Field Search Log", design_header, design_values, width, design_formats, filler_symbol="-", centering="^"
        )

        o += empty_line
        o += self.create_title(width, "GHE System", filler_symbol="-")

        # gFunction LTS Table
        g_function_table_formats = [f_3f]
        gf_table_ff = [f_3f] * (len(design.ghe.gFunction.g_lts) + 1)
        g_function_table_formats.extend(gf_table_ff)
        g_function_col_titles = ["ln(t/ts)"]

        for g_function_name in list(design.ghe.gFunction.g_lts):
            g_function_col_titles.append(f"H: {g_function_name:0.2f} m")
        g_function_col_titles.append(f"H: {design.ghe.bhe.b.H:0.2f} m")

        g_function_data = []
        ghe_gf = design.ghe.gFunction.g_function_interpolation(float(design.ghe.B_spacing) / design.ghe.bhe.b.H)[0]
        for i in range(len(design.ghe.gFunction.log_time)):
            gf_row = [design.ghe.gFunction.log_time[i]]
            for g_function_name in list(design.ghe.gFunction.g_lts):
                gf_row.append(design.ghe.gFunction.g_lts[g_function_name][i])
            gf_row.append(ghe_gf[i])
            g_function_data.append(gf_row)

        o += self.create_table(
            "gFunction LTS Values",
            [g_function_col_titles],
            g_function_data,
            width,
            g_function_table_formats,
            filler_symbol="-",
            centering="^",
        )
        o += empty_line

        o += self.create_title(width, "System Parameters", filler_symbol="-")
        o += self.d_row(width, "Active Borehole Length, m:", design.ghe.bhe.b.H, f_int)
        o += self.d_row(width, "Borehole Diameter, mm:", design.ghe.bhe.b.r_b * 1000 * 2.0, f_2f)
        o += self.d_row(width, "Borehole Spacing, m:", design.ghe.B_spacing, f_3f)
        o += self.d_row(width, 'Borehole Depth, m:', design.ghe.bhe.b.D, f_2f)
        o += self.d_row(
            width, "Total Drilling, m:", design.ghe.bhe.b.H * len(design.ghe.gFunction.bore_locations), f_int
        )

        o += "Field Geometry: " + "\n"
        o += self.d_row(width, "Field Type:", design.ghe.fieldType, f_str, n_tabs=1)
        o += self.d_row(width, "Field Specifier:", design.ghe.fieldSpecifier, f_str, n_tabs=1)
        o += self.d_row(width, "NBH:", len(design.ghe.gFunction.bore_locations), f_int, n_tabs=1)

        o += "Borehole Information: " + "\n"

        if isinstance(design.ghe.bhe.pipe.r_out, float):
            o += self.d_row(width, "Pipe Outer Diameter, mm:", design.ghe.bhe.pipe.r_out * 1000 * 2.0, f_2f, n_tabs=1)
            o += self.d_row(width, "Pipe Inner Diameter, mm:", design.ghe.bhe.pipe.r_in * 1000 * 2.0, f_2f, n_tabs=1)
        else:
            o += self.d_row(
                width, "Outer Pipe Outer Diameter, mm:", design.ghe.bhe.pipe.r_out[1] * 1000 * 2.0, f_2f, n_tabs=1
            )
            o += self.d_row(
                width, "Outer Pipe Inner Diameter, mm:", design.ghe.bhe.pipe.r_out[0] * 1000 * 2.0, f_2f, n_tabs=1
            )
            o += self.d_row(
                width, "Inner Pipe Outer Diameter, mm:", design.ghe.bhe.pipe.r_in[1] * 1000 * 2.0, f_2f, n_tabs=1
            )
            o += self.d_row(
                width, "Inner Pipe Inner Diameter, mm:", design.ghe.bhe.pipe.r_in[0] * 1000 * 2.0, f_2f, n_tabs=1
            )

        o += self.d_row(width, "Pipe Roughness, m:", design.ghe.bhe.pipe.roughness, f_sci, n_tabs=1)
        if isinstance(design.ghe.bhe.pipe.k, float):
            o += self.d_row(width, "Pipe Thermal Conductivity, W/m-K:", design.ghe.bhe.pipe.k, f_3f, n_tabs=1)
        else:
            o += self.d_row(width, "Inner Pipe Thermal Conductivity, W/m-K:", design.ghe.bhe.pipe.k[0], f_3f, n_tabs=1)
            o += self.d_row(width, "Outer Pipe Thermal Conductivity, W/m-K:", design.ghe.bhe.pipe.k[1], f_3f, n_tabs=1)

        o += self.d_row(
            width, "Pipe Volumetric Heat Capacity, kJ/m3-K:", design.ghe.bhe.pipe.rhoCp / 1000, f_2f, n_tabs=1
        )
        o += self.d_row(width, "Shank Spacing, mm:", design.ghe.bhe.pipe.s * 1000, f_2f, n_tabs=1)
        o += self.d_row(width, "Grout Thermal Conductivity, W/(m-K):", design.ghe.bhe.grout.k, f_3f, n_tabs=1)
        o += self.d_row(
            width, "Grout Volumetric Heat Capacity, kJ/m3-K:", design.ghe.bhe.grout.rhoCp / 1000, f_2f, n_tabs=1
        )
        if isinstance(design.ghe.bhe.pipe.r_out, float):
            o += self.d_row(
                width,
                "Reynold's Number:",
                GHEDesignerBoreholeBase.compute_reynolds(
                    design.ghe.bhe.m_flow_borehole, design.ghe.bhe.pipe.r_in, design.ghe.bhe.fluid
                ),
                f_int,
                n_tabs=1,
            )
        else:
            o += self.d_row(
                width,
                "Reynold's Number:",
                CoaxialPipe.compute_reynolds_concentric(
                    design.ghe.bhe.m_flow_borehole,
                    design.ghe.bhe.r_in_out,
                    design.ghe.bhe.r_out_in,
                    design.ghe.bhe.fluid,
                ),
                f_int,
                n_tabs=1,
            )

        o += self.d_row(
            width,
            "Effective Borehole Resistance, K/(W/m):",
            design.ghe.bhe.calc_effective_borehole_resistance(),
            f_4f,
            n_tabs=1,
        )
        # Shank Spacing, Pipe Type, etc.

        o += "Soil Properties: " + "\n"
        o += self.d_row(width, "Thermal Conductivity, W/m-K:", design.ghe.bhe.soil.k, f_3f, n_tabs=1)
        o += self.d_row(width, "Volumetric Heat Capacity, kJ/m3-K:", design.ghe.bhe.soil.rhoCp / 1000, f_2f, n_tabs=1)
        o += self.d_row(width, "Undisturbed Ground Temperature, C:", design.ghe.bhe.soil.ugt, f_2f, n_tabs=1)

        o += "Fluid Properties" + "\n"
        o += self.d_row(width, "Volumetric Heat Capacity, kJ/m3-K:", design.ghe.bhe.fluid.rhoCp / 1000, f_2f, n_tabs=1)
        o += self.d_row(width, "Thermal Conductivity, W/m-K:", design.ghe.bhe.fluid.k, f_2f, n_tabs=1)
        o += self.d_row(width, "Viscosity, Pa-s:", design.ghe.bhe.fluid.dynamic_viscosity(), f_sci, n_tabs=1)
        o += self.d_row(width, "Fluid Mix:", design.ghe.bhe.fluid.fluid.fluid_name, f_str, n_tabs=1)
        o += self.d_row(width, "Density, kg/m^3:", design.ghe.bhe.fluid.rho, f_2f, n_tabs=1)
        o += self.d_row(width, "Mass Flow Rate Per Borehole, kg/s:", design.ghe.bhe.m_flow_borehole, f_3f, n_tabs=1)
        if hasattr(design.ghe.bhe, "h_f"):
            o += self.d_row(width, "Fluid Convection Coefficient, W/m-K:", design.ghe.bhe.h_f, f_int, n_tabs=1)
        o += empty_line

        monthly_load_values = []
        n_months = len(design.ghe.hybrid_load.monthly_cl) - 1
        n_years = int(n_months / 12)
        months = n_years * [
            "January",
            "February",
            "March",
            "April",
            "May",
            "June",
            "July",
            "August",
            "September",
            "October",
            "November",
            "December",
        ]

        start_ind = 1
        stop_ind = n_months
        for i in range(start_ind, stop_ind + 1):
            monthly_load_values.append(
                [
                    months[i - 1],
                    design.ghe.hybrid_load.monthly_hl[i],
                    design.ghe.hybrid_load.monthly_cl[i],
                    design.ghe.hybrid_load.monthly_peak_hl[i],
                    design.ghe.hybrid_load.monthly_peak_hl_duration[i],
                    design.ghe.hybrid_load.monthly_peak_cl[i],
                    design.ghe.hybrid_load.monthly_peak_cl_duration[i],
                ]
            )
        month_header = [
            ["Month", "Total Heating", "Total Cooling", "Peak Heating", "PH Duration", "Peak Cooling", "PC Duration"],
            ["", "kWh", "kWh", "kW", "hr", "kW", "hr"],
        ]

        month_table_formats = [f_str, f_1f, f_1f, f_1f, f_1f, f_1f, f_1f]

        o += self.create_table(
            "GLHE Monthly Loads",
            month_header,
            monthly_load_values,
            width,
            month_table_formats,
            filler_symbol="-",
            centering="^",
        )

        o += empty_line

        o += self.create_title(width, "Simulation Parameters")
        o += self.d_row(width, "Start Month: ", design.ghe.sim_params.start_month, f_int)
        o += self.d_row(width, "End Month: ", design.ghe.sim_params.end_month, f_int)
        o += self.d_row(width, "Maximum Allowable HP EFT, C: ", design.ghe.sim_params.max_EFT_allowable, f_2f)
        o += self.d_row(width, "Minimum Allowable HP EFT, C: ", design.ghe.sim_params.min_EFT_allowable, f_2f)
        o += self.d_row(width, "Maximum Allowable Height, m: ", design.ghe.sim_params.max_height, f_2f)
        o += self.d_row(width, "Minimum Allowable Height, m: ", design.ghe.sim_params.min_height, f_2f)
        o += self.d_row(width, "Simulation Time, years: ", int(design.ghe.sim_params.end_month / 12), f_int)
        load_method_string = self.get_timestep_str(load_method)
        o += self.d_row(width, "Simulation Loading Type: ", load_method_string, f_str)

        o += empty_line

        # Loading Stuff
        o += self.create_title(width, "Simulation Results")
        o += empty_line

        # Simulation Results
        eft_table_title = "Monthly Temperature Summary"
        n_years = 0
        out_array = []
        last_month = -1
        month_tb_vals = []
        month_eft_vals = []
        for tv, d_tb, eft in zip(design.ghe.times, design.ghe.dTb, design.ghe.hp_eft):
            # currentHourMonth = timeVals[i] - hTotalYear * nYears
            current_month = floor(self.hours_to_month(tv))
            # print(monthEFTVals)
            if current_month == last_month:
                month_tb_vals.append(d_tb)
                month_eft_vals.append(eft)
            elif current_month != last_month:
                if len(month_tb_vals) > 0:
                    previous_temp = design.ghe.bhe.soil.ugt
                    out_array.append(
                        [
                            current_month,
                            previous_temp + month_tb_vals[-1],
                            max(month_eft_vals),
                            min(month_eft_vals),
                        ]
                    )
                last_month = current_month
                month_tb_vals = [d_tb]
                month_eft_vals = [eft]
            if current_month % 11 == 0:
                n_years += 1

        header_array = [
            ["Time", "BH Wall Temp", "Max HP EFT", "Min HP EFT"],
            ["(months)", "(C)", "(C)", "(C)"],
        ]
        eft_table_formats = [f_int, f_2f, f_2f, f_2f]

        o += self.create_title(width, "Peak Temperature", filler_symbol="-")
        max_eft = max(design.ghe.hp_eft)
        min_eft = min(design.ghe.hp_eft)
        max_eft_time = design.ghe.times[design.ghe.hp_eft.index(max(design.ghe.hp_eft))]
        min_eft_time = design.ghe.times[design.ghe.hp_eft.index(min(design.ghe.hp_eft))]
        max_eft_time = self.hours_to_month(max_eft_time)
        min_eft_time = self.hours_to_month(min_eft_time)
        o += self.d_row(width, "Max HP EFT, C:", max_eft, f_3f)
        o += self.d_row(width, "Max HP EFT Time, Months:", max_eft_time, f_3f)
        o += self.d_row(width, "Min HP EFT, C:", min_eft, f_3f)
        o += self.d_row(width, "Min HP EFT Time, Months:", min_eft_time, f_3f)

        o += self.create_table(
            eft_table_title, header_array, out_array, width, eft_table_formats, filler_symbol="-", centering="^"
        )

        # strip out all trailing whitespace
        o = re.sub(r"\s+\n", "\n", o)

        return o

    @staticmethod
    def create_title(allocated_width, title, filler_symbol=" "):
        return "{:{fS}^{L}s}\n".format(" " + title + " ", L=allocated_width, fS=filler_symbol)

    @staticmethod
    def create_row(allocated_width, row_data, data_formats, centering=">"):
        r_s = ""
        n_cols = len(row_data)
        col_width = int(allocated_width / n_cols)
        left_over = float(allocated_width) % col_width
        for d_f, data in zip(data_formats, row_data):
            width = col_width
            if left_over > 0:
                width = col_width + 1
                left_over -= 1
            try:
                r_s += "{:{c}{w}{fm}}".format(data, c=centering, w=width, fm=d_f)
            except Exception as e:  # noqa: BLE001
                print("Output Row creation error: ", d_f, e)
                raise ValueError

        r_s += "\n"
        return r_s

    @staticmethod
    def create_table(title, col_titles, rows, allocated_width, col_formats, filler_symbol=" ", centering=">"):
        n_cols = len(col_titles[0])
        r_s = ""
        r_s += OutputManager.create_title(allocated_width, title, filler_symbol=filler_symbol)
        blank_line = OutputManager.create_line(allocated_width)
        r_s += blank_line
        header_format = ["s"] * n_cols
        for col_title in col_titles:
            r_s += OutputManager.create_row(allocated_width, col_title, header_format, centering="^")
        r_s += blank_line
        for row in rows:
            r_s += OutputManager.create_row(allocated_width, row, col_formats, centering=centering)
        r_s += blank_line
        return r_s

    @staticmethod
    def d_row(row_allocation: int, entry_1: str, entry_2, d_type: str, n_tabs: int = 0):
        tab_width = 4
        leading_spaces = n_tabs * tab_width

        l_str = f"{' ' * leading_spaces}{entry_1}"
        r_str = f"{entry_2:{d_type}}"

        l_chars_needed = len(l_str)
        r_chars_needed = len(r_str)
        c_spaces = row_allocation - l_chars_needed - r_chars_needed

        if c_spaces < 0:
            warnings.warn("Unable to write output string with specified formatting.")
            c_spaces = 4

        c_str = ' ' * c_spaces
        r_s = f"{l_str}{c_str}{r_str}\n"
        return r_s

    @staticmethod
    def create_line(row_allocation, character="*"):
        return character * row_allocation + "\n"

    @staticmethod
    def hours_to_month(hours):
        days_in_year = [31, 28, 31, 30, 31, 30, 31, 31, 30, 31, 30, 31]
        hours_in_year = [HRS_IN_DAY * x for x in days_in_year]
        n_years = floor(hours / sum(hours_in_year))
        frac_month = n_years * len(days_in_year)
        month_in_year = 0
        for idx, _ in enumerate(days_in_year):
            hours_left = hours - n_years * sum(hours_in_year)
            if sum(hours_in_year[0 : idx + 1]) >= hours_left:
                month_in_year = idx
                break
        frac_month += month_in_year
        h_l = hours - n_years * sum(hours_in_year) - sum(hours_in_year[0:month_in_year])
        frac_month += h_l / (hours_in_year[month_in_year])
        return frac_month

    @staticmethod
    def ghe_time_convert(hours):
        days_in_year = [31, 28, 31, 30, 31, 30, 31, 31, 30, 31, 30, 31]
        hours_in_year = [HRS_IN_DAY * x for x in days_in_year]
        month_in_year = 0
        year_hour_sum = 0
        for idx, _ in enumerate(days_in_year):
            hours_left = hours
            if year_hour_sum + hours_in_year[idx] - 1 >= hours_left:
                month_in_year = idx
                break
            else:
                year_hour_sum += hours_in_year[idx]
        h_l = hours - sum(hours_in_year[0:month_in_year])
        day_in_month = floor(h_l / HRS_IN_DAY) + 1
        hour_in_day = h_l % HRS_IN_DAY + 1
        return month_in_year + 1, day_in_month, hour_in_day
