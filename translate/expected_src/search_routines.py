from math import ceil, sqrt
from typing import Optional

from ghedesigner.borehole_heat_exchangers import GHEBorehole
from ghedesigner.enums import BHPipeType, FlowConfigType, TimestepType
from ghedesigner.gfunction import calc_g_func_for_multiple_lengths
from ghedesigner.ground_heat_exchangers import GHE
from ghedesigner.media import GHEFluid, Grout, Pipe, Soil
from ghedesigner.rowwise import field_optimization_fr, field_optimization_wp_space_fr, gen_shape
from ghedesigner.simulation import SimulationParameters
from ghedesigner.utilities import borehole_spacing, check_bracket, eskilson_log_times, sign


class Bisection1D:
    def __init__(
        self,
        coordinates_domain: list,
        field_descriptors: list,
        v_flow: float,
        borehole: GHEBorehole,
        bhe_type: BHPipeType,
        fluid: GHEFluid,
        pipe: Pipe,
        grout: Grout,
        soil: Soil,
        sim_params: SimulationParameters,
        hourly_extraction_ground_loads: list,
        method: TimestepType,
        flow_type: FlowConfigType.BOREHOLE,
        max_iter=15,
        disp=False,
        search=True,
        field_type="N/A",
        load_years=None,
    ):
        # Take the lowest part of the coordinates domain to be used for the
        # initial setup
        if load_years is None:
            load_years = [2019]
        self.load_years = load_years
        self.searchTracker = []
        coordinates = coordinates_domain[0]
        current_field = field_descriptors[0]
        self.field_type = field_type
        # Flow rate tracking
        self.V_flow = v_flow
        self.flow_type = flow_type
        v_flow_system, m_flow_borehole = self.retrieve_flow(coordinates, fluid.rho)
        self.method = method

        self.log_time = eskilson_log_times()
        self.bhe_type = bhe_type
        self.sim_params = sim_params
        self.hourly_extraction_ground_loads = hourly_extraction_ground_loads
        self.coordinates_domain = coordinates_domain
        self.fieldDescriptors = field_descriptors
        self.max_iter = max_iter
        self.disp = disp

        b = borehole_spacing(borehole, coordinates)

        # Calculate a g-function for uniform inlet fluid temperature with
        # 8 unequal segments using the equivalent solver
        g_function = calc_g_func_for_multiple_lengths(
            b,
            [borehole.H],
            borehole.r_b,
            borehole.D,
            m_flow_borehole,
            self.bhe_type,
            self.log_time,
            coordinates,
            fluid,
            pipe,
            grout,
            soil,
        )

        # Initialize the GHE object
        self.ghe = GHE(
            v_flow_system,
            b,
            bhe_type,
            fluid,
            borehole,
            pipe,
            grout,
            soil,
            g_function,
            sim_params,
            hourly_extraction_ground_loads,
            field_specifier=current_field,
            field_type=field_type,
            load_years=load_years,
        )

        self.calculated_temperatures = {}

        if search:
            self.selection_key, self.selected_coordinates = self.search()

    def retrieve_flow(self, coordinates, rho):
        if self.flow_type == FlowConfigType.BOREHOLE:
            v_flow_system = self.V_flow * len(coordinates)
            # Total fluid mass flow rate per borehole (kg/s)
            m_flow_borehole = self.V_flow / 1000.0 * rho
        elif self.flow_type == FlowConfigType.SYSTEM:
            v_flow_system = self.V_flow
            v_flow_borehole = self.V_flow / len(coordinates)
            m_flow_borehole = v_flow_borehole / 1000.0 * rho
        else:
            raise ValueError("The flow argument should be either `borehole`" "or `system`.")
        return v_flow_system, m_flow_borehole

    def initialize_ghe(self, coordinates, h, field_specifier="N/A"):
        v_flow_system, m_flow_borehole = self.retrieve_flow(coordinates, self.ghe.bhe.fluid.rho)

        self.ghe.bhe.b.H = h
        borehole = self.ghe.bhe.b
        fluid = self.ghe.bhe.fluid
        pipe = self.ghe.bhe.pipe
        grout = self.ghe.bhe.grout
        soil = self.ghe.bhe.soil

        b = borehole_spacing(borehole, coordinates)

        # Calculate a g-function for uniform inlet fluid temperature with
        # 8 unequal segments using the equivalent solver
        g_function = calc_g_func_for_multiple_lengths(
            b,
            [borehole.H],
            borehole.r_b,
            borehole.D,
            m_flow_borehole,
            self.bhe_type,
            self.log_time,
            coordinates,
            fluid,
            pipe,
            grout,
            soil,
        )

        # Initialize the GHE object
        self.ghe = GHE(
            v_flow_system,
            b,
            self.bhe_type,
            fluid,
            borehole,
            pipe,
            grout,
            soil,
            g_function,
            self.sim_params,
            self.hourly_extraction_ground_loads,
            field_type=self.field_type,
            field_specifier=field_specifier,
            load_years=self.load_years,
        )

    def calculate_excess(self, coordinates, h, field_specifier="N/A"):
        self.initialize_ghe(coordinates, h, field_specifier=field_specifier)
        # Simulate after computing just one g-function
        max_hp_eft, min_hp_eft = self.ghe.simulate(method=self.method)
        t_excess = self.ghe.cost(max_hp_eft, min_hp_eft)
        self.searchTracker.append([field_specifier, t_excess, max_hp_eft, min_hp_eft])

        return t_excess

    def search(self):
        x_l_idx = 0

        # find upper bound that respects max_boreholes
        if self.sim_params.max_boreholes is not None:
            num_coordinates_in_each = [len(x) for x in self.coordinates_domain]
            below_cap = [idx for idx, x in enumerate(num_coordinates_in_each) if x < self.sim_params.max_boreholes]
            if not below_cap:
                # e.g. a polygon-constrained domain whose smallest field already has max_boreholes holes
                raise ValueError("Search failed: no candidate field has fewer boreholes than max_boreholes.")
            x_r_idx = below_cap[-1]
        else:
            x_r_idx = len(self.coordinates_domain) - 1

        if self.disp:
            print("Do some initial checks before searching.")
        # Get the lowest possible excess temperature from minimum height at the
        # smallest location in the domain
        t_0_lower = self.calculate_excess(
            self.coordinates_domain[x_l_idx],
            self.sim_params.min_height,
            field_specifier=self.fieldDescriptors[x_l_idx],
        )
        t_0_upper = self.calculate_excess(
            self.coordinates_domain[x_l_idx],
            self.sim_params.max_height,
            field_specifier=self.fieldDescriptors[x_l_idx],
        )
        t_m1 = self.calculate_excess(
            self.coordinates_domain[x_r_idx],
            self.sim_params.max_height,
            field_specifier=self.fieldDescriptors[x_r_idx],
        )

        self.calculated_temperatures[x_l_idx] = t_0_upper
        self.calculated_temperatures[x_r_idx] = t_m1

        if check_bracket(sign(t_0_lower), sign(t_0_upper)):
            if self.disp:
                print("Size between min and max of lower bound in domain.")
            self.initialize_ghe(self.coordinates_domain[x_l_idx], self.sim_params.max_height)
            return x_l_idx, self.coordinates_domain[x_l_idx]
        elif check_bracket(sign(t_0_upper), sign(t_m1)):
            if self.disp:
                print("Perform the integer bisection search routine.")
        elif t_0_lower < 0.0:
            condition_msg = (
                "The optimal design requires fewer or shorter boreholes \n"
                "than what is possible based on the current design parameters."
            )
            print(condition_msg)
            if self.sim_params.continue_if_design_unmet:
                print("Smallest available configuration selected.")
                selection_key = x_l_idx
                self.initialize_ghe(
                    self.coordinates_domain[selection_key],
                    self.sim_params.min_height,
                    self.fieldDescriptors[selection_key],
                )
                return selection_key, self.coordinates_domain[selection_key]
            else:
                raise ValueError("Search failed.")
        elif t_m1 > 0.0:
            condition_msg = (
                "The optimal design requires more or deeper boreholes \n"
                "than what is possible based on the current design parameters. \n"
                "Consider increasing the available land area, \n"
                "increasing the maximum borehole depth, \n"
                "or decreasing the maximum borehole spacing."
            )
            print(condition_msg)
            if self.sim_params.continue_if_design_unmet:
                print("Largest available configuration selected.")
                selection_key = x_r_idx
                self.initialize_ghe(
                    self.coordinates_domain[selection_key],
                    self.sim_params.max_height,
                    self.fieldDescriptors[selection_key],
                )
                return selection_key, self.coordinates_domain[selection_key]
            else:
                raise ValueError("Search failed.")
        else:
            # if we've gotten here, everything should be good for the bisection search.
            # can add catches for other cases here if they pop up.
            pass
        if self.disp:
            print("Beginning bisection search...")

        x_l_sign = sign(t_0_upper)

        i = 0

        while i < self.max_iter:
            c_idx = ceil((x_l_idx + x_r_idx) / 2)
            # if the solution is no longer making progress break the while
            # if c_idx == x_l_idx or c_idx == x_r_idx:
            if c_idx in (x_l_idx, x_r_idx):
                break

            c_t_excess = self.calculate_excess(
                self.coordinates_domain[c_idx],
                self.sim_params.max_height,
                field_specifier=self.fieldDescriptors[c_idx],
            )

            self.calculated_temperatures[c_idx] = c_t_excess
            c_sign = sign(c_t_excess)

            if c_sign == x_l_sign:
                x_l_idx = c_idx
            else:
                x_r_idx = c_idx

            i += 1

        coordinates = self.coordinates_domain[i]

        # keep this evaluation: the final selection below must see every field that was evaluated
        self.calculated_temperatures[i] = self.calculate_excess(
            coordinates, self.sim_params.max_height, self.fieldDescriptors[i]
        )
        # Make sure the field being returned pertains to the index which is the
        # closest to 0 but also negative (the maximum of all 0 or negative
        # excess temperatures)
        keys = list(self.calculated_temperatures.keys())
        values = list(self.calculated_temperatures.values())

        # theoretically, the biggest negative value should be the field that is just undersized
        negative_excess_values = [v for v in values if v <= 0.0]
        excess_of_interest = max(negative_excess_values)

        # but some conditions don't yield this result
        # adding a check here to ensure we pick the smallest field with
        # negative excess temperature
        num_bh = [len(self.coordinates_domain[x]) for x in keys]
        selection_key = keys[values.index(excess_of_interest)]
        # carry the keys through the sort: looking the chosen excess up by value afterwards returns the
        # FIRST evaluated field with that value, which is the largest one when several fields tie
        # (e.g. a plateau where the lower limit binds at the undisturbed ground temperature)
        sorted_num_bh, sorted_values, sorted_keys = (list(t) for t in zip(*sorted(zip(num_bh, values, keys))))
        for _, val, key in zip(sorted_num_bh, sorted_values, sorted_keys):
            if val < 0:
                if excess_of_interest != val:
                    print(
                        'Loads resulted in odd behavior requiring the selected field configuration \n'
                        'to be reset to the smallest field with negative excess temperature. \n'
                        'Please forward the inputs to the developers for investigation.'
                    )
                excess_of_interest = val
                selection_key = key
                break

        self.initialize_ghe(
            self.coordinates_domain[selection_key], self.sim_params.max_height, self.fieldDescriptors[selection_key]
        )
        return selection_key, self.coordinates_domain[selection_key]


# This is the search algorithm used for finding row-wise fields
class RowWiseModifiedBisectionSearch:
    def __init__(
        self,
        v_flow: float,
        borehole: GHEBorehole,
        bhe_type: BHPipeType,
        fluid: GHEFluid,
        pipe: Pipe,
        grout: Grout,
        soil: Soil,
        sim_params: SimulationParameters,
        hourly_extraction_ground_loads: list,
        geometric_constraints,
        method: TimestepType,
        flow_type: FlowConfigType.BOREHOLE,
        max_iter: int = 10,
        disp: bool = False,
        search: bool = True,
        advanced_tracking: bool = True,
        field_type: str = "rowwise",
        load_years=None,
    ):
        # Take the lowest part of the coordinates domain to be used for the
        # initial setup
        if load_years is None:
            load_years = [2019]
        self.load_years = load_years
        self.fluid = fluid
        self.pipe = pipe
        self.grout = grout
        self.soil = soil
        self.borehole = borehole
        self.geometricConstraints = geometric_constraints
        self.searchTracker = []
        self.fieldType = field_type
        # Flow rate tracking
        self.V_flow = v_flow
        self.flow_type = flow_type
        self.method = method
        self.log_time = eskilson_log_times()
        self.bhe_type = bhe_type
        self.sim_params = sim_params
        self.hourly_extraction_ground_loads = hourly_extraction_ground_loads
        self.max_iter = max_iter
        self.disp = disp
        self.ghe: Optional[GHE] = None
        self.calculated_temperatures = {}
        if advanced_tracking:
            self.advanced_tracking = [["TargetSpacing", "Field Specifier", "nbh", "ExcessTemperature"]]
            self.checkedFields = []
        if search:
            self.selected_coordinates, self.selected_specifier = self.search()
            self.initialize_ghe(
                self.selected_coordinates, self.sim_params.max_height, field_specifier=self.selected_specifier
            )

    def retrieve_flow(self, coordinates, rho):
        if self.flow_type == FlowConfigType.BOREHOLE:
            v_flow_system = self.V_flow * len(coordinates)
            # Total fluid mass flow rate per borehole (kg/s)
            m_flow_borehole = self.V_flow / 1000.0 * rho
        elif self.flow_type == FlowConfigType.SYSTEM:
            v_flow_system = self.V_flow
            v_flow_borehole = self.V_flow / len(coordinates)
            m_flow_borehole = v_flow_borehole / 1000.0 * rho
        else:
            raise ValueError("The flow argument should be either `borehole`" "or `system`.")
        return v_flow_system, m_flow_borehole

    def initialize_ghe(self, coordinates, h, field_specifier="N/A"):
        v_flow_system, m_flow_borehole = self.retrieve_flow(coordinates, self.fluid.rho)

        self.borehole.H = h
        borehole = self.borehole
        fluid = self.fluid
        pipe = self.pipe
        grout = self.grout
        soil = self.soil

        b = borehole_spacing(borehole, coordinates)

        # Calculate a g-function for uniform inlet fluid temperature with
        # 8 unequal segments using the equivalent solver
        g_function = calc_g_func_for_multiple_lengths(
            b,
            [borehole.H],
            borehole.r_b,
            borehole.D,
            m_flow_borehole,
            self.bhe_type,
            self.log_time,
            coordinates,
            fluid,
            pipe,
            grout,
            soil,
        )

        # Initialize the GHE object
        self.ghe = GHE(
            v_flow_system,
            b,
            self.bhe_type,
            fluid,
            borehole,
            pipe,
            grout,
            soil,
            g_function,
            self.sim_params,
            self.hourly_extraction_ground_loads,
            field_type=self.fieldType,
            field_specifier=field_specifier,
            load_years=self.load_years,
        )

    def calculate_excess(self, coordinates, h, field_specifier="N/A"):
        self.initialize_ghe(coordinates, h, field_specifier=field_specifier)
        # Simulate after computing just one g-function
        max_hp_eft, min_hp_eft = self.ghe.simulate(method=self.method)
        t_excess = self.ghe.cost(max_hp_eft, min_hp_eft)
        self.searchTracker.append([field_specifier, t_excess, max_hp_eft, min_hp_eft])

        return t_excess

    def search(self):
        spacing_start = self.geometricConstraints.min_spacing
        spacing_stop = self.geometricConstraints.max_spacing
        spacing_step = self.geometricConstraints.spacing_step
        rotate_step = self.geometricConstraints.rotate_step
        prop_bound, ng_zones = gen_shape(
            self.geometricConstraints.property_boundary, self.geometricConstraints.no_go_boundaries
        )
        rotate_start = self.geometricConstraints.min_rotation
        rotate_stop = self.geometricConstraints.max_rotation
        perimeter_spacing_ratio = self.geometricConstraints.perimeter_spacing_ratio

        use_perimeter = perimeter_spacing_ratio is not None

        selected_coordinates = None
        selected_specifier = None
        selected_temp_excess = None
        selected_spacing = None

        # Check The Upper and Lower Bounds

        # Generate Fields
        if use_perimeter:
            upper_field, upper_field_specifier = field_optimization_wp_space_fr(
                perimeter_spacing_ratio,
                spacing_start,
                rotate_step,
                prop_bound,
                ng_zones=ng_zones,
                rotate_start=rotate_start,
                rotate_stop=rotate_stop,
            )
            lower_field, lower_field_specifier = field_optimization_wp_space_fr(
                perimeter_spacing_ratio,
                spacing_stop,
                rotate_step,
                prop_bound,
                ng_zones=ng_zones,
                rotate_start=rotate_start,
                rotate_stop=rotate_stop,
            )
        else:
            upper_field, upper_field_specifier = field_optimization_fr(
                spacing_start,
                rotate_step,
                prop_bound,
                ng_zones=ng_zones,
                rotate_start=rotate_start,
                rotate_stop=rotate_stop,
            )
            lower_field, lower_field_specifier = field_optimization_fr(
                spacing_stop,
                rotate_step,
                prop_bound,
                ng_zones=ng_zones,
                rotate_start=rotate_start,
                rotate_stop=rotate_stop,
            )

        # Get Excess Temperatures
        t_upper = self.calculate_excess(upper_field, self.sim_params.max_height, field_specifier=upper_field_specifier)
        t_lower = self.calculate_excess(lower_field, self.sim_params.max_height, field_specifier=lower_field_specifier)

        if self.advanced_tracking:
            self.advanced_tracking.append([spacing_start, upper_field_specifier, len(upper_field), t_upper])
            self.advanced_tracking.append([spacing_stop, lower_field_specifier, len(lower_field), t_lower])
            self.checkedFields.append(upper_field)
            self.checkedFields.append(lower_field)

        # If the excess temperature is >0 utilizing the largest field and largest depth, then notify the user that
        # the given constraints cannot find a satisfactory field.
        if t_upper > 0.0 and t_lower > 0.0:
            condition_msg = (
                "The optimal design requires more or deeper boreholes \n"
                "than what is possible based on the current design parameters. \n"
                "Consider increasing the available land area, \n"
                "increasing the maximum borehole depth, \n"
                "or decreasing the maximum borehole spacing."
            )
            print(condition_msg)
            if self.sim_params.continue_if_design_unmet:
                print("Largest available configuration selected.")
                return upper_field, upper_field_specifier
            else:
                raise ValueError("Search failed.")

        # If the excess temperature is > 0 when utilizing the largest field and depth but < 0 when using the largest
        # depth and smallest field, then fields should be searched between the two target depths.
        elif t_upper < 0.0 < t_lower:
            # This search currently works by doing a slightly modified bisection search where the "steps" are the set
            # by the "spacing_step" variable. The steps are used to check fields on either side of the field found by
            # doing a normal bisection search. These extra fields are meant to help prevent falling into local minima
            # (although this will still happen sometimes).
            i = 0
            spacing_high = spacing_start
            spacing_low = spacing_stop
            low_e = t_upper
            high_e = t_lower
            spacing_m = (spacing_stop + spacing_start) * 0.5
            while i < self.max_iter:
                print("Bisection Search Iteration: ", i)
                # Getting Three Middle Field
                if use_perimeter:
                    f1, f1_specifier = field_optimization_wp_space_fr(
                        perimeter_spacing_ratio,
                        spacing_m,
                        rotate_step,
                        prop_bound,
                        ng_zones=ng_zones,
                        rotate_start=rotate_start,
                        rotate_stop=rotate_stop,
                    )
                else:
                    f1, f1_specifier = field_optimization_fr(
                        spacing_m,
                        rotate_step,
                        prop_bound,
                        ng_zones=ng_zones,
                        rotate_start=rotate_start,
                        rotate_stop=rotate_stop,
                    )

                # Getting the three field's excess temperature
                t_e1 = self.calculate_excess(f1, self.sim_params.max_height, field_specifier=f1_specifier)

                if self.advanced_tracking:
                    self.advanced_tracking.append([spacing_m, f1_specifier, len(f1), t_e1])
                    self.checkedFields.append(f1)
                if t_e1 <= 0.0:
                    spacing_high = spacing_m
                    high_e = t_e1
                    selected_specifier = f1_specifier
                else:
                    spacing_low = spacing_m
                    low_e = t_e1

                spacing_m = (spacing_low + spacing_high) * 0.5
                error_tolerance = 1e-10
                if abs(low_e - high_e) < error_tolerance:
                    break

                i += 1

            # Now Check fields that have a higher target spacing to double-check that none of them would work:
            spacing_l = spacing_step + spacing_high
            target_spacings = []
            current_spacing = spacing_high

            # TODO: this was an argument, but was never used.
            exhaustive_fields_to_check = 10
            spacing_change = (spacing_l - current_spacing) / exhaustive_fields_to_check
            while current_spacing <= spacing_l:
                target_spacings.append(current_spacing)
                current_spacing += spacing_change
            best_field = None
            best_drilling = float("inf")
            best_excess = None
            best_spacing = None
            for ts in target_spacings:
                if use_perimeter:
                    field, f_s = field_optimization_wp_space_fr(
                        perimeter_spacing_ratio,
                        ts,
                        rotate_step,
                        prop_bound,
                        ng_zones=ng_zones,
                        rotate_start=rotate_start,
                        rotate_stop=rotate_stop,
                    )
                else:
                    field, f_s = field_optimization_fr(
                        ts,
                        rotate_step,
                        prop_bound,
                        ng_zones=ng_zones,
                        rotate_start=rotate_start,
                        rotate_stop=rotate_stop,
                    )

                t_e = self.calculate_excess(field, self.sim_params.max_height, field_specifier=f_s)

                if self.advanced_tracking:
                    self.advanced_tracking.append([ts, f_s, len(field), t_e])
                    self.checkedFields.append(field)

                self.initialize_ghe(field, self.sim_params.max_height, field_specifier=f_s)
                self.ghe.compute_g_functions()
                self.ghe.size(method=TimestepType.HYBRID)
                total_drilling = self.ghe.bhe.b.H * len(field)

                if best_field is None:
                    best_field = field
                    best_drilling = total_drilling
                    best_excess = t_e
                    best_spacing = ts
                elif t_e <= 0.0 and total_drilling < best_drilling:
                    best_drilling = total_drilling
                    best_field = field
                    best_excess = t_e
                    best_spacing = ts
            selected_coordinates = best_field
            selected_temp_excess = best_excess
            selected_spacing = best_spacing

        # If the excess temperature is < 0 when utilizing the largest depth and the smallest field, it is most likely
        # in the user's best interest to return a field smaller than the smallest one. This is done by removing
        # boreholes from the field.
        elif t_lower < 0.0 and t_upper < 0.0:
            original_coordinates = lower_field

            # Function For Sorting Boreholes Based on Proximity to a Point
            def point_sort(target_point, other_points, method="ascending"):
                def dist(o_p):
                    return sqrt(
                        (target_point[0] - o_p[0]) * (target_point[0] - o_p[0])
                        + (target_point[1] - o_p[1]) * (target_point[1] - o_p[1])
                    )

                distances = map(dist, other_points)
                if method == "ascending":
                    return [x for _, x in sorted(zip(distances, other_points))]
                elif method == "descending":
                    return [x for _, x in sorted(zip(distances, other_points), reverse=True)]

            # TODO: b_r_removal_method was an argument but it was never used
            # if b_r_removal_method == "CloseToCorner":
            starting_field = point_sort(original_coordinates[0], lower_field, method="descending")
            # elif b_r_removal_method == "CloseToPoint":
            #     starting_field = point_sort([0.0, 0.0], lower_field, method="descending")
            # elif b_r_removal_method == "FarFromPoint":
            #     starting_field = point_sort([0.0, 0.0], lower_field, method="ascending")
            # elif b_r_removal_method == "RowRemoval":
            #     starting_field = lower_field
            # else:
            #     msg = b_r_removal_method + " is not a valid method for removing boreholes."
            #     msg += "The valid methods are: CloseToCorner, CloseToPoint, FarFromPoint, and RowRemoval."
            #     raise ValueError(msg)

            # Check if a 1X1 field is satisfactory
            t_e_single = self.calculate_excess([[0, 0]], self.sim_params.max_height, field_specifier="1X1")

            if self.advanced_tracking:
                self.advanced_tracking.append(["N/A", "1X1", 1, t_e_single])
                self.checkedFields.append([[0, 0]])
            if t_e_single <= 0:
                selected_temp_excess = t_e_single
                selected_specifier = "1X1"
                selected_coordinates = starting_field[len(starting_field) - 1 :]
                selected_spacing = spacing_stop
            else:
                # Perform a bisection search between nbh values to find the smallest satisfactory field
                nbh_max = len(starting_field)
                nbh_min = 1
                nbh_start = nbh_max
                # continueLoop = True
                # highT_e = T_lower
                # the full field at the largest spacing meets the limits: it is the fallback when
                # no reduced field does
                selected_coordinates = lower_field
                selected_specifier = lower_field_specifier
                selected_temp_excess = t_lower
                selected_spacing = spacing_stop
                i = 0
                while i < self.max_iter:
                    nbh = (nbh_max + nbh_min) // 2
                    current_field = starting_field[nbh_start - nbh :]
                    f_s = lower_field_specifier + f"_BR{nbh_start - nbh}"
                    t_e = self.calculate_excess(current_field, self.sim_params.max_height, field_specifier=f_s)
                    if self.advanced_tracking:
                        self.advanced_tracking.append([spacing_stop, lower_field_specifier + "_" + str(nbh), nbh, t_e])
                        self.checkedFields.append(current_field)
                    if t_e <= 0.0:
                        # highT_e = T_e
                        nbh_max = nbh
                        selected_coordinates = current_field
                        selected_specifier = f_s
                        selected_temp_excess = t_e
                        selected_spacing = spacing_stop
                    else:
                        nbh_min = nbh
                    if (nbh_max - nbh_min) <= 1:
                        break
                    i += 1
        # If none of the options above have been true, then there is most likely an issue with the excess temperature
        # calculation.
        else:
            msg = (
                "There seems to be an issue calculating excess temperatures. Check that you have the correct \n"
                "package version. If this is a recurring issue, please contact the current package management for \n"
                "assistance."
            )
            raise ValueError(msg)
        if self.advanced_tracking:
            self.advanced_tracking.append(
                [
                    selected_spacing,
                    selected_specifier,
                    len(selected_coordinates),
                    selected_temp_excess,
                ]
            )
            self.checkedFields.append(selected_coordinates)
        return selected_coordinates, selected_specifier


class Bisection2D(Bisection1D):
    def __init__(
        self,
        coordinates_domain_nested: list,
        field_descriptors: list,
        v_flow: float,
        borehole: GHEBorehole,
        bhe_type,
        fluid: GHEFluid,
        pipe: Pipe,
        grout: Grout,
        soil: Soil,
        sim_params: SimulationParameters,
        hourly_extraction_ground_loads: list,
        method: TimestepType,
        flow_type: FlowConfigType.BOREHOLE,
        max_iter=15,
        disp=False,
        field_type="N/A",
        load_years=None,
    ):
        if load_years is None:
            load_years = [2019]
        if disp:
            print("Note: This routine requires a nested bisection search.")
        self.load_years = load_years
        # Get a coordinates domain for initialization
        coordinates_domain = coordinates_domain_nested[0]
        super().__init__(
            coordinates_domain,
            field_descriptors[0],
            v_flow,
            borehole,
            bhe_type,
            fluid,
            pipe,
            grout,
            soil,
            sim_params,
            hourly_extraction_ground_loads,
            method=method,
            flow_type=flow_type,
            max_iter=max_iter,
            disp=disp,
            search=False,
            field_type=field_type,
            load_years=load_years,
        )

        self.coordinates_domain_nested = []
        self.calculated_temperatures_nested = []
        # Tack on one borehole at the beginning to provide a high excess temperature
        outer_domain = [coordinates_domain_nested[0][0]]
        for cdn in coordinates_domain_nested:
            outer_domain.append(cdn[-1])

        self.coordinates_domain = outer_domain

        selection_key, _ = self.search()

        self.calculated_temperatures_nested.append(self.calculated_temperatures)

        # We tacked on one borehole to the beginning, so we need to subtract 1
        # on the index
        inner_domain = coordinates_domain_nested[selection_key - 1]
        self.coordinates_domain = inner_domain
        self.fieldDescriptors = field_descriptors[selection_key - 1]

        # Reset calculated temperatures
        self.calculated_temperatures = {}

        self.selection_key, self.selected_coordinates = self.search()


class BisectionZD(Bisection1D):
    def __init__(
        self,
        coordinates_domain_nested: list,
        field_descriptors: list,
        v_flow: float,
        borehole: GHEBorehole,
        bhe_type,
        fluid: GHEFluid,
        pipe: Pipe,
        grout: Grout,
        soil: Soil,
        sim_params: SimulationParameters,
        hourly_extraction_ground_loads: list,
        method: TimestepType,
        flow_type: FlowConfigType.BOREHOLE,
        max_iter=15,
        disp=False,
        field_type="N/A",
        load_years=None,
    ):
        if load_years is None:
            load_years = [2019]
        if disp:
            print("Note: This design routine currently requires several bisection searches.")

        # Get a coordinates domain for initialization
        coordinates_domain = coordinates_domain_nested[0]
        super().__init__(
            coordinates_domain,
            field_descriptors[0],
            v_flow,
            borehole,
            bhe_type,
            fluid,
            pipe,
            grout,
            soil,
            sim_params,
            hourly_extraction_ground_loads,
            method=method,
            flow_type=flow_type,
            max_iter=max_iter,
            disp=disp,
            search=False,
            field_type=field_type,
            load_years=load_years,
        )

        self.coordinates_domain_nested = coordinates_domain_nested
        self.nested_fieldDescriptors = field_descriptors
        self.calculated_temperatures_nested = {}
        # Tack on one borehole at the beginning to provide a high excess
        # temperature
        outer_domain = [coordinates_domain_nested[0][0]]
        outer_descriptors = [field_descriptors[0][0]]
        for cdn, fd in zip(coordinates_domain_nested, field_descriptors):
            outer_domain.append(cdn[-1])
            outer_descriptors.append(fd[-1])

        self.coordinates_domain = outer_domain
        self.fieldDescriptors = outer_descriptors

        self.selection_key_outer, _ = self.search()
        if self.selection_key_outer > 0:
            self.selection_key_outer -= 1
        self.calculated_heights = {}
        self.selected_keys_nested = {}

        self.selection_key, self.selected_coordinates = self.search_successive()

    def search_successive(self, max_iter=None):
        if max_iter is None:
            max_iter = self.selection_key_outer + 7

        i = self.selection_key_outer

        old_height = 99999

        while i < len(self.coordinates_domain_nested) and i < max_iter:
            self.coordinates_domain = self.coordinates_domain_nested[i]
            self.fieldDescriptors = self.nested_fieldDescriptors[i]
            self.calculated_temperatures = {}
            try:
                selection_key, selected_coordinates = self.search()
            except ValueError:
                break
            self.calculated_temperatures_nested[i] = self.calculated_temperatures
            self.selected_keys_nested[i] = selection_key

            self.ghe.compute_g_functions()
            self.ghe.size(method=TimestepType.HYBRID)

            nbh = len(selected_coordinates)
            total_drilling = nbh * self.ghe.bhe.b.H
            self.calculated_heights[i] = total_drilling

            if old_height < total_drilling:
                break
            else:
                old_height = total_drilling

            i += 1

        keys = list(self.calculated_heights.keys())
        values = list(self.calculated_heights.values())

        minimum_total_drilling = min(values)
        idx = values.index(minimum_total_drilling)
        selection_key_outer = keys[idx]
        self.calculated_temperatures = self.calculated_temperatures_nested[selection_key_outer]

        # the field the search of that list selected: the smallest evaluated field that meets the
        # limits, or the continue_if_design_unmet fallback (re-deriving it as "largest non-positive
        # excess" picked larger fields for non-monotone excess and raised on the fallback)
        selection_key = self.selected_keys_nested[selection_key_outer]
        selected_coordinates = self.coordinates_domain_nested[selection_key_outer][selection_key]

        self.initialize_ghe(
            selected_coordinates,
            self.sim_params.max_height,
            field_specifier=self.nested_fieldDescriptors[selection_key_outer][selection_key],
        )
        self.ghe.compute_g_functions()
        self.ghe.size(method=TimestepType.HYBRID)

        return selection_key, selected_coordinates
