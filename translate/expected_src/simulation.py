class SimulationParameters:
    def __init__(
        self,
        start_month,
        end_month,
        max_entering_fluid_temp_allow,
        min_entering_fluid_temp_allow,
        max_height,
        min_height,
        max_boreholes=None,
        continue_if_design_unmet=False,
    ):
        # Simulation parameters not found in other objects
        # ------------------------------------------------
        # Simulation start month and end month
        self.start_month = start_month
        self.end_month = end_month
        # Maximum and minimum allowable fluid temperatures
        self.max_EFT_allowable = max_entering_fluid_temp_allow  # degrees Celsius
        self.min_EFT_allowable = min_entering_fluid_temp_allow  # degrees Celsius
        # Maximum and minimum allowable heights
        self.max_height = max_height  # in meters
        self.min_height = min_height  # in meters
        self.max_boreholes = max_boreholes
        self.continue_if_design_unmet = continue_if_design_unmet

    def as_dict(self) -> dict:
        output = {}
        output['type'] = str(self.__class__)
        output['start_month'] = self.start_month
        output['end_month'] = self.end_month
        output['max_eft_allowable'] = {'value': self.max_EFT_allowable, 'units': 'C'}
        output['min_eft_allowable'] = {'value': self.min_EFT_allowable, 'units': 'C'}
        output['maximum_height'] = {'value': self.max_height, 'units': 'm'}
        output['minimum_height'] = {'value': self.min_height, 'units': 'm'}

        if self.max_boreholes is not None:
            output['maximum_boreholes'] = {'value': self.max_boreholes, 'units': '-'}
        return output

    def to_input(self) -> dict:
        return {'num_months': self.end_month}
