from math import ceil, floor

import numpy as np
from scipy.interpolate import interp1d

from ghedesigner import VERSION
from ghedesigner.borehole import GHEBorehole
from ghedesigner.borehole_heat_exchangers import get_bhe_object
from ghedesigner.constants import SEC_IN_HR, TWO_PI
from ghedesigner.enums import BHPipeType, TimestepType
from ghedesigner.gfunction import GFunction, calc_g_func_for_multiple_lengths
from ghedesigner.ground_loads import HybridLoad
from ghedesigner.media import Grout, Pipe, Soil
from ghedesigner.radial_numerical_borehole import RadialNumericalBH
from ghedesigner.simulation import SimulationParameters
from ghedesigner.utilities import solve_root


class BaseGHE:
    def __init__(
        self,
        v_flow_system: float,
        b_spacing: float,
        bhe_type: BHPipeType,
        fluid,
        borehole: GHEBorehole,
        pipe: Pipe,
        grout: Grout,
        soil: Soil,
        g_function: GFunction,
        sim_params: SimulationParameters,
        hourly_extraction_ground_loads: list,
        field_type="N/A",
        field_specifier="N/A",
    ):
        self.fieldType = field_type
        self.fieldSpecifier = field_specifier
        self.V_flow_system = v_flow_system
        self.B_spacing = b_spacing
        self.nbh = len(g_function.bore_locations)
        self.V_flow_borehole = self.V_flow_system / self.nbh
        m_flow_borehole = self.V_flow_borehole / 1000.0 * fluid.rho
        self.m_flow_borehole = m_flow_borehole

        # Borehole Heat Exchanger
        self.bhe_type = bhe_type
        self.bhe = get_bhe_object(bhe_type, m_flow_borehole, fluid, borehole, pipe, grout, soil)

        # Equivalent borehole Heat Exchanger
        self.bhe_eq = self.bhe.to_single()

        # Radial numerical short time step
        self.radial_numerical = RadialNumericalBH(self.bhe_eq)
        self.radial_numerical.calc_sts_g_functions(self.bhe_eq)

        # gFunction object
        self.gFunction = g_function
        # Additional simulation parameters
        self.sim_params = sim_params
        # Hourly ground extraction loads
        # Building cooling is negative, building heating is positive
        self.hourly_extraction_ground_loads = hourly_extraction_ground_loads
        self.times = []
        self.loading = None

    def as_dict(self) -> dict:
        output = {}
        output['title'] = f"GHEDesigner GHE Output - Version {VERSION}"
        output['number_of_boreholes'] = len(self.gFunction.bore_locations)
        output['borehole_depth'] = {'value': self.bhe.b.H, 'units': 'm'}
        output['borehole_spacing'] = {'value': self.B_spacing, 'units': 'm'}
        output['borehole_heat_exchanger'] = self.bhe.as_dict()
        output['equivalent_borehole_heat_exchanger'] = self.bhe_eq.as_dict()
        output['simulation_parameters'] = self.sim_params.as_dict()
        return output

    @staticmethod
    def combine_sts_lts(log_time_lts: list, g_lts: list, log_time_sts: list, g_sts: list) -> interp1d:
        # make sure the short time step doesn't overlap with the long time step
        max_log_time_sts = max(log_time_sts)
        min_log_time_lts = min(log_time_lts)

        if max_log_time_sts < min_log_time_lts:
            log_time = log_time_sts + log_time_lts
            g = g_sts + g_lts
        else:
            # find where to stop in sts
            i = 0
            value = log_time_sts[i]
            while value <= min_log_time_lts:
                i += 1
                value = log_time_sts[i]
            log_time = log_time_sts[0:i] + log_time_lts
            g = g_sts[0:i] + g_lts
        g = interp1d(log_time, g)

        return g

    def grab_g_function(self, b_over_h):
        # interpolate for the Long time step g-function
        g_function, rb_value, _, _ = self.gFunction.g_function_interpolation(b_over_h)
        # correct the long time step for borehole radius
        g_function_corrected = self.gFunction.borehole_radius_correction(g_function, rb_value, self.bhe.b.r_b)
        # Don't Update the HybridLoad (its dependent on the STS) because
        # it doesn't change the results much, and it slows things down a lot
        # combine the short and long time step g-function
        g = self.combine_sts_lts(
            self.gFunction.log_time,
            g_function_corrected,
            self.radial_numerical.lntts.tolist(),
            self.radial_numerical.g.tolist(),
        )

        g_bhw = self.combine_sts_lts(
            self.gFunction.log_time,
            g_function_corrected,
            self.radial_numerical.lntts.tolist(),
            self.radial_numerical.g_bhw.tolist(),
        )

        return g, g_bhw

    def cost(self, max_eft, min_eft):
        delta_t_max = max_eft - self.sim_params.max_EFT_allowable
        delta_t_min = self.sim_params.min_EFT_allowable - min_eft
        t_excess = max(delta_t_max, delta_t_min)
        return t_excess

    def _simulate_detailed(self, q_dot: np.ndarray, time_values: np.ndarray, g: interp1d):
        # Perform a detailed simulation based on a numpy array of heat rejection
        # rates, Q_dot (Watts) where each load is applied at the time_value
        # (seconds). The g-function can interpolate.
        # Source: Chapter 2 of Advances in Ground Source Heat Pumps

        n = q_dot.size

        # Convert the total load applied to the field to the average over
        # borehole wall rejection rate
        # At time t=0, make the heat rejection rate 0.
        q_dot_b = np.hstack((0.0, q_dot / float(self.nbh)))
        time_values = np.hstack((0.0, time_values))

        q_dot_b_dt = np.hstack(q_dot_b[1:] - q_dot_b[:-1])

        ts = self.radial_numerical.t_s  # (-)
        two_pi_k = TWO_PI * self.bhe.soil.k  # (W/m.K)
        h = self.bhe.b.H  # (meters)
        tg = self.bhe.soil.ugt  # (Celsius)
        rb = self.bhe.calc_effective_borehole_resistance()  # (m.K/W)
        m_dot = self.bhe.m_flow_borehole  # (kg/s)
        cp = self.bhe.fluid.cp  # (J/kg.s)

        hp_eft = []
        delta_tb = []
        for i in range(1, n + 1):
            # Take the last i elements of the reversed time array
            _time = time_values[i] - time_values[0:i]
            # _time = time_values_reversed[n - i:n]
            g_values = g(np.log((_time * SEC_IN_HR) / ts))
            # Tb = Tg + (q_dt * g)  (Equation 2.12)
            delta_tb_i = (q_dot_b_dt[0:i] / h / two_pi_k).dot(g_values)
            # Tf = Tb + q_i * R_b^* (Equation 2.13)
            tb = tg + delta_tb_i
            # Bulk fluid temperature
            tf_bulk = tb + q_dot_b[i] / h * rb
            # T_out = T_f - Q / (2 * m_dot cp)  (Equation 2.14)
            tf_out = tf_bulk - q_dot_b[i] / (2 * m_dot * cp)
            hp_eft.append(tf_out)
            delta_tb.append(delta_tb_i)

        return hp_eft, delta_tb

    def compute_g_functions(self):
        # Compute g-functions for a bracketed solution, based on min and max
        # height
        min_height = self.sim_params.min_height
        max_height = self.sim_params.max_height
        avg_height = (min_height + max_height) / 2.0
        h_values = [min_height, avg_height, max_height]

        coordinates = self.gFunction.bore_locations
        log_time = self.gFunction.log_time

        g_function = calc_g_func_for_multiple_lengths(
            self.B_spacing,
            h_values,
            self.bhe.b.r_b,
            self.bhe.b.D,
            self.bhe.m_flow_borehole,
            self.bhe_type,
            log_time,
            coordinates,
            self.bhe.fluid,
            self.bhe.pipe,
            self.bhe.grout,
            self.bhe.soil,
        )

        self.gFunction = g_function


class GHE(BaseGHE):
    def __init__(
        self,
        v_flow_system: float,
        b_spacing: float,
        bhe_type: BHPipeType,
        fluid,
        borehole: GHEBorehole,
        pipe: Pipe,
        grout: Grout,
        soil: Soil,
        g_function: GFunction,
        sim_params: SimulationParameters,
        hourly_extraction_ground_loads: list,
        field_type="N/A",
        field_specifier="N/A",
        load_years=None,
    ):
        BaseGHE.__init__(
            self,
            v_flow_system,
            b_spacing,
            bhe_type,
            fluid,
            borehole,
            pipe,
            grout,
            soil,
            g_function,
            sim_params,
            hourly_extraction_ground_loads,
            field_type=field_type,
            field_specifier=field_specifier,
        )

        # Split the extraction loads into heating and cooling for input to
        # the HybridLoad object
        if load_years is None:
            load_years = [2019]

        hybrid_load = HybridLoad(
            self.hourly_extraction_ground_loads, self.bhe_eq, self.radial_numerical, sim_params, years=load_years
        )

        # hybrid load object
        self.hybrid_load = hybrid_load

        # List of heat pump exiting fluid temperatures
        self.hp_eft = []
        # list of change in borehole wall temperatures
        self.dTb = []

    def as_dict(self) -> dict:
        output = {}
        output['base'] = super().as_dict()

        results = {}
        if len(self.hp_eft) > 0:
            max_hp_eft = max(self.hp_eft)
            min_hp_eft = min(self.hp_eft)
            results['max_hp_entering_temp'] = {'value': max_hp_eft, 'units': 'C'}
            results['min_hp_entering_temp'] = {'value': min_hp_eft, 'units': 'C'}
            t_excess = self.cost(max_hp_eft, min_hp_eft)
            results['excess_fluid_temperature'] = {'value': t_excess, 'units': 'C'}
        results['peak_load_analysis'] = self.hybrid_load.as_dict()

        g_function = {}
        g_function['coordinates (x[m], y[m])'] = list(self.gFunction.bore_locations)  # TODO: Verify form
        b_over_h = self.B_spacing / self.bhe.b.H
        g, _ = self.grab_g_function(b_over_h)
        total_g_values = g.x.size
        number_lts_g_values = 27
        number_sts_g_values = 50
        sts_step_size = floor((total_g_values - number_lts_g_values) / number_sts_g_values)
        lntts = []
        g_values = []
        for idx in range(0, (total_g_values - number_lts_g_values), sts_step_size):
            lntts.append(g.x[idx].tolist())
            g_values.append(g.y[idx].tolist())
        lntts += g.x[total_g_values - number_lts_g_values : total_g_values].tolist()
        g_values += g.y[total_g_values - number_lts_g_values : total_g_values].tolist()
        pairs = zip(lntts, g_values)
        for lntts_val, g_val in pairs:
            output += f"{lntts_val:0.4f}\t{g_val:0.4f}"
        g_function['lntts, g'] = [*pairs]

        results['g_function_information'] = g_function
        output['simulation_results'] = results

        return output

    def simulate(self, method: TimestepType):
        b = self.B_spacing
        b_over_h = b / self.bhe.b.H

        # Solve for equivalent single U-tube
        self.bhe_eq = self.bhe.to_single()
        # Update short time step object with equivalent single u-tube
        self.radial_numerical.calc_sts_g_functions(self.bhe_eq)
        # Combine the short and long-term g-functions. The long term g-function
        # is interpolated for specific B/H and rb/H values.
        g, _ = self.grab_g_function(b_over_h)

        if method == TimestepType.HYBRID:
            q_dot = self.hybrid_load.load[2:] * 1000.0  # convert to Watts
            time_values = self.hybrid_load.hour[2:]  # convert to seconds
            self.times = time_values
            self.loading = q_dot

            hp_eft, d_tb = self._simulate_detailed(q_dot, time_values, g)
        elif method == TimestepType.HOURLY:
            n_months = self.sim_params.end_month - self.sim_params.start_month + 1
            n_hours = int(n_months / 12.0 * 8760.0)
            q_dot = self.hourly_extraction_ground_loads
            # How many times does q need to be repeated?
            n_years = ceil(n_hours / 8760)
            if len(q_dot) // 8760 < n_years:
                # repeat the loads over the horizon; a horizon that is not a whole number of years
                # (or of copies of the list) ends inside the last copy
                q_dot = (q_dot * n_years)[:n_hours]
            else:
                n_hours = len(q_dot)
            q_dot = -1.0 * np.array(q_dot)  # Convert loads to rejection
            # print("Times:",self.times)
            # always rebuild the hourly axis: an earlier hybrid simulation leaves its own in self.times
            self.times = np.arange(1, n_hours + 1, 1)
            t = self.times
            self.loading = q_dot

            hp_eft, d_tb = self._simulate_detailed(q_dot, t, g)
        else:
            raise ValueError("Only hybrid or hourly methods available.")

        self.hp_eft = hp_eft
        self.dTb = d_tb

        return max(hp_eft), min(hp_eft)

    def size(self, method: TimestepType) -> None:
        # Size the ground heat exchanger
        def local_objective(h):
            self.bhe.b.H = h
            max_hp_eft, min_hp_eft = self.simulate(method=method)
            t_excess = self.cost(max_hp_eft, min_hp_eft)
            return t_excess

        # Make the initial guess variable the average of the heights given
        self.bhe.b.H = (self.sim_params.max_height + self.sim_params.min_height) / 2.0
        # bhe.b.H is updated during sizing
        returned_height = solve_root(
            self.bhe.b.H,
            local_objective,
            lower=self.sim_params.min_height,
            upper=self.sim_params.max_height,
            abs_tol=1.0e-6,
            rel_tol=1.0e-6,
            max_iter=50,
        )

        self.bhe.b.H = returned_height
        # the solver's last evaluation is in general not at the returned height (never when it
        # clamps to the lower bound): leave the simulated temperatures consistent with it
        self.simulate(method=method)
