from abc import abstractmethod

from ghedesigner.constants import RAD_TO_DEG
from ghedesigner.enums import DesignGeomType


class GeometricConstraints:
    def __init__(self):
        self.type = None

    @abstractmethod
    def to_input(self):
        pass


class GeometricConstraintsNearSquare(GeometricConstraints):
    """
    Geometric constrains for near square design algorithm
    """

    def __init__(self, b: float, length: float):
        super().__init__()
        self.b = b
        self.length = length
        self.type = DesignGeomType.NEARSQUARE

    def to_input(self) -> dict:
        return {'length': self.length, 'b': self.b, 'method': DesignGeomType.NEARSQUARE.name}


class GeometricConstraintsRectangle(GeometricConstraints):
    """
    Geometric constraints for rectangular design algorithm
    """

    def __init__(self, width: float, length: float, b_min: float, b_max_x: float):
        super().__init__()
        self.width = width
        self.length = length
        self.b_min = b_min
        self.b_max_x = b_max_x
        self.type = DesignGeomType.RECTANGLE

    def to_input(self) -> dict:
        return {
            'length': self.length,
            'width': self.width,
            'b_min': self.b_min,
            'b_max': self.b_max_x,
            'method': DesignGeomType.RECTANGLE.name,
        }


class GeometricConstraintsBiRectangle(GeometricConstraints):
    """
    Geometric constraints for bi-rectangle design algorithm
    """

    def __init__(self, width: float, length: float, b_min: float, b_max_x: float, b_max_y: float):
        super().__init__()
        self.width = width
        self.length = length
        self.b_min = b_min
        self.b_max_x = b_max_x
        self.b_max_y = b_max_y
        self.type = DesignGeomType.BIRECTANGLE

    def to_input(self) -> dict:
        return {
            'length': self.length,
            'width': self.width,
            'b_min': self.b_min,
            'b_max_x': self.b_max_x,
            'b_max_y': self.b_max_y,
            'method': DesignGeomType.BIRECTANGLE.name,
        }


class GeometricConstraintsBiRectangleConstrained(GeometricConstraints):
    """
    Geometric constraints for bi-rectangle constrained design algorithm
    """

    def __init__(self, b_min: float, b_max_x: float, b_max_y: float, property_boundary, no_go_boundaries):
        super().__init__()
        self.b_min = b_min
        self.b_max_x = b_max_x
        self.b_max_y = b_max_y

        if len(no_go_boundaries) > 0 and isinstance(no_go_boundaries[0][0], (int, float)):
            self.no_go_boundaries = [no_go_boundaries]
        else:
            self.no_go_boundaries = no_go_boundaries

        if len(property_boundary) > 0 and isinstance(property_boundary[0][0], (int, float)):
            self.property_boundary = [property_boundary]
        else:
            self.property_boundary = property_boundary

        self.type = DesignGeomType.BIRECTANGLECONSTRAINED

    def to_input(self) -> dict:
        return {
            'b_min': self.b_min,
            'b_max_x': self.b_max_x,
            'b_max_y': self.b_max_y,
            'property_boundary': self.property_boundary,
            'no_go_boundaries': self.no_go_boundaries,
            'method': DesignGeomType.BIRECTANGLECONSTRAINED.name,
        }


class GeometricConstraintsBiZoned(GeometricConstraintsBiRectangle):
    """
    Geometric constraints for bi-zoned design algorithm
    """

    def __init__(self, width: float, length: float, b_min: float, b_max_x: float, b_max_y: float):
        super().__init__(width, length, b_min, b_max_x, b_max_y)
        self.type = DesignGeomType.BIZONEDRECTANGLE

    def to_input(self) -> dict:
        return {
            'length': self.length,
            'width': self.width,
            'b_min': self.b_min,
            'b_max_x': self.b_max_x,
            'b_max_y': self.b_max_y,
            'method': DesignGeomType.BIZONEDRECTANGLE.name,
        }


class GeometricConstraintsRowWise(GeometricConstraints):
    """
    Geometric constraints for rowwise design algorithm
    """

    def __init__(
        self,
        perimeter_spacing_ratio: float,
        min_spacing: float,
        max_spacing: float,
        spacing_step: float,
        min_rotation: float,
        max_rotation: float,
        rotate_step: float,
        property_boundary,
        no_go_boundaries,
        min_rotation_deg=None,
        max_rotation_deg=None,
    ):
        super().__init__()
        self.perimeter_spacing_ratio = perimeter_spacing_ratio
        self.min_spacing = min_spacing
        self.max_spacing = max_spacing
        self.spacing_step = spacing_step
        self.min_rotation = min_rotation
        self.max_rotation = max_rotation
        # rotations as the user gave them (degrees); radians -> degrees does not round-trip exactly
        self.min_rotation_deg = min_rotation * RAD_TO_DEG if min_rotation_deg is None else min_rotation_deg
        self.max_rotation_deg = max_rotation * RAD_TO_DEG if max_rotation_deg is None else max_rotation_deg
        self.rotate_step = rotate_step
        self.property_boundary = property_boundary
        self.no_go_boundaries = no_go_boundaries
        self.type = DesignGeomType.ROWWISE

    def to_input(self) -> dict:
        d = {
            'min_spacing': self.min_spacing,
            'max_spacing': self.max_spacing,
            'spacing_step': self.spacing_step,
            'min_rotation': self.min_rotation_deg,
            'max_rotation': self.max_rotation_deg,
            'rotate_step': self.rotate_step,
            'property_boundary': self.property_boundary,
            'no_go_boundaries': self.no_go_boundaries,
            'method': DesignGeomType.ROWWISE.name,
        }
        # optional: the key is left out (not written as null) when no perimeter spacing is used
        if self.perimeter_spacing_ratio is not None:
            d['perimeter_spacing_ratio'] = self.perimeter_spacing_ratio
        return d
