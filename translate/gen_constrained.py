"""Plug-in of translate/gen.py for C04: regenerate lean/GHEVerif/Gen/Constrained.lean from
ghedesigner/feature_recognition.py (`remove_cutout`, `determine_largest_rectangle`),
domains.py (`polygonal_land_constraint`, `reorder_domain`) and geometry.py
(`GeometricConstraintsBiRectangleConstrained.__init__`).

*Translated* (a change of the source changes the Lean definition the theorems of Props/C04.lean
are about):
  * remove_cutout: the two keep conditions (boolean expressions over `inside in boundary_results`,
    `on_edge in boundary_results`, `keep_contour`), the values of `inside` / `on_edge`, the
    defaults of `remove_inside` / `keep_contour`;
  * polygonal_land_constraint: the default `keep_contour=[True, False]`, and for each of the two
    `remove_cutout` calls the literal `remove_inside=…` and the index `keep_contour[…]`.
*Pinned* (compared with a reference AST, placeholders at the translated places; any difference
stops the translator with `translator-unsupported`, which the harness reports as a broken tie):
the statement skeletons of remove_cutout and polygonal_land_constraint (bounding rectangle from
`max(x)` / `max(y)`, the `len(...) == 0: continue` statements, the `len(no_go_boundaries) > 0`
guard, the reorder loop), all of determine_largest_rectangle, reorder_domain and the geometry
constructor.
"""
from __future__ import annotations

import ast
import copy

from py2lean import Unsupported, find_function

REF_REMOVE_CUTOUT = '''
def remove_cutout(coordinates, boundaries, remove_inside=D_RI, keep_contour=D_KC, on_edge_tolerance=D_TOL):
    if isinstance(boundaries[0][0], (int, float)):
        boundaries = [boundaries]

    new_coordinates = []
    inside = V_INSIDE
    on_edge = V_ONEDGE
    for coordinate in coordinates:
        boundary_results = []
        for boundary in boundaries:
            boundary_results.append(point_polygon_check(boundary, coordinate, on_edge_tolerance=on_edge_tolerance))
        if remove_inside:
            if COND_REMOVE:
                new_coordinates.append(coordinate)
        elif COND_KEEP:
            new_coordinates.append(coordinate)

    return new_coordinates
'''

REF_LARGEST_RECTANGLE = '''
def determine_largest_rectangle(property_boundary):
    x_max = float('-inf')
    y_max = float('-inf')
    x_min = float('inf')
    y_min = float('inf')
    for bf_outline in property_boundary:
        for x, y in bf_outline:
            x_max = max(x, x_max)
            y_max = max(y, y_max)
            x_min = min(x, x_min)
            y_min = min(y, y_min)

    rectangle = [[x_min, y_min], [x_max, y_min], [x_max, y_max], [x_min, y_max], [x_min, y_min]]

    return rectangle
'''

REF_PLC = '''
def polygonal_land_constraint(
    b_min, b_max_x, b_max_y, property_boundary, no_go_boundaries=None, keep_contour=D_KCLIST
):
    if no_go_boundaries is None:
        no_go_boundaries = []

    outer_rectangle = determine_largest_rectangle(property_boundary)

    x, y = list(zip(*outer_rectangle))
    length = max(x)
    width = max(y)
    coordinates_domain_nested, field_descriptors = bi_rectangle_nested(length, width, b_min, b_max_x, b_max_y)

    coordinates_domain_nested_cutout = []

    for domain in coordinates_domain_nested:
        new_coordinates_domain = []
        for coordinates in domain:
            new_coordinates = remove_cutout(
                coordinates, property_boundary, remove_inside=P_RI, keep_contour=keep_contour[P_IDX]
            )
            if len(new_coordinates) == 0:
                continue
            if len(no_go_boundaries) > 0:
                new_coordinates = remove_cutout(
                    new_coordinates, no_go_boundaries, remove_inside=N_RI, keep_contour=keep_contour[N_IDX]
                )
            if len(new_coordinates) == 0:
                continue
            new_coordinates_domain.append(new_coordinates)
        coordinates_domain_nested_cutout.append(new_coordinates_domain)

    coordinates_domain_nested_cutout_reordered = []
    field_descriptors_reordered = []
    for idx, domain in enumerate(coordinates_domain_nested_cutout):
        domain_reordered, f_d_reordered = reorder_domain(domain, field_descriptors[idx])
        coordinates_domain_nested_cutout_reordered.append(domain_reordered)
        field_descriptors_reordered.append(f_d_reordered)

    return coordinates_domain_nested_cutout_reordered, field_descriptors_reordered
'''

REF_REORDER = '''
def reorder_domain(domain, descriptors):
    return zip(*sorted(zip(domain, descriptors), key=lambda x: len(x[0])))
'''

REF_GEOM_INIT = '''
def __init__(self, b_min: float, b_max_x: float, b_max_y: float, property_boundary, no_go_boundaries):
    super().__init__()
    self.b_min = b_min
    self.b_max_x = b_max_x
    self.b_max_y = b_max_y

    if len(no_go_boundaries) > 0 and isinstance(no_go_boundaries[0][0], (int, float)):
        self.no_go_boundaries = [no_go_boundaries]
    else:
        self.no_go_boundaries = no_go_boundaries

    if len(property_boundary) > 0 and isinstance(property_boundary[0][0], (int, float)):
        self.property_boundary = [property_boundary]
    else:
        self.property_boundary = property_boundary

    self.type = DesignGeomType.BIRECTANGLECONSTRAINED
'''


def _strip_doc(fn):
    fn = copy.deepcopy(fn)
    if fn.body and isinstance(fn.body[0], ast.Expr) and isinstance(fn.body[0].value, ast.Constant) \
            and isinstance(fn.body[0].value.value, str):
        fn.body = fn.body[1:]
    fn.decorator_list = []
    return fn


def _same(fn, ref_text, file, what):
    ref = ast.parse(ref_text.strip()).body[0]
    if ast.dump(_strip_doc(fn)) != ast.dump(ref):
        raise Unsupported(file, fn, f"{what} differs from the modelled form")


def _lit(node, file, types, what):
    try:
        v = ast.literal_eval(node)
    except Exception:
        raise Unsupported(file, node, f"{what} is not a literal")
    if not isinstance(v, types) or (bool not in (types if isinstance(types, tuple) else (types,)) and isinstance(v, bool)):
        raise Unsupported(file, node, f"{what} has an unexpected type")
    return v


def _b(v):
    return "true" if v else "false"


class _Subst(ast.NodeTransformer):
    """Replace given nodes (by identity) with placeholder names."""

    def __init__(self, table):
        self.table = table

    def generic_visit(self, node):
        for field, old in ast.iter_fields(node):
            if isinstance(old, list):
                new = []
                for v in old:
                    if isinstance(v, ast.AST):
                        new.append(self.table[id(v)] if id(v) in self.table else self.generic_visit(v))
                    else:
                        new.append(v)
                old[:] = new
            elif isinstance(old, ast.AST):
                setattr(node, field, self.table[id(old)] if id(old) in self.table else self.generic_visit(old))
        return node


def _name(s):
    return ast.Name(id=s, ctx=ast.Load())


def _cond_to_lean(node, file):
    """Boolean expression over membership of inside/on_edge in boundary_results and keep_contour."""
    if isinstance(node, ast.BoolOp):
        op = " && " if isinstance(node.op, ast.And) else " || "
        return "(" + op.join(_cond_to_lean(v, file) for v in node.values) + ")"
    if isinstance(node, ast.UnaryOp) and isinstance(node.op, ast.Not):
        return "(!" + _cond_to_lean(node.operand, file) + ")"
    if isinstance(node, ast.Name) and node.id == "keep_contour":
        return "keepContour"
    if isinstance(node, ast.Compare) and len(node.ops) == 1 and isinstance(node.left, ast.Name) \
            and isinstance(node.comparators[0], ast.Name) and node.comparators[0].id == "boundary_results" \
            and node.left.id in ("inside", "on_edge") and isinstance(node.ops[0], (ast.In, ast.NotIn)):
        v = "hasInside" if node.left.id == "inside" else "hasEdge"
        return v if isinstance(node.ops[0], ast.In) else f"(!{v})"
    raise Unsupported(file, node, "remove_cutout: keep condition outside the translated subset")


def main(write, HEADER, parse, PKG):
    out = [HEADER.format(src="feature_recognition.py (remove_cutout, determine_largest_rectangle), domains.py "
                             "(polygonal_land_constraint, reorder_domain), geometry.py (GeometricConstraintsBiRectangleConstrained)"),
           "import GHEVerif.Model.Py\nnamespace GHEVerif.Gen\nopen GHEVerif\n"]

    # ------------------------------------------------------------------ remove_cutout
    F = "feature_recognition.py"
    fr = parse(F)
    rc = find_function(fr, "remove_cutout")
    if rc is None:
        raise Unsupported(F, fr, "remove_cutout not found")
    rc = _strip_doc(rc)
    try:
        d_ri, d_kc, d_tol = rc.args.defaults
        a_inside, a_onedge = rc.body[2], rc.body[3]
        loop = rc.body[4]
        if_ri = loop.body[2]
        cond_remove = if_ri.body[0].test
        cond_keep = if_ri.orelse[0].test
    except Exception:
        raise Unsupported(F, rc, "remove_cutout: statement skeleton changed")
    v_ri = _lit(d_ri, F, bool, "default of remove_inside")
    v_kc = _lit(d_kc, F, bool, "default of keep_contour")
    v_inside = _lit(a_inside.value, F, int, "inside")
    v_onedge = _lit(a_onedge.value, F, int, "on_edge")
    lean_remove = _cond_to_lean(cond_remove, F)
    lean_keep = _cond_to_lean(cond_keep, F)
    table = {id(d_ri): _name("D_RI"), id(d_kc): _name("D_KC"), id(d_tol): _name("D_TOL"),
             id(a_inside.value): _name("V_INSIDE"), id(a_onedge.value): _name("V_ONEDGE"),
             id(cond_remove): _name("COND_REMOVE"), id(cond_keep): _name("COND_KEEP")}
    pinned = _Subst(table).generic_visit(rc)
    if ast.dump(pinned) != ast.dump(ast.parse(REF_REMOVE_CUTOUT.strip()).body[0]):
        raise Unsupported(F, rc, "remove_cutout: statement skeleton differs from the modelled form")
    out.append(f"-- {F}: remove_cutout (line {rc.lineno})")
    out.append(f"def rcRemoveInsideDefault : Bool := {_b(v_ri)}")
    out.append(f"def rcKeepContourDefault : Bool := {_b(v_kc)}")
    out.append(f"def rcInside : Int := {v_inside}")
    out.append(f"def rcOnEdge : Int := {v_onedge}")
    out.append(f"-- line {cond_remove.lineno}: `if remove_inside:` branch")
    out.append(f"def rcKeepIfRemoveInside (hasInside hasEdge keepContour : Bool) : Bool :=\n  {lean_remove}")
    out.append(f"-- line {cond_keep.lineno}: `elif` branch")
    out.append(f"def rcKeepIfKeepInside (hasInside hasEdge keepContour : Bool) : Bool :=\n  {lean_keep}\n")

    lr = find_function(fr, "determine_largest_rectangle")
    if lr is None:
        raise Unsupported(F, fr, "determine_largest_rectangle not found")
    _same(lr, REF_LARGEST_RECTANGLE, F, "determine_largest_rectangle")

    # ------------------------------------------------------------------ polygonal_land_constraint
    D = "domains.py"
    dm = parse(D)
    plc = find_function(dm, "polygonal_land_constraint")
    if plc is None:
        raise Unsupported(D, dm, "polygonal_land_constraint not found")
    plc = _strip_doc(plc)
    try:
        d_kclist = plc.args.defaults[-1]
        calls = [n for n in ast.walk(plc) if isinstance(n, ast.Call) and isinstance(n.func, ast.Name) and n.func.id == "remove_cutout"]
        calls.sort(key=lambda n: n.lineno)
        c_p, c_n = calls
        kw_p = {k.arg: k.value for k in c_p.keywords}
        kw_n = {k.arg: k.value for k in c_n.keywords}
        p_ri, n_ri = kw_p["remove_inside"], kw_n["remove_inside"]
        p_idx, n_idx = kw_p["keep_contour"].slice, kw_n["keep_contour"].slice
    except Exception:
        raise Unsupported(D, plc, "polygonal_land_constraint: statement skeleton changed")
    kclist = _lit(d_kclist, D, list, "default of keep_contour")
    if not all(isinstance(v, bool) for v in kclist):
        raise Unsupported(D, d_kclist, "default of keep_contour is not a list of booleans")
    vp_ri = _lit(p_ri, D, bool, "remove_inside of the property call")
    vn_ri = _lit(n_ri, D, bool, "remove_inside of the no-go call")
    vp_idx = _lit(p_idx, D, int, "keep_contour index of the property call")
    vn_idx = _lit(n_idx, D, int, "keep_contour index of the no-go call")
    table = {id(d_kclist): _name("D_KCLIST"), id(p_ri): _name("P_RI"), id(n_ri): _name("N_RI"),
             id(p_idx): _name("P_IDX"), id(n_idx): _name("N_IDX")}
    pinned = _Subst(table).generic_visit(plc)
    if ast.dump(pinned) != ast.dump(ast.parse(REF_PLC.strip()).body[0]):
        raise Unsupported(D, plc, "polygonal_land_constraint: statement skeleton differs from the modelled form")
    out.append(f"-- {D}: polygonal_land_constraint (line {plc.lineno})")
    out.append("def plcKeepContourDefault : List Bool := [" + ", ".join(_b(v) for v in kclist) + "]")
    out.append(f"def plcPropRemoveInside : Bool := {_b(vp_ri)}")
    out.append(f"def plcPropContourIdx : Int := {vp_idx}")
    out.append(f"def plcNogoRemoveInside : Bool := {_b(vn_ri)}")
    out.append(f"def plcNogoContourIdx : Int := {vn_idx}")

    ro = find_function(dm, "reorder_domain")
    if ro is None:
        raise Unsupported(D, dm, "reorder_domain not found")
    _same(ro, REF_REORDER, D, "reorder_domain")

    # ------------------------------------------------------------------ geometry constructor
    G = "geometry.py"
    gm = parse(G)
    gi = find_function(gm, "GeometricConstraintsBiRectangleConstrained.__init__")
    if gi is None:
        raise Unsupported(G, gm, "GeometricConstraintsBiRectangleConstrained.__init__ not found")
    _same(gi, REF_GEOM_INIT, G, "GeometricConstraintsBiRectangleConstrained.__init__")

    out.append("\nend GHEVerif.Gen\n")
    write("Constrained.lean", "\n".join(out))
