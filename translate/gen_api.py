"""Translator plug-in for C13 (Model/Api.lean): facts about *which state the API touches*, read
from the current sources with `ast` and emitted as Lean data in Gen/Api.lean.

  keepContourDesign / keepContourDomains   the mutable default argument objects
  keepContourStores                        number of statements that could mutate a `keep_contour` object
  heightWriters                            every `<expr>.H = ...` assignment in the package, as "file:function"
  componentWriters                         every assignment to an attribute of a (possibly shared) component object
                                           (`<...>.sim_params.x = `, `.pipe.k = `, `.grout.k = `, `_borehole.r_b -= ` ...)
  moduleState                              module-level dict/list/set objects, `global` statements, lru_cache/cache decorators
  designCtorArgs                           per Design* call in GHEManager.set_design: the argument expressions
  findDesignRequired                       the slots tested by `all([...])` in GHEManager.find_design
  findDesignCalls                          the calls made by find_design after the test, in source order
  refusingSetterStores                     per GHEManager.set_* method with a `throw` parameter: the values it stores (a refused
                                           call must store nothing: only enum constants / freshly built objects are stored)
  setterWrites                             per GHEManager.set_* method: the `self.<attr>` it assigns
  simulateTimesCompares                    comparisons on `self.times` inside GHE.simulate (the F7 guard)
  simulateTimesStores / simulateMethods    assignments to `self.times` in GHE.simulate, branch labels
  sizeHeightBracket                        the lower/upper arguments of solve_root in GHE.size
  cgfHeights                               the list `h_values` in BaseGHE.compute_g_functions

The theorems in Props/C13.lean (`source_shape_*`) compare these with what Model/Api.lean
transcribes, so a change of the mechanism in the source breaks a proof.
"""
from __future__ import annotations

import ast

MUTATORS = {"append", "extend", "insert", "pop", "remove", "clear", "reverse", "sort", "__setitem__", "__delitem__"}


def _dotted(node):
    if isinstance(node, ast.Name):
        return node.id
    if isinstance(node, ast.Attribute):
        b = _dotted(node.value)
        return None if b is None else b + "." + node.attr
    if isinstance(node, ast.Constant):
        return repr(node.value)
    return None


def _expr(node):
    d = _dotted(node)
    return d if d is not None else ast.unparse(node).replace('"', "'")


def _s(x):
    return '"' + str(x).replace("\\", "\\\\").replace('"', '\\"') + '"'


def _slist(xs):
    return "[" + ", ".join(_s(x) for x in xs) + "]"


def _functions(tree):
    """(qualname, node) for every function, nested ones included."""
    out = []

    def rec(node, prefix):
        for ch in ast.iter_child_nodes(node):
            if isinstance(ch, (ast.FunctionDef, ast.AsyncFunctionDef)):
                q = prefix + ch.name
                out.append((q, ch))
                rec(ch, q + ".")
            elif isinstance(ch, ast.ClassDef):
                rec(ch, prefix + ch.name + ".")
            else:
                rec(ch, prefix)

    rec(tree, "")
    return out


def _own_nodes(fn):
    """Nodes of a function body in source order, not descending into nested functions."""
    out = []

    def rec(node):
        for ch in ast.iter_child_nodes(node):
            if isinstance(ch, (ast.FunctionDef, ast.AsyncFunctionDef, ast.ClassDef, ast.Lambda)):
                continue
            out.append(ch)
            rec(ch)

    rec(fn)
    return sorted(out, key=lambda n: (getattr(n, "lineno", 0), getattr(n, "col_offset", 0)))


def _find(tree, qual):
    for q, n in _functions(tree):
        if q == qual:
            return n
    return None


def main(write, HEADER, parse, PKG):
    out = [HEADER.format(src="design.py, domains.py, manager.py, ground_heat_exchangers.py, search_routines.py (and every *.py for .H writes)"),
           "namespace GHEVerif.Gen.Api\n"]

    # ------------------------------------------------------------ keep_contour defaults and stores
    def default_of(tree, qual):
        fn = _find(tree, qual)
        if fn is None:
            return None
        args = fn.args
        pos = args.posonlyargs + args.args
        defaults = [None] * (len(pos) - len(args.defaults)) + list(args.defaults)
        for a, d in list(zip(pos, defaults)) + list(zip(args.kwonlyargs, args.kw_defaults)):
            if a.arg == "keep_contour" and d is not None:
                try:
                    v = ast.literal_eval(d)
                except Exception:
                    return None
                return v
        return None

    design = parse("design.py")
    domains = parse("domains.py")

    def blist(v):
        if isinstance(v, (list, tuple)) and all(isinstance(b, bool) for b in v):
            return "[" + ", ".join("true" if b else "false" for b in v) + "]"
        return "[]"

    out.append(f"def keepContourDesign : List Bool := {blist(default_of(design, 'DesignBiRectangleConstrained.__init__'))}")
    out.append(f"def keepContourDomains : List Bool := {blist(default_of(domains, 'polygonal_land_constraint'))}")
    stores = 0
    for tree in (design, domains):
        for n in ast.walk(tree):
            tg = []
            if isinstance(n, ast.Assign):
                tg = n.targets
            elif isinstance(n, (ast.AugAssign, ast.AnnAssign)):
                tg = [n.target]
            elif isinstance(n, ast.Delete):
                tg = n.targets
            for t in tg:
                for s in ast.walk(t):
                    if isinstance(s, ast.Subscript) and _dotted(s.value) is not None and _dotted(s.value).split(".")[-1] == "keep_contour":
                        stores += 1
                    if isinstance(t, ast.Name) and t.id == "keep_contour" and s is t:
                        stores += 1
            if isinstance(n, ast.Call) and isinstance(n.func, ast.Attribute) and n.func.attr in MUTATORS:
                d = _dotted(n.func.value)
                if d is not None and d.split(".")[-1] == "keep_contour":
                    stores += 1
    out.append(f"def keepContourStores : Nat := {stores}")

    # ------------------------------------------------------------ writers of <expr>.H
    writers = []
    for p in sorted(PKG.glob("*.py")):
        tree = ast.parse(p.read_text(), filename=str(p))
        for q, fn in _functions(tree):
            for n in _own_nodes(fn):
                tg = n.targets if isinstance(n, ast.Assign) else [n.target] if isinstance(n, (ast.AugAssign, ast.AnnAssign)) else []
                for t in tg:
                    for s in ([t] if not isinstance(t, ast.Tuple) else t.elts):
                        if isinstance(s, ast.Attribute) and s.attr == "H":
                            writers.append(f"{p.name}:{q}:{_expr(s)}")
    out.append(f"def heightWriters : List String := {_slist(writers)}")

    # ------------------------------------------------------------ writers of attributes of the shared component objects
    # (SimulationParameters, Pipe, Grout, Soil, GHEFluid, geometric constraints, borehole other than H): `<...>.<comp>.<attr> = ...`
    comps = {"sim_params", "_simulation_parameters", "pipe", "_pipe", "grout", "_grout", "soil", "_soil", "fluid", "_fluid",
             "geometric_constraints", "_geometric_constraints", "geometricConstraints", "borehole", "_borehole", "b"}
    cw = []
    for p in sorted(PKG.glob("*.py")):
        tree = ast.parse(p.read_text(), filename=str(p))
        for q, fn in _functions(tree):
            for n in _own_nodes(fn):
                tg = n.targets if isinstance(n, ast.Assign) else [n.target] if isinstance(n, (ast.AugAssign, ast.AnnAssign)) else []
                for t in tg:
                    for s_ in ([t] if not isinstance(t, ast.Tuple) else t.elts):
                        if isinstance(s_, ast.Attribute) and s_.attr != "H" and isinstance(s_.value, (ast.Attribute, ast.Name)):
                            owner = s_.value.attr if isinstance(s_.value, ast.Attribute) else s_.value.id
                            if owner in comps:
                                cw.append(f"{p.name}:{q}:{_expr(s_)}")
    out.append(f"def componentWriters : List String := {_slist(cw)}")

    # ------------------------------------------------------------ module-level mutable state (memo tables, registries) and `global` statements
    ms = []
    for p in sorted(PKG.glob("*.py")):
        tree = ast.parse(p.read_text(), filename=str(p))
        for n in tree.body:
            tg = n.targets if isinstance(n, ast.Assign) else [n.target] if isinstance(n, ast.AnnAssign) and n.value is not None else []
            v = getattr(n, "value", None)
            mutable = isinstance(v, (ast.Dict, ast.List, ast.Set, ast.ListComp, ast.DictComp, ast.SetComp)) or (
                isinstance(v, ast.Call) and _dotted(v.func) in ("dict", "list", "set", "defaultdict", "collections.defaultdict", "OrderedDict",
                                                               "collections.OrderedDict", "deque", "collections.deque"))
            for t in tg:
                if mutable and isinstance(t, ast.Name) and t.id != "__all__":
                    ms.append(f"{p.name}:{t.id}")
        for n in ast.walk(tree):
            if isinstance(n, (ast.Global, ast.Nonlocal)) and isinstance(n, ast.Global):
                ms.append(f"{p.name}:global {','.join(n.names)}")
            if isinstance(n, ast.FunctionDef):
                for d in n.decorator_list:
                    dn = _dotted(d.func) if isinstance(d, ast.Call) else _dotted(d)
                    if dn and dn.split(".")[-1] in ("lru_cache", "cache", "cached_property"):
                        ms.append(f"{p.name}:@{dn} {n.name}")
    out.append(f"def moduleState : List String := {_slist(ms)}")

    # ------------------------------------------------------------ manager: set_design, find_design, setters
    manager = parse("manager.py")
    sd = _find(manager, "GHEManager.set_design")
    ctor = []
    if sd is not None:
        for n in _own_nodes(sd):
            if isinstance(n, ast.Call) and isinstance(n.func, ast.Name) and n.func.id.startswith("Design"):
                args = [_expr(a) for a in n.args] + [f"{k.arg}={_expr(k.value)}" for k in n.keywords]
                ctor.append((n.func.id, args))
    out.append("def designCtorArgs : List (String × List String) := [" + ", ".join(f"({_s(c)}, {_slist(a)})" for c, a in ctor) + "]")
    fd = _find(manager, "GHEManager.find_design")
    required, calls = [], []
    if fd is not None:
        for n in _own_nodes(fd):
            if isinstance(n, ast.Call) and isinstance(n.func, ast.Name) and n.func.id == "all" and n.args and isinstance(n.args[0], ast.List):
                required = [_expr(e) for e in n.args[0].elts]
        for n in _own_nodes(fd):
            if isinstance(n, ast.Call) and isinstance(n.func, ast.Attribute):
                d = _dotted(n.func)
                if d is not None and d.startswith("self."):
                    kw = ",".join(f"{k.arg}={_expr(k.value)}" for k in n.keywords)
                    calls.append(d + "(" + ",".join(_expr(a) for a in n.args) + ("," if n.args and kw else "") + kw + ")")
    out.append(f"def findDesignRequired : List String := {_slist(required)}")
    out.append(f"def findDesignCalls : List String := {_slist(calls)}")
    setters = []
    for q, fn in _functions(manager):
        if q.startswith("GHEManager.set_") and q.count(".") == 1:
            attrs = []
            for n in _own_nodes(fn):
                tg = n.targets if isinstance(n, ast.Assign) else [n.target] if isinstance(n, (ast.AugAssign, ast.AnnAssign)) else []
                for t in tg:
                    d = _dotted(t)
                    if d is not None and d.startswith("self.") and d not in attrs:
                        attrs.append(d)
            setters.append((q.split(".")[1], attrs))
    out.append("def setterWrites : List (String × List String) := [" + ", ".join(f"({_s(n)}, {_slist(a)})" for n, a in setters) + "]")

    # ------------------------------------------------------------ setters that can refuse their input: what they store, and in which order
    # per method with a `throw` parameter: every `self.<attr> = <rhs>` (rhs unparsed) and whether it sits inside a `try`
    refusing = []
    for q, fn in _functions(manager):
        if q.startswith("GHEManager.set_") and q.count(".") == 1 and any(a.arg == "throw" for a in fn.args.args + fn.args.kwonlyargs):
            tries = [t for t in ast.walk(fn) if isinstance(t, ast.Try)]
            stores = []
            for n in _own_nodes(fn):
                if isinstance(n, ast.Assign):
                    for t in n.targets:
                        d = _dotted(t)
                        if d is not None and d.startswith("self."):
                            in_try = any(n in list(ast.walk(t_)) for t_ in tries)
                            rhs = _expr(n.value) if _dotted(n.value) is not None else (_dotted(n.value.func) + "(...)" if isinstance(n.value, ast.Call) and _dotted(n.value.func) else ast.unparse(n.value))
                            stores.append(f"{d}={rhs}" + (" [try]" if in_try else ""))
            refusing.append((q.split(".")[1], stores))
    out.append("def refusingSetterStores : List (String × List String) := [" + ", ".join(f"({_s(n)}, {_slist(a)})" for n, a in refusing) + "]")

    # ------------------------------------------------------------ GHE.simulate / size / compute_g_functions
    ghe = parse("ground_heat_exchangers.py")
    sim = _find(ghe, "GHE.simulate")
    compares, tstores, methods = 0, [], []
    if sim is not None:
        for n in _own_nodes(sim):
            if isinstance(n, ast.Compare):
                if any(_dotted(s) == "self.times" for s in ast.walk(n)):
                    compares += 1
                if _dotted(n.left) == "method" and len(n.comparators) == 1:
                    methods.append(_expr(n.comparators[0]))
            if isinstance(n, ast.Assign):
                for t in n.targets:
                    if _dotted(t) == "self.times":
                        tstores.append(_expr(n.value))
    out.append(f"def simulateTimesCompares : Nat := {compares}")
    out.append(f"def simulateTimesStores : List String := {_slist(tstores)}")
    out.append(f"def simulateMethods : List String := {_slist(methods)}")
    size = _find(ghe, "GHE.size")
    bracket = []
    if size is not None:
        for n in _own_nodes(size):
            if isinstance(n, ast.Call) and _dotted(n.func) == "solve_root":
                bracket = [_expr(a) for a in n.args] + [f"{k.arg}={_expr(k.value)}" for k in n.keywords]
    out.append(f"def sizeSolveRootArgs : List String := {_slist(bracket)}")
    cg = _find(ghe, "BaseGHE.compute_g_functions")
    hv, avg = [], []
    if cg is not None:
        for n in _own_nodes(cg):
            if isinstance(n, ast.Assign) and len(n.targets) == 1 and _dotted(n.targets[0]) == "h_values" and isinstance(n.value, ast.List):
                hv = [_expr(e) for e in n.value.elts]
            if isinstance(n, ast.Assign) and len(n.targets) == 1 and _dotted(n.targets[0]) == "avg_height":
                avg.append("avg_height=" + _expr(n.value))
    out.append(f"def cgfHeights : List String := {_slist(hv + avg)}")
    # ------------------------------------------------------------ GFunction.g_function_interpolation: when is the table (re)built
    gfn = _find(parse("gfunction.py"), "GFunction.g_function_interpolation")
    tests, hourly_q = [], []
    if gfn is not None:
        for n in _own_nodes(gfn):
            if isinstance(n, ast.If) and any(isinstance(t, ast.Subscript) and _dotted(t.value) == "self.interpolation_table"
                                             for st_ in n.body for t in (st_.targets if isinstance(st_, ast.Assign) else [])):
                tests.append(_expr(n.test))
    out.append(f"def tableBuildTests : List String := {_slist(tests)}")
    if sim is not None:
        for n in _own_nodes(sim):
            if isinstance(n, ast.Assign) and len(n.targets) == 1 and _dotted(n.targets[0]) == "q_dot":
                hourly_q.append(_expr(n.value))
    out.append(f"def simulateHourlyLoads : List String := {_slist(hourly_q)}")
    out.append("\nend GHEVerif.Gen.Api\n")
    write("Api.lean", "\n".join(out))
