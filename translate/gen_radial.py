"""Translator plug-in for C10: the literal constants of ghedesigner/radial_numerical_borehole.py.

Emits lean/GHEVerif/Gen/RadialConsts.lean (cell counts per region, far-field radius, initial
temperature, time step, the `1e-12 - 120` start of the clock, heat flux, the number of
resampling intervals, the fluid-cell conductivity, the convection-cell heat capacity, the
`exp(-8.6)` / `49.0 * SEC_IN_HR` horizon).  The Radial model and the C10 theorems use these
definitions, so a changed literal changes the model that is run against the code and
re-checks the theorems (e.g. a cell count of 0 breaks `gen_counts_positive`).
"""
from __future__ import annotations

import ast
from fractions import Fraction

from py2lean import Unsupported, find_function

FILE = "radial_numerical_borehole.py"


def _num(node, where):
    """Literal number (with unary minus) -> Fraction (decimal literal read as written)."""
    if isinstance(node, ast.UnaryOp) and isinstance(node.op, ast.USub):
        return -_num(node.operand, where)
    if isinstance(node, ast.Constant) and isinstance(node.value, (int, float)) and not isinstance(node.value, bool):
        return Fraction(str(node.value)) if isinstance(node.value, float) else Fraction(node.value)
    raise Unsupported(FILE, node, f"{where}: not a numeric literal")


def _assigns(fn, target):
    """All `target = <expr>` inside fn; target is 'name' or 'self.attr'."""
    out = []
    for n in ast.walk(fn):
        if isinstance(n, ast.Assign) and len(n.targets) == 1:
            t = n.targets[0]
            if isinstance(t, ast.Name) and t.id == target:
                out.append(n.value)
            elif isinstance(t, ast.Attribute) and isinstance(t.value, ast.Name) and t.value.id == "self" \
                    and "self." + t.attr == target:
                out.append(n.value)
    return out


_CLASS = [None]   # the RadialNumericalBH class node: constants that moved to a helper method are still found


def _one(fn, target):
    vals = _assigns(fn, target)
    if not vals and _CLASS[0] is not None:
        vals = _assigns(_CLASS[0], target)
    if len(vals) != 1:
        raise Unsupported(FILE, fn, f"expected exactly one assignment to {target} in {fn.name}, found {len(vals)}")
    return vals[0]


def _nat(fr, what, node):
    if fr.denominator != 1 or fr < 0:
        raise Unsupported(FILE, node, f"{what} = {fr} is not a natural number")
    return int(fr)


def _rat(fr):
    return f"(({fr.numerator} : Rat) / {fr.denominator})" if fr.denominator != 1 else f"({fr.numerator} : Rat)"


def _horizon(fn):
    """`max([self.t_s * exp(<a>), <h> * SEC_IN_HR])` -> (a, h)."""
    v = _one(fn, "self.calc_time_in_sec")
    ok = isinstance(v, ast.Call) and isinstance(v.func, ast.Name) and v.func.id == "max" and len(v.args) == 1 \
        and isinstance(v.args[0], ast.List) and len(v.args[0].elts) == 2
    if not ok:
        raise Unsupported(FILE, v, "calc_time_in_sec is not max([a, b])")
    a, b = v.args[0].elts
    ok = isinstance(a, ast.BinOp) and isinstance(a.op, ast.Mult) and isinstance(a.right, ast.Call) \
        and isinstance(a.right.func, ast.Name) and a.right.func.id == "exp" and len(a.right.args) == 1 \
        and isinstance(a.left, ast.Attribute) and a.left.attr == "t_s"
    if not ok:
        raise Unsupported(FILE, a, "first horizon term is not self.t_s * exp(c)")
    ok = isinstance(b, ast.BinOp) and isinstance(b.op, ast.Mult) and isinstance(b.right, ast.Name) and b.right.id == "SEC_IN_HR"
    if not ok:
        raise Unsupported(FILE, b, "second horizon term is not c * SEC_IN_HR")
    return _num(a.right.args[0], "exp argument"), _num(b.left, "horizon hours")


def main(write, HEADER, parse, PKG):
    tree = parse(FILE)
    _CLASS[0] = find_function(tree, "RadialNumericalBH")
    init = find_function(tree, "RadialNumericalBH.__init__")
    pinit = find_function(tree, "RadialNumericalBH.partial_init")
    fill = find_function(tree, "RadialNumericalBH.fill_radial_cells")
    calc = find_function(tree, "RadialNumericalBH.calc_sts_g_functions")
    for q, n in (("__init__", init), ("partial_init", pinit), ("fill_radial_cells", fill), ("calc_sts_g_functions", calc)):
        if n is None:
            raise Unsupported(FILE, tree, f"RadialNumericalBH.{q} not found")
    out = [HEADER.format(src=FILE), "namespace GHEVerif.Gen.Radial\n"]
    for attr, lean in (("num_fluid_cells", "numFluidCells"), ("num_conv_cells", "numConvCells"),
                       ("num_pipe_cells", "numPipeCells"), ("num_grout_cells", "numGroutCells"),
                       ("num_soil_cells", "numSoilCells"), ("r_far_field", "rFarField"), ("init_temp", "initTemp")):
        node = _one(init, "self." + attr)
        out.append(f"def {lean} : Nat := {_nat(_num(node, attr), attr, node)}")
    h1, h2 = _horizon(init), _horizon(pinit)
    if h1 != h2:
        raise Unsupported(FILE, pinit, "__init__ and partial_init disagree on the computed period")
    out.append(f"def horizonExpArg : Rat := {_rat(h1[0])}")
    out.append(f"def horizonHours : Rat := {_rat(h1[1])}")
    for name, lean in (("conductivity_fluid", "conductivityFluid"),):
        node = _one(fill, name)
        out.append(f"def {lean} : Nat := {_nat(_num(node, name), name, node)}")
    node = _one(fill, "rho_cp_conv")
    out.append(f"def rhoCpConv : Rat := {_rat(_num(node, 'rho_cp_conv'))}")
    node = _one(calc, "time_step")
    out.append(f"def timeStep : Nat := {_nat(_num(node, 'time_step'), 'time_step', node)}")
    node = _one(calc, "heat_flux")
    out.append(f"def heatFlux : Rat := {_rat(_num(node, 'heat_flux'))}")
    node = _one(calc, "num_intervals")
    out.append(f"def numIntervals : Nat := {_nat(_num(node, 'num_intervals'), 'num_intervals', node)}")
    # time = 1e-12 - 120
    tv = [v for v in _assigns(calc, "time")]
    if len(tv) != 1 or not (isinstance(tv[0], ast.BinOp) and isinstance(tv[0].op, ast.Sub)):
        raise Unsupported(FILE, calc, "initial `time = eps - step` not found")
    out.append(f"def timeStartEps : Rat := {_rat(_num(tv[0].left, 'time start'))}")
    out.append(f"def timeStartSub : Nat := {_nat(_num(tv[0].right, 'time start'), 'time start', tv[0])}")
    out.append("\nend GHEVerif.Gen.Radial\n")
    write("RadialConsts.lean", "\n".join(out))
