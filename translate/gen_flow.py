"""Translator plug-in for C20 (flow specifications): writes lean/GHEVerif/Gen/Flow.lean.

1. `Gen.baseGheFlow` — the backward program slice of `BaseGHE.__init__`
   (ground_heat_exchangers.py) that computes the per-borehole flow: every top-level assignment
   the values `self.V_flow_borehole`, `self.m_flow_borehole` and the mass-flow argument handed to
   `get_bhe_object(...)` depend on, translated with the ordinary function translator
   (`self.x` is renamed `self_x`).  A statement that is not a plain assignment but assigns one of
   the needed names puts the source outside the subset (`translator-unsupported`).
2. `Gen.flowWiring` — for `Bisection1D.__init__`, `Bisection1D.initialize_ghe` and
   `RowWiseModifiedBisectionSearch.initialize_ghe`: which expressions are unpacked from
   `self.retrieve_flow(...)`, which are its arguments, and which expressions are passed as the
   mass-flow / coordinates arguments of `calc_g_func_for_multiple_lengths` and as the system-flow /
   fluid arguments of `GHE(...)`, as source text.  Also the list of classes in search_routines.py
   that define `retrieve_flow` or `initialize_ghe` (a new override shows up here).
3. `Gen.setDesignSkeleton` — the control-flow / state-update skeleton of `GHEManager.set_design` (manager.py):
   tests, assignments (each `self._design = DesignX(...)` with its first argument, constraints argument and
   `flow_type` keyword), returns, raises; `Gen.designWriters` — every method of manager.py that assigns
   `self._design` or an attribute of it; `Gen.designFlowWiring` — how design.py carries the pair
   (v_flow, flow_type) from `DesignBase.__init__` through every `Design*.__init__` to the search constructor
   in `find_design`.  A design that survives a later `set_design`, an in-place update of its flow, a dropped
   `flow_type=` shows up as a changed table.
"""
from __future__ import annotations

import ast

from py2lean import FnTranslator, Spec, Unsupported, dotted, find_function

GHE_FILE = "ground_heat_exchangers.py"
SR_FILE = "search_routines.py"


# ------------------------------------------------------------------------------- slice of BaseGHE.__init__
class _SelfRename(ast.NodeTransformer):
    def visit_Attribute(self, node):
        if isinstance(node.value, ast.Name) and node.value.id == "self":
            return ast.copy_location(ast.Name(id="self_" + node.attr, ctx=node.ctx), node)
        return self.generic_visit(node)


def _loads(node):
    """Dotted names read by an expression (maximal chains)."""
    out = set()

    def walk(n):
        if isinstance(n, ast.Call):
            if isinstance(n.func, ast.Attribute):
                walk(n.func.value)  # the object a method is called on
            for c in list(n.args) + [k.value for k in n.keywords]:
                walk(c)
            return
        d = dotted(n)
        if d is not None:
            out.add(d)
            return
        for c in ast.iter_child_nodes(n):
            walk(c)

    walk(node)
    return out


def _assigned_names(stmt):
    names = set()
    for n in ast.walk(stmt):
        tgts = []
        if isinstance(n, ast.Assign):
            tgts = n.targets
        elif isinstance(n, (ast.AugAssign, ast.AnnAssign)):
            tgts = [n.target]
        elif isinstance(n, (ast.For, ast.With)):
            tgts = [n.target] if isinstance(n, ast.For) else [i.optional_vars for i in n.items if i.optional_vars is not None]
        for t in tgts:
            for e in ast.walk(t):
                d = dotted(e)
                if d is not None:
                    names.add(d)
    return names


def base_ghe_slice(tree):
    fn = find_function(tree, "BaseGHE.__init__")
    if fn is None:
        raise Unsupported(GHE_FILE, tree.body[0] if tree.body else tree, "BaseGHE.__init__ not found")
    body = []
    found_call = False
    for s in fn.body:
        if (isinstance(s, ast.Assign) and len(s.targets) == 1 and dotted(s.targets[0]) == "self.bhe"
                and isinstance(s.value, ast.Call) and dotted(s.value.func) == "get_bhe_object"):
            call = s.value
            arg = call.args[1] if len(call.args) > 1 else next((k.value for k in call.keywords if k.arg == "m_flow_borehole"), None)
            if arg is None:
                raise Unsupported(GHE_FILE, s, "mass-flow argument of get_bhe_object not found")
            new = ast.Assign(targets=[ast.Name(id="bhe_m_flow", ctx=ast.Store())], value=arg)
            ast.copy_location(new, s)
            body.append(new)
            found_call = True
        else:
            body.append(s)
    if not found_call:
        raise Unsupported(GHE_FILE, fn, "self.bhe = get_bhe_object(...) not found in BaseGHE.__init__")
    ret = ast.Return(value=ast.Tuple(elts=[
        ast.Attribute(value=ast.Name(id="self", ctx=ast.Load()), attr="V_flow_borehole", ctx=ast.Load()),
        ast.Attribute(value=ast.Name(id="self", ctx=ast.Load()), attr="m_flow_borehole", ctx=ast.Load()),
        ast.Name(id="bhe_m_flow", ctx=ast.Load())], ctx=ast.Load()))
    # backward slice over the top-level statement list
    needed = _loads(ret.value)
    keep = []
    for s in reversed(body):
        simple = isinstance(s, ast.Assign) and len(s.targets) == 1 and dotted(s.targets[0]) is not None
        if simple:
            tgt = dotted(s.targets[0])
            if tgt in needed:
                needed.discard(tgt)
                needed |= _loads(s.value)
                keep.append(s)
        else:
            hit = _assigned_names(s) & needed
            if hit:
                raise Unsupported(GHE_FILE, s, f"non-simple statement assigns {sorted(hit)} in the flow slice")
    keep.reverse()
    params = {"v_flow_system": ("vFlowSystem", "R"), "g_function.bore_locations": ("boreLocations", "LP"), "fluid.rho": ("rho", "R")}
    free = {d for d in needed if d not in params}
    if free:
        raise Unsupported(GHE_FILE, fn, f"flow slice depends on {sorted(free)}")
    new_body = [_SelfRename().visit(s) for s in keep] + [_SelfRename().visit(ret)]
    new_fn = ast.FunctionDef(name="base_ghe_flow", args=fn.args, body=new_body, decorator_list=[], lineno=fn.lineno, col_offset=0)
    ast.fix_missing_locations(new_fn)
    spec = Spec("baseGheFlow", [(py, ln, ty) for py, (ln, ty) in params.items()], "Rat × Rat × Rat")
    src_lines = ", ".join(str(s.lineno) for s in keep)
    return f"-- {GHE_FILE}: BaseGHE.__init__ (line {fn.lineno}), flow slice = source lines {src_lines}\n" + \
        FnTranslator(GHE_FILE, new_fn, spec).translate()


# ------------------------------------------------------------------------------- wiring of initialize_ghe
def _lean_str(s):
    return '"' + s.replace("\\", "\\\\").replace('"', '\\"') + '"'


def _call_named(fn, name):
    calls = [n for n in ast.walk(fn) if isinstance(n, ast.Call) and dotted(n.func) == name]
    return calls


def _arg(call, idx, kw, file):
    if len(call.args) > idx:
        return ast.unparse(call.args[idx])
    for k in call.keywords:
        if k.arg == kw:
            return ast.unparse(k.value)
    raise Unsupported(file, call, f"argument {kw} not found")


def wiring(tree):
    rows = []
    for qual in ("Bisection1D.__init__", "Bisection1D.initialize_ghe", "RowWiseModifiedBisectionSearch.initialize_ghe"):
        fn = find_function(tree, qual)
        if fn is None:
            raise Unsupported(SR_FILE, tree.body[0], f"{qual} not found")
        rf = [n for n in ast.walk(fn) if isinstance(n, ast.Assign) and isinstance(n.value, ast.Call)
              and dotted(n.value.func) == "self.retrieve_flow"]
        gf = _call_named(fn, "calc_g_func_for_multiple_lengths")
        ghe = _call_named(fn, "GHE")
        if len(rf) != 1 or len(gf) != 1 or len(ghe) != 1:
            raise Unsupported(SR_FILE, fn, f"{qual}: expected one retrieve_flow / calc_g_func / GHE call, found {len(rf)}/{len(gf)}/{len(ghe)}")
        rf = rf[0]
        tg = rf.targets[0]
        targets = [ast.unparse(e) for e in tg.elts] if isinstance(tg, ast.Tuple) else [ast.unparse(tg)]
        cols = [
            "unpacked=" + ",".join(targets),
            "retrieve_flow_args=" + ",".join(ast.unparse(a) for a in rf.value.args),
            "gfunc_m_flow=" + _arg(gf[0], 4, "m_flow_borehole", SR_FILE),
            "gfunc_coordinates=" + _arg(gf[0], 7, "coordinates", SR_FILE),
            "gfunc_fluid=" + _arg(gf[0], 8, "fluid", SR_FILE),
            "ghe_v_flow_system=" + _arg(ghe[0], 0, "v_flow_system", SR_FILE),
            "ghe_fluid=" + _arg(ghe[0], 3, "fluid", SR_FILE),
            "ghe_g_function=" + _arg(ghe[0], 8, "g_function", SR_FILE),
        ]
        # where the local `fluid` comes from (None when it is the parameter of __init__)
        fl = [n for n in ast.walk(fn) if isinstance(n, ast.Assign) and len(n.targets) == 1 and dotted(n.targets[0]) == "fluid"]
        cols.append("fluid_local=" + (ast.unparse(fl[0].value) if fl else "<parameter>"))
        rows.append((qual, cols))
    definers = []
    for node in tree.body:
        if isinstance(node, ast.ClassDef):
            for m in node.body:
                if isinstance(m, ast.FunctionDef) and m.name in ("retrieve_flow", "initialize_ghe"):
                    definers.append(f"{node.name}.{m.name}")
    out = ["def flowWiring : List (String × List String) := ["]
    out.append(",\n".join(f"  ({_lean_str(q)}, [{', '.join(_lean_str(c) for c in cols)}])" for q, cols in rows))
    out.append("]\n")
    out.append("def flowDefiners : List String := [" + ", ".join(_lean_str(d) for d in definers) + "]\n")
    return "\n".join(out)


# ------------------------------------------------------------------------------- manager.set_design / design.py
MGR_FILE = "manager.py"
DES_FILE = "design.py"


def _skeleton(stmts, depth, out, file):
    """Linearised control-flow / state-update skeleton of a statement list: tests, assignments (constructor
    calls summarised by class, first argument and flow_type keyword), returns and raises.  `print(...)`
    statements and docstrings are dropped; anything else that could update state or leave the function
    is kept verbatim, so an added early return or an in-place update of the design shows up."""
    pad = "." * depth
    for s in stmts:
        if isinstance(s, ast.Expr) and isinstance(s.value, ast.Constant):
            continue
        if isinstance(s, ast.Expr) and isinstance(s.value, ast.Call) and dotted(s.value.func) == "print":
            continue
        if isinstance(s, ast.If):
            out.append(f"{pad}if {ast.unparse(s.test)}")
            _skeleton(s.body, depth + 1, out, file)
            if s.orelse:
                out.append(f"{pad}else")
                _skeleton(s.orelse, depth + 1, out, file)
        elif isinstance(s, ast.Assign):
            tg = ",".join(ast.unparse(t) for t in s.targets)
            v = s.value
            if isinstance(v, ast.Call) and dotted(v.func) and dotted(v.func).startswith("Design"):
                kw = {k.arg: ast.unparse(k.value) for k in v.keywords}
                a0 = ast.unparse(v.args[0]) if v.args else kw.get("v_flow", "?")
                gc = ast.unparse(v.args[8]) if len(v.args) > 8 else kw.get("geometric_constraints", "?")
                ft = kw.get("flow_type", ast.unparse(v.args[11]) if len(v.args) > 11 else "<default>")
                out.append(f"{pad}{tg} = {dotted(v.func)}(v_flow={a0}, geometric_constraints={gc}, flow_type={ft})")
            elif isinstance(v, (ast.JoinedStr, ast.Constant)) and tg == "message":
                out.append(f"{pad}message = <text>")
            else:
                out.append(f"{pad}{tg} = {ast.unparse(v)}")
        elif isinstance(s, ast.Return):
            out.append(f"{pad}return {ast.unparse(s.value) if s.value is not None else ''}".rstrip())
        elif isinstance(s, ast.Raise):
            name = dotted(s.exc.func) if isinstance(s.exc, ast.Call) else (dotted(s.exc) if s.exc is not None else "")
            out.append(f"{pad}raise {name}")
        else:
            out.append(f"{pad}{type(s).__name__}: {ast.unparse(s)}"[:200])


def design_tables(mgr_tree, des_tree):
    fn = find_function(mgr_tree, "GHEManager.set_design")
    if fn is None:
        raise Unsupported(MGR_FILE, mgr_tree.body[0], "GHEManager.set_design not found")
    skel = []
    _skeleton(fn.body, 0, skel, MGR_FILE)
    # every place of manager.py outside set_design / __init__ that assigns the design or one of its attributes
    writers = []
    for node in mgr_tree.body:
        if isinstance(node, ast.ClassDef):
            for m in node.body:
                if isinstance(m, ast.FunctionDef):
                    for n in ast.walk(m):
                        tgts = n.targets if isinstance(n, ast.Assign) else [n.target] if isinstance(n, (ast.AugAssign, ast.AnnAssign)) else []
                        for t in tgts:
                            d = dotted(t)
                            if d and (d == "self._design" or d.startswith("self._design.")) and f"{node.name}.{m.name}: {d}" not in writers:
                                writers.append(f"{node.name}.{m.name}: {d}")
    rows = []
    base = find_function(des_tree, "DesignBase.__init__")
    if base is None:
        raise Unsupported(DES_FILE, des_tree.body[0], "DesignBase.__init__ not found")
    params = [a.arg for a in base.args.args]
    stores = []
    for n in ast.walk(base):
        if isinstance(n, ast.Assign) and len(n.targets) == 1 and dotted(n.targets[0]) in ("self.V_flow", "self.flow_type", "self.geometric_constraints"):
            stores.append(f"{dotted(n.targets[0])}={ast.unparse(n.value)}")
    rows.append(("DesignBase.__init__", [f"param[1]={params[1] if len(params) > 1 else '?'}",
                                         f"param[12]={params[12] if len(params) > 12 else '?'}"] + sorted(stores)))
    for node in des_tree.body:
        if not (isinstance(node, ast.ClassDef) and node.name != "DesignBase" and node.name.startswith("Design")):
            continue
        cols = ["bases=" + ",".join(ast.unparse(b) for b in node.bases)]
        init = next((m for m in node.body if isinstance(m, ast.FunctionDef) and m.name == "__init__"), None)
        if init is not None:
            sup = [n for n in ast.walk(init) if isinstance(n, ast.Call) and isinstance(n.func, ast.Attribute) and n.func.attr == "__init__"
                   and isinstance(n.func.value, ast.Call) and dotted(n.func.value.func) == "super"]
            if len(sup) != 1:
                raise Unsupported(DES_FILE, init, f"{node.name}.__init__: expected one super().__init__ call")
            cols.append("super.v_flow=" + _arg(sup[0], 0, "v_flow", DES_FILE))
            cols.append("super.flow_type=" + _arg(sup[0], 11, "flow_type", DES_FILE))
            for n in ast.walk(init):
                if isinstance(n, ast.Assign) and len(n.targets) == 1 and dotted(n.targets[0]) in ("self.V_flow", "self.flow_type"):
                    cols.append(f"init-overwrites {dotted(n.targets[0])}={ast.unparse(n.value)}")
        fd = next((m for m in node.body if isinstance(m, ast.FunctionDef) and m.name == "find_design"), None)
        if fd is None:
            raise Unsupported(DES_FILE, node, f"{node.name}.find_design not found")
        rets = [n for n in ast.walk(fd) if isinstance(n, ast.Return) and isinstance(n.value, ast.Call)]
        if len(rets) != 1:
            raise Unsupported(DES_FILE, fd, f"{node.name}.find_design: expected one `return <Search>(...)`")
        call = rets[0].value
        cname = dotted(call.func)
        cols.append("search=" + str(cname))
        cols.append("search.v_flow=" + _arg(call, 0 if cname == "RowWiseModifiedBisectionSearch" else 2, "v_flow", DES_FILE))
        cols.append("search.flow_type=" + _arg(call, 11 if cname == "RowWiseModifiedBisectionSearch" else 12, "flow_type", DES_FILE))
        for n in ast.walk(fd):
            if isinstance(n, (ast.Assign, ast.AugAssign)):
                tgs = n.targets if isinstance(n, ast.Assign) else [n.target]
                if any(not isinstance(t, ast.Name) for t in tgs):   # a state update (locals such as `title` are not)
                    cols.append("find_design-assigns " + ast.unparse(n)[:80])
        rows.append((node.name, cols))
    out = ["def setDesignSkeleton : List String := [\n  " + ",\n  ".join(_lean_str(x) for x in skel) + "\n]\n"]
    out.append("def designWriters : List String := [" + ", ".join(_lean_str(w) for w in writers) + "]\n")
    out.append("def designFlowWiring : List (String × List String) := [")
    out.append(",\n".join(f"  ({_lean_str(q)}, [{', '.join(_lean_str(c) for c in cols)}])" for q, cols in rows))
    out.append("]\n")
    return "\n".join(out)


def main(write, HEADER, parse, PKG):
    out = [HEADER.format(src=f"{GHE_FILE}, {SR_FILE}, {MGR_FILE}, {DES_FILE} (translate/gen_flow.py)"),
           "import GHEVerif.Model.Py\nnamespace GHEVerif.Gen\nopen GHEVerif\n"]
    out.append(base_ghe_slice(parse(GHE_FILE)))
    out.append(wiring(parse(SR_FILE)))
    out.append(design_tables(parse(MGR_FILE), parse(DES_FILE)))
    out.append("end GHEVerif.Gen\n")
    write("Flow.lean", "\n".join(out))
