"""Evaluate seeded breaking changes against the checks.

    seeded_eval.py <mutation dir> [--repo-inplace]

<mutation dir> holds patch.diff, demo.py, meta.json.  By default the patch is applied to a scratch
worktree (/tmp/wt_eval, created on demand) and the check is run with VERIF_REPO pointing at it, so that
/repo itself is never touched while other work uses it; --repo-inplace applies it to /repo and reverts.
Prints one JSON line: demo status before/after, check exit code and the VIOLATION lines.
"""
import json
import os
import subprocess
import sys
from pathlib import Path

VERIF = Path(__file__).resolve().parent.parent


def sh(cmd, **kw):
    return subprocess.run(cmd, shell=True, capture_output=True, text=True, **kw)


def main():
    mdir = Path(sys.argv[1]).resolve()
    inplace = "--repo-inplace" in sys.argv
    tier = "thorough" if "--thorough" in sys.argv else "quick"
    meta = json.loads((mdir / "meta.json").read_text())
    pid = meta["property"]
    # private scratch paths per evaluation: several evaluations may run at the same time
    # scratch names carry the name of the /verif copy they belong to, so that cleaning up after one copy's
    # evaluations (by prefix) cannot remove another copy's running evaluation
    tag = "".join(ch if ch.isalnum() else "_" for ch in str(VERIF).strip("/"))
    repo = Path("/repo") if inplace else Path(f"/tmp/evwt_{tag}_{os.getpid()}")
    EVAL_COPY = Path(f"/tmp/evcp_{tag}_{os.getpid()}")
    if not inplace:
        r = sh(f"git -C /repo worktree add --detach {repo} HEAD")
        assert r.returncode == 0, r.stderr
    env = dict(os.environ, PYTHONPATH=str(repo), OMP_NUM_THREADS="1", VERIF_REPO=str(repo))
    # run the checks from a private copy of /verif (incl. its build products) so that regenerated
    # Gen/*.lean files and evidence of a mutated tree never land in /verif itself
    verif = VERIF
    if not inplace:
        sh(f"rsync -a --delete --exclude .git --exclude replays {VERIF}/ {EVAL_COPY}/")
        verif = EVAL_COPY
    res = {"mutation": str(mdir), "property": pid}
    r0 = subprocess.run(["/venv/bin/python", str(mdir / "demo.py")], env=env, capture_output=True, text=True, cwd=str(repo))
    res["demo_unchanged_rc"] = r0.returncode
    a = sh(f"git -C {repo} apply {mdir / 'patch.diff'}")
    if a.returncode != 0:
        res["apply_error"] = a.stderr[-300:]
        print(json.dumps(res))
        return
    try:
        r1 = subprocess.run(["/venv/bin/python", str(mdir / "demo.py")], env=env, capture_output=True, text=True, cwd=str(repo))
        res["demo_changed_rc"] = r1.returncode
        res["demo_changed_out"] = (r1.stdout + r1.stderr)[-400:]
        checks = meta.get("checks") or [pid]
        res["checks"] = {}
        for c in checks:
            rc = subprocess.run([str(verif / "check"), c, "--tier", tier], env=env, capture_output=True, text=True, cwd=str(verif))
            out_lines = rc.stdout.splitlines()
            lines = []
            for k, l in enumerate(out_lines):          # each VIOLATION line with the explanation that follows it
                if l.startswith("VIOLATION"):
                    lines.append(l)
                    if k + 1 < len(out_lines) and out_lines[k + 1].startswith("  "):
                        lines.append(out_lines[k + 1])
            lines = lines[:6]
            res["checks"][c] = {"rc": rc.returncode, "violations": lines, "tail": rc.stdout.splitlines()[-2:]}
    finally:
        if inplace:
            sh(f"git -C {repo} checkout -- . && git -C {repo} clean -fdq")
        else:
            sh(f"git -C /repo worktree remove --force {repo}; rm -rf {EVAL_COPY}")
    res["caught"] = any(v["rc"] == 1 for v in res.get("checks", {}).values())
    print(json.dumps(res))


if __name__ == "__main__":
    main()
